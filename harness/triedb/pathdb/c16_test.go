//go:build verif

package pathdb

// C16: layered state reads return exactly the requested state.
//
// A rapid-driven machine grows a tree of state layers (forks, repeated roots, empty
// transitions) through Database.Update / Database.Commit with small write buffers
// and optional asynchronous flushing, and after every step compares every read
// (account, storage slot, trie node) at every root against the per-root model of
// pdbWorld and the kit/reftrie node sets. Roots whose layer was dropped must fail
// to open; readers opened earlier must return an error or the model value.

import (
	"bytes"
	"fmt"
	"runtime"
	"sort"
	"strings"
	"sync"
	"sync/atomic"
	"testing"
	"time"

	"github.com/ethereum/go-ethereum/common"
	"github.com/ethereum/go-ethereum/core/rawdb"
	"github.com/ethereum/go-ethereum/ethdb"
	"github.com/ethereum/go-ethereum/triedb/database"
	"pgregory.net/rapid"
	"verif.local/kit/reftrie"
	vs "verif.local/kit/stat"
)

// Known finding class (see notes/C16.md "Suspected defect"): layerTree.cap leaves
// sibling forks of the capped path linked to the replaced diff layer.
const c16KnownFork = "fork-on-flattened-parent"

type c16Fataler interface {
	Fatalf(string, ...any)
}

type c16Spec struct {
	parent common.Hash
	ops    []pdbOp
	seq    uint64
	raw    bool
}

type c16Held struct {
	root common.Hash
	at   int // number of trace entries when the readers were opened
	sr   database.StateReader
	nr   database.NodeReader
}

type c16Machine struct {
	t         c16Fataler
	w         *pdbWorld
	db        *Database
	maxLayers int
	gated     bool // known finding listed: avoid its trigger by construction

	live     map[common.Hash]bool
	parent   map[common.Hash]common.Hash
	dangling map[common.Hash]bool
	touchedA map[common.Hash]map[common.Hash]bool
	touchedS map[common.Hash]map[[2]common.Hash]bool
	spec     map[common.Hash]c16Spec
	base     common.Hash
	head     common.Hash
	held     []c16Held
	allPaths map[common.Hash]map[string]common.Hash // owner -> path -> hash of some node seen there
	rebased  map[common.Hash]int                    // root -> trace position at which its diff layer was flattened into the disk layer

	// statistics
	trace                                     []string
	deepRead, bufferRead, frozenRead, diskHit int
	staleErr, deadOpenErr, danglingErr        int
	caps, commits, forks, repeats, empties    int
	recreates, reads, excluded                int
	visit                                     int  // rotates the refused-read probes
	fullProbe                                 bool // probe every absent path (final verification)
}

func newC16Machine(t c16Fataler, db *Database, w *pdbWorld, maxLayers int) *c16Machine {
	m := &c16Machine{
		t: t, w: w, db: db, maxLayers: maxLayers,
		gated:    vs.Known("TestVerifC16Machine", c16KnownFork),
		live:     map[common.Hash]bool{},
		parent:   map[common.Hash]common.Hash{},
		dangling: map[common.Hash]bool{},
		touchedA: map[common.Hash]map[common.Hash]bool{},
		touchedS: map[common.Hash]map[[2]common.Hash]bool{},
		spec:     map[common.Hash]c16Spec{},
		allPaths: map[common.Hash]map[string]common.Hash{},
		rebased:  map[common.Hash]int{},
	}
	m.base = w.Roots()[0]
	m.head = m.base
	m.live[m.base] = true
	return m
}

func (m *c16Machine) logf(format string, a ...any) {
	m.trace = append(m.trace, fmt.Sprintf(format, a...))
}

func (m *c16Machine) fail(format string, a ...any) {
	tail := m.trace
	if len(tail) > 80 {
		tail = tail[len(tail)-80:]
	}
	m.t.Fatalf("%s\nmaxDiffLayers=%d history (last %d steps):\n  %s", fmt.Sprintf(format, a...), m.maxLayers, len(tail), strings.Join(tail, "\n  "))
}

// liveList returns the live roots in world creation order (deterministic).
func (m *c16Machine) liveList(includeDangling bool) []common.Hash {
	var out []common.Hash
	for _, r := range m.w.Roots() {
		if m.live[r] && (includeDangling || !m.dangling[r]) {
			out = append(out, r)
		}
	}
	return out
}

func (m *c16Machine) deadList() []common.Hash {
	var out []common.Hash
	for _, r := range m.w.Roots() {
		if !m.live[r] {
			out = append(out, r)
		}
	}
	return out
}

func (m *c16Machine) isAncestorOrSelf(anc, r common.Hash) bool {
	for {
		if r == anc {
			return true
		}
		if r == m.base {
			return false
		}
		p, ok := m.parent[r]
		if !ok {
			return false
		}
		r = p
	}
}

// modelCap mirrors layerTree.cap(root, layers) for layers > 0 on the model tree.
func (m *c16Machine) modelCap(root common.Hash) {
	if root == m.base {
		return
	}
	d := root
	for i := 0; i < m.maxLayers-1; i++ {
		p := m.parent[d]
		if p == m.base {
			return
		}
		d = p
	}
	p := m.parent[d]
	if p == m.base {
		return
	}
	m.caps++
	m.rebase(p, d)
}

// rebase makes newBase the disk layer. keep is the child of newBase on the capped
// path (zero for a full commit): other surviving children of newBase dangle.
func (m *c16Machine) rebase(newBase, keep common.Hash) {
	for _, r := range m.liveList(true) {
		if r == newBase {
			continue
		}
		if !m.isAncestorOrSelf(newBase, r) || keep == (common.Hash{}) {
			delete(m.live, r)
			delete(m.dangling, r)
			delete(m.parent, r)
			continue
		}
		if !m.isAncestorOrSelf(keep, r) {
			m.dangling[r] = true
		}
	}
	delete(m.parent, newBase)
	m.rebased[newBase] = len(m.trace)
	m.base = newBase
	if !m.live[m.head] {
		m.head = newBase
	}
}

func (m *c16Machine) register(tr *pdbTransition) {
	m.live[tr.Root] = true
	m.parent[tr.Root] = tr.Parent
	if m.dangling[tr.Parent] {
		m.dangling[tr.Root] = true
	}
	ta := map[common.Hash]bool{}
	for _, a := range tr.Accounts {
		ta[a] = true
	}
	ts := map[[2]common.Hash]bool{}
	for _, s := range tr.Slots {
		ts[s] = true
	}
	m.touchedA[tr.Root], m.touchedS[tr.Root] = ta, ts
	m.spec[tr.Root] = c16Spec{tr.Parent, tr.Ops, tr.Seq, tr.Raw}
	ref := m.w.RefNodes(tr.Root)
	note := func(owner common.Hash, set map[string][]byte) {
		if m.allPaths[owner] == nil {
			m.allPaths[owner] = map[string]common.Hash{}
		}
		for p, b := range set {
			m.allPaths[owner][p] = common.Hash(reftrie.Keccak256(b))
		}
	}
	note(common.Hash{}, ref.Account)
	for o, set := range ref.Storage {
		note(o, set)
	}
}

// update performs Database.Update for a freshly built transition and advances the model.
func (m *c16Machine) update(tr *pdbTransition, claimedParent common.Hash) {
	wasLive := m.live[tr.Root]
	err := m.db.Update(tr.Root, claimedParent, uint64(len(m.trace)), tr.Nodes, tr.States)
	switch {
	case tr.Root == claimedParent:
		m.empties++
		m.logf("update-empty %x<-%x err=%v", tr.Root[:4], claimedParent[:4], err)
		if err == nil {
			m.fail("Update with root == parent %x was accepted", tr.Root)
		}
	case wasLive:
		// repeated root: layerTree.add documents a silent no-op (the cap that follows
		// may complain when the root is the disk layer); nothing may change.
		m.repeats++
		m.logf("update-repeat %x<-%x err=%v", tr.Root[:4], claimedParent[:4], err)
	default:
		m.logf("update %x<-%x ops=%v seq=%d err=%v", tr.Root[:4], claimedParent[:4], tr.Ops, tr.Seq, err)
		if err != nil {
			m.fail("Update(%x <- %x) failed: %v", tr.Root, claimedParent, err)
		}
		for _, r := range m.liveList(true) {
			if m.parent[r] == tr.Parent && r != tr.Root {
				m.forks++
				break
			}
		}
		if tr.Recreated {
			m.recreates++
		}
		m.register(tr)
		m.head = tr.Root
		m.modelCap(tr.Root)
	}
	m.audit()
}

func (m *c16Machine) commit(root common.Hash) {
	err := m.db.Commit(root, false)
	m.logf("commit %x err=%v", root[:4], err)
	if root != m.base { // committing the disk layer itself is refused or a no-op; either way nothing changes

		if err != nil {
			m.fail("Commit(%x) failed: %v", root, err)
		}
		m.commits++
		m.rebase(root, common.Hash{})
	}
	m.audit()
}

// audit compares the shape of the layer tree with the model.
func (m *c16Machine) audit() {
	if got := m.db.tree.bottom().rootHash(); got != m.base {
		m.fail("disk layer root is %x, model expects %x", got, m.base)
	}
	if got := m.db.tree.len(); got != len(m.live) {
		var have []string
		m.db.tree.forEach(func(l layer) { h := l.rootHash(); have = append(have, fmt.Sprintf("%x", h[:4])) })
		m.fail("layer tree holds %d layers %v, model expects %d", got, have, len(m.live))
	}
}

func c16Same(a, b []byte) bool { return (len(a) == 0 && len(b) == 0) || bytes.Equal(a, b) }

// servedBy classifies which layer serves key at root in the model: the distance to
// the first layer on the parent chain that touched it, or -1 when the disk layer does.
func (m *c16Machine) servedBy(root common.Hash, touched func(r common.Hash) bool) (depth int, tip common.Hash) {
	r := root
	for d := 0; ; d++ {
		if r == m.base {
			return -1, m.base
		}
		if touched(r) {
			return d, r
		}
		r = m.parent[r]
	}
}

// verifyReads checks every read at root through the given readers. strict: every
// read must succeed; otherwise an error is acceptable but a value must be the model's.
func (m *c16Machine) verifyReads(root common.Hash, sr database.StateReader, nr database.NodeReader, strict bool, what string) {
	st := m.w.State(root)
	rd := sr.(*reader)
	onErr := func(kind string, err error) {
		if strict {
			m.fail("%s read at %s root %x failed: %v", kind, what, root, err)
		}
		if m.dangling[root] {
			m.danglingErr++
		} else {
			m.staleErr++
		}
	}
	dl := m.db.tree.bottom()
	for _, a := range m.w.AllAccountHashes() {
		m.reads++
		got, err := rd.AccountRLP(a)
		if err != nil {
			onErr("account", err)
		} else if want := st.AccountBlob(a); !c16Same(got, want) {
			m.fail("account %x at %s root %x: got %x, model %x", a, what, root, got, want)
		}
		if strict {
			depth, tip := m.servedBy(root, func(r common.Hash) bool { return m.touchedA[r][a] })
			if gotTip, ok := m.db.tree.lookup.accountTip(a, root, m.base); !ok || gotTip != tip {
				m.fail("lookup.accountTip(%x, %x) = %x,%v; the first layer on the parent chain holding it is %x", a, root, gotTip, ok, tip)
			}
			switch {
			case depth >= 2:
				m.deepRead++
			case depth == -1:
				if _, ok := dl.buffer.account(a); ok {
					m.bufferRead++
				} else if dl.frozen != nil {
					if _, ok := dl.frozen.account(a); ok {
						m.frozenRead++
					}
				} else {
					m.diskHit++
				}
			}
		}
		for _, s := range m.w.AllSlotHashes() {
			m.reads++
			got, err := rd.Storage(a, s)
			if err != nil {
				onErr("storage", err)
			} else if want := st.SlotBlob(a, s); !c16Same(got, want) {
				m.fail("slot %x/%x at %s root %x: got %x, model %x", a, s, what, root, got, want)
			}
			if strict {
				key := [2]common.Hash{a, s}
				depth, tip := m.servedBy(root, func(r common.Hash) bool { return m.touchedS[r][key] })
				if gotTip, ok := m.db.tree.lookup.storageTip(a, s, root, m.base); !ok || gotTip != tip {
					m.fail("lookup.storageTip(%x, %x, %x) = %x,%v; the first layer on the parent chain holding it is %x", a, s, root, gotTip, ok, tip)
				}
				if depth >= 2 {
					m.deepRead++
				} else if depth == -1 {
					if _, ok := dl.buffer.storage(a, s); ok {
						m.bufferRead++
					} else if dl.frozen != nil {
						if _, ok := dl.frozen.storage(a, s); ok {
							m.frozenRead++
						}
					}
				}
			}
		}
	}
	if nr == nil {
		return
	}
	ref := m.w.RefNodes(root)
	owners := make([]common.Hash, 0, len(m.allPaths))
	for o := range m.allPaths {
		owners = append(owners, o)
	}
	for _, owner := range pdbSortHashes(owners) {
		set := ref.set(owner)
		paths := make([]string, 0, len(m.allPaths[owner]))
		for p := range m.allPaths[owner] {
			paths = append(paths, p)
		}
		sort.Strings(paths)
		probes := 0
		for i, p := range paths {
			m.reads++
			// reads that are expected to be refused go through geth's error path (formatting
			// the blob); only a rotating handful per trie and visit is probed that way
			probe := probes < 3 && (i+m.visit)%4 == 0
			if want, ok := set[p]; ok {
				got, err := nr.Node(owner, []byte(p), common.Hash(reftrie.Keccak256(want)))
				if err != nil {
					onErr("node", err)
				} else if !bytes.Equal(got, want) {
					m.fail("node %x/%x at %s root %x: got %x, reference %x", owner, p, what, root, got, want)
				}
				if probe {
					probes++
					// a wrong hash must never be answered with data
					if got, err := nr.Node(owner, []byte(p), common.Hash{0xba, 0xd0}); err == nil && len(got) != 0 {
						m.fail("node %x/%x at root %x returned %x for a mismatching hash", owner, p, root, got)
					}
				}
			} else if probe || m.fullProbe {
				probes++
				// no node at this path in this state: asking for another state's node there must not yield data
				got, err := nr.Node(owner, []byte(p), m.allPaths[owner][p])
				if err == nil && len(got) != 0 {
					m.fail("node %x/%x does not exist at %s root %x but the read returned %x", owner, p, what, root, got)
				}
			}
		}
	}
	m.visit++
}

// verifyAll checks availability and reads at the selected roots and through held readers.
func (m *c16Machine) verifyAll(maxLive, maxDead int) {
	live := m.liveList(true)
	if maxLive > 0 && len(live) > maxLive {
		// always keep the base, its children, the head and its parent and the forks left
		// on the flattened parent; rotate through the rest
		var sel, rest []common.Hash
		for _, r := range live {
			if r == m.base || r == m.head || r == m.parent[m.head] || m.parent[r] == m.base || m.dangling[r] {
				sel = append(sel, r)
			} else {
				rest = append(rest, r)
			}
		}
		for i := 0; len(sel) < maxLive && i < len(rest); i++ {
			sel = append(sel, rest[(i*7+m.visit)%len(rest)])
		}
		live = sel
	}
	for _, r := range live {
		sr, err := m.db.StateReader(r)
		if err != nil {
			m.fail("StateReader(%x) on a live root failed: %v", r, err)
		}
		nr, err := m.db.NodeReader(r)
		if err != nil {
			m.fail("NodeReader(%x) on a live root failed: %v", r, err)
		}
		strict := !m.dangling[r] || !m.gated
		what := "live"
		if m.dangling[r] {
			what = "dangling-fork"
		}
		m.verifyReads(r, sr, nr, strict, what)
	}
	dead := m.deadList()
	if maxDead > 0 && len(dead) > maxDead {
		dead = dead[len(dead)-maxDead:]
	}
	for _, r := range dead {
		if _, err := m.db.StateReader(r); err == nil {
			m.fail("StateReader(%x) opened although the layer was dropped", r)
		}
		if _, err := m.db.NodeReader(r); err == nil {
			m.fail("NodeReader(%x) opened although the layer was dropped", r)
		}
		m.deadOpenErr++
		for _, a := range m.w.AllAccountHashes()[:3] {
			if tip, ok := m.db.tree.lookup.accountTip(a, r, m.base); ok {
				m.fail("lookup.accountTip(%x, dropped root %x) resolved to %x", a, r, tip)
			}
		}
	}
	for _, h := range m.held {
		// A reader holds its layer object. Once that very layer has been flattened into the
		// disk layer the reader counts as one "whose layer was dropped" (error or model value),
		// although the same root is still served by the new disk layer to fresh readers.
		at, flattened := m.rebased[h.root]
		strict := m.live[h.root] && (!m.dangling[h.root] || !m.gated) && !(flattened && at >= h.at)
		m.verifyReads(h.root, h.sr, h.nr, strict, "held-reader")
	}
}

type c16Config struct {
	maxLayers  int
	bufSize    int
	noAsync    bool
	cleanCache int
	steps      int
	class      string
}

func c16DrawConfig(rt *rapid.T) c16Config {
	var c c16Config
	deepMax := 160
	if vs.Thorough() {
		deepMax = 200
	}
	switch k := rapid.IntRange(0, 19).Draw(rt, "shape"); {
	case k < 2: // production constant, chain grown past 128 layers
		c.maxLayers, c.steps, c.class = 128, rapid.IntRange(140, deepMax).Draw(rt, "steps"), "cap128"
	case k < 4: // production constant, shallow tree
		c.maxLayers, c.steps, c.class = 128, rapid.IntRange(5, 40).Draw(rt, "steps"), "shallow128"
	default: // lowered cap as the package's own tests do
		c.maxLayers = rapid.SampledFrom([]int{1, 2, 3, 5, 8}).Draw(rt, "maxDiffLayers")
		c.steps, c.class = rapid.IntRange(5, 60).Draw(rt, "steps"), fmt.Sprintf("cap%d", c.maxLayers)
	}
	c.bufSize = rapid.SampledFrom([]int{0, 1024, 64 * 1024}).Draw(rt, "writeBuffer")
	c.noAsync = rapid.Bool().Draw(rt, "noAsyncFlush")
	c.cleanCache = rapid.SampledFrom([]int{0, 64 * 1024}).Draw(rt, "cleanCache")
	return c
}

func TestVerifC16Machine(t *testing.T) {
	st := vs.New("C16", t)
	defer func(old int) { maxDiffLayers = old }(maxDiffLayers)
	vs.Check(t, 1, func(rt *rapid.T) {
		c := st.Case()
		cfg := c16DrawConfig(rt)
		maxDiffLayers = cfg.maxLayers
		disk := rawdb.NewMemoryDatabase()
		db := New(disk, &Config{
			WriteBufferSize: cfg.bufSize, NoAsyncFlush: cfg.noAsync, NoAsyncGeneration: true,
			TrieCleanSize: cfg.cleanCache, StateCleanSize: cfg.cleanCache, TrienodeHistory: -1,
		}, false)
		defer func() {
			db.Close()
			disk.Close()
		}()
		w := newPdbWorld()
		m := newC16Machine(rt, db, w, cfg.maxLayers)
		deep := cfg.maxLayers == 128
		for step := 0; step < cfg.steps; step++ {
			act := rapid.IntRange(0, 99).Draw(rt, "action")
			forceHead := false
			if cfg.class == "cap128" && act >= 5 && act < 96 {
				act, forceHead = 0, true // mostly extend the head so that the chain passes 128 layers
			}
			switch {
			case act < 62: // new layer
				cands := m.liveList(!m.gated)
				parent := m.head
				if m.gated && m.dangling[parent] {
					parent = cands[len(cands)-1]
				}
				if !forceHead && rapid.IntRange(0, 99).Draw(rt, "fork") < 30 {
					parent = cands[rapid.IntRange(0, len(cands)-1).Draw(rt, "parent")]
				}
				if m.gated && len(m.dangling) > 0 {
					m.excluded++ // forks hanging on the flattened parent are not extended (known finding)
				}
				ops := pdbDrawOps(rt, w.State(parent), rapid.IntRange(1, 4).Draw(rt, "nops"))
				tr := w.Transition(parent, ops, w.NextSeq(), rapid.Bool().Draw(rt, "rawKeys"))
				m.update(tr, tr.Parent)
			case act < 70: // repeated root
				var cands []common.Hash
				for _, r := range m.liveList(!m.gated) {
					if sp, ok := m.spec[r]; ok && w.State(sp.parent) != nil {
						cands = append(cands, r)
					}
				}
				if len(cands) == 0 {
					continue
				}
				r := cands[rapid.IntRange(0, len(cands)-1).Draw(rt, "repeat")]
				sp := m.spec[r]
				tr := w.Transition(sp.parent, sp.ops, sp.seq, sp.raw)
				if tr.Root != r {
					rt.Fatalf("VERIF-HARNESS-BUG: rebuilt transition has root %x, expected %x", tr.Root, r)
				}
				claimed := sp.parent
				if live := m.liveList(true); rapid.Bool().Draw(rt, "otherParent") {
					claimed = live[rapid.IntRange(0, len(live)-1).Draw(rt, "claimed")]
				}
				m.update(tr, claimed)
			case act < 75: // empty transition
				live := m.liveList(!m.gated)
				parent := live[rapid.IntRange(0, len(live)-1).Draw(rt, "parent")]
				var ops []pdbOp
				if rapid.Bool().Draw(rt, "ineffectiveOp") {
					ops = []pdbOp{{pdbOpDelSlot, rapid.IntRange(0, pdbNumAddrs-1).Draw(rt, "acct"), rapid.IntRange(0, pdbNumSlots-1).Draw(rt, "slot"), 0}}
				}
				tr := w.Transition(parent, ops, 0, false)
				if tr.Root != tr.Parent {
					continue // the ops happened to be effective; not the case wanted here
				}
				m.update(tr, tr.Parent)
			case act < 83: // full commit
				live := m.liveList(!m.gated)
				root := m.head
				if m.gated && m.dangling[root] {
					root = live[len(live)-1]
				}
				if rapid.IntRange(0, 3).Draw(rt, "commitAny") == 0 {
					root = live[rapid.IntRange(0, len(live)-1).Draw(rt, "commitRoot")]
				}
				m.commit(root)
			case act < 92: // open readers that are kept across later flattening
				roots := w.Roots()
				r := roots[rapid.IntRange(0, len(roots)-1).Draw(rt, "readerRoot")]
				sr, err1 := db.StateReader(r)
				nr, err2 := db.NodeReader(r)
				if (err1 == nil) != m.live[r] || (err2 == nil) != m.live[r] {
					m.fail("readers at %x: StateReader err=%v NodeReader err=%v, live in model: %v", r, err1, err2, m.live[r])
				}
				if err1 == nil && len(m.held) < 12 {
					m.held = append(m.held, c16Held{r, len(m.trace), sr, nr})
					m.logf("hold reader %x", r[:4])
				}
			default:
				if !deep {
					m.verifyAll(0, 0)
				}
			}
			if !deep || step%24 == 0 {
				m.verifyAll(6, 6)
			}
		}
		m.fullProbe = true
		if deep {
			m.verifyAll(40, 20)
		} else {
			m.verifyAll(0, 0)
		}
		if err := db.tree.bottom().waitFlush(); err != nil {
			m.fail("background flush failed: %v", err)
		}

		nontrivial := m.deepRead > 0 || m.bufferRead > 0 || m.frozenRead > 0 || m.staleErr > 0
		c.NonTrivial(nontrivial, strings.Join(m.trace, ";"))
		c.Class(cfg.class)
		c.Classf("buf=%d async=%v", cfg.bufSize, !cfg.noAsync)
		for label, n := range map[string]int{
			"has-cap": m.caps, "has-commit": m.commits, "has-fork": m.forks, "has-repeat": m.repeats,
			"has-empty-rejected": m.empties, "has-recreate": m.recreates, "read-deep-diff": m.deepRead,
			"read-live-buffer": m.bufferRead, "read-frozen-buffer": m.frozenRead, "read-stale-error": m.staleErr,
			"dead-root-open-refused": m.deadOpenErr, "dangling-fork-seen": len(m.dangling) + m.danglingErr,
		} {
			if n > 0 {
				c.Class(label)
			}
		}
		if m.excluded > 0 {
			st.Excluded()
			c.Class("known-fork-not-extended")
		}
		c.Sample(nontrivial, func() any {
			tr := m.trace
			if len(tr) > 12 {
				tr = tr[:12]
			}
			return map[string]any{"config": fmt.Sprintf("%+v", cfg), "first_steps": tr, "reads": m.reads,
				"caps": m.caps, "deep_reads": m.deepRead, "buffer_reads": m.bufferRead, "frozen_reads": m.frozenRead, "stale_errors": m.staleErr}
		})
	})
}

// TestVerifC16Conc runs reader goroutines over (root, key) pairs while the main
// goroutine applies a pre-generated history (updates with capping, commits and
// flushes). Every concurrent read must return the model value of its root or an error.
func TestVerifC16Conc(t *testing.T) {
	st := vs.New("C16", t)
	defer func(old int) { maxDiffLayers = old }(maxDiffLayers)
	mult := 0.12
	vs.Check(t, mult, func(rt *rapid.T) {
		c := st.Case()
		maxDiffLayers = rapid.SampledFrom([]int{2, 3, 5}).Draw(rt, "maxDiffLayers")
		bufSize := rapid.SampledFrom([]int{0, 1024, 64 * 1024}).Draw(rt, "writeBuffer")
		procs := rapid.SampledFrom([]int{1, 2, 4, 16}).Draw(rt, "gomaxprocs")
		defer runtime.GOMAXPROCS(runtime.GOMAXPROCS(procs))
		disk := rawdb.NewMemoryDatabase()
		db := New(disk, &Config{WriteBufferSize: bufSize, NoAsyncFlush: false, NoAsyncGeneration: true,
			TrieCleanSize: 64 * 1024, StateCleanSize: 64 * 1024, TrienodeHistory: -1}, false)
		defer func() {
			db.Close()
			disk.Close()
		}()
		// pre-generate a linear history with occasional short side forks
		w := newPdbWorld()
		type step struct {
			tr     *pdbTransition
			commit bool
		}
		var (
			plan []step
			head = w.Roots()[0]
			n    = rapid.IntRange(20, 60).Draw(rt, "steps")
		)
		for i := 0; i < n; i++ {
			parent := head
			side := rapid.IntRange(0, 9).Draw(rt, "side") == 0
			tr := w.Transition(parent, pdbDrawOps(rt, w.State(parent), rapid.IntRange(1, 4).Draw(rt, "nops")), w.NextSeq(), false)
			plan = append(plan, step{tr, !side && rapid.IntRange(0, 11).Draw(rt, "commit") == 0})
			if !side {
				head = tr.Root
			}
		}
		roots := append([]common.Hash{}, w.Roots()...)
		accts, slots := w.AllAccountHashes(), w.AllSlotHashes()
		refs := map[common.Hash]*pdbRefNodes{}
		for _, r := range roots {
			refs[r] = w.RefNodes(r)
		}
		var (
			stop     atomic.Bool
			wg       sync.WaitGroup
			okReads  atomic.Int64
			errReads atomic.Int64
			failMu   sync.Mutex
			failure  string
		)
		readers := rapid.IntRange(2, 6).Draw(rt, "readers")
		seed := rapid.Uint64().Draw(rt, "readerSeed")
		for g := 0; g < readers; g++ {
			wg.Add(1)
			go func(x uint64) {
				defer wg.Done()
				next := func() uint64 { x ^= x << 13; x ^= x >> 7; x ^= x << 17; return x }
				report := func(s string) {
					failMu.Lock()
					if failure == "" {
						failure = s
					}
					failMu.Unlock()
					stop.Store(true)
				}
				for !stop.Load() {
					r := roots[next()%uint64(len(roots))]
					sr, err := db.StateReader(r)
					if err != nil {
						errReads.Add(1)
						if next()%4 == 0 {
							runtime.Gosched()
						}
						continue
					}
					nr, _ := db.NodeReader(r)
					model := w.states[r] // read-only: the world is complete before the readers start
					for k := 0; k < 6 && !stop.Load(); k++ {
						a := accts[next()%uint64(len(accts))]
						switch next() % 3 {
						case 0:
							got, err := sr.(*reader).AccountRLP(a)
							if err != nil {
								errReads.Add(1)
							} else if !c16Same(got, model.AccountBlob(a)) {
								report(fmt.Sprintf("concurrent account read %x at root %x: got %x, model %x", a, r, got, model.AccountBlob(a)))
							} else {
								okReads.Add(1)
							}
						case 1:
							s := slots[next()%uint64(len(slots))]
							got, err := sr.Storage(a, s)
							if err != nil {
								errReads.Add(1)
							} else if !c16Same(got, model.SlotBlob(a, s)) {
								report(fmt.Sprintf("concurrent slot read %x/%x at root %x: got %x, model %x", a, s, r, got, model.SlotBlob(a, s)))
							} else {
								okReads.Add(1)
							}
						default:
							if nr == nil {
								continue
							}
							for p, want := range refs[r].Account {
								got, err := nr.Node(common.Hash{}, []byte(p), common.Hash(reftrie.Keccak256(want)))
								if err != nil {
									errReads.Add(1)
								} else if !bytes.Equal(got, want) {
									report(fmt.Sprintf("concurrent node read %x at root %x: got %x, reference %x", p, r, got, want))
								} else {
									okReads.Add(1)
								}
								break
							}
						}
						if next()%8 == 0 {
							runtime.Gosched()
						}
					}
				}
			}(seed + uint64(g)*0x9e3779b97f4a7c15 + 1)
		}
		var updateErr error
		for i, s := range plan {
			if stop.Load() {
				break
			}
			if db.tree.get(s.tr.Parent) == nil {
				continue // the parent went away with an earlier commit (side fork)
			}
			if err := db.Update(s.tr.Root, s.tr.Parent, uint64(i), s.tr.Nodes, s.tr.States); err != nil {
				updateErr = fmt.Errorf("Update(%x<-%x): %v", s.tr.Root, s.tr.Parent, err)
				break
			}
			if s.commit {
				if err := db.Commit(s.tr.Root, false); err != nil {
					updateErr = fmt.Errorf("Commit(%x): %v", s.tr.Root, err)
					break
				}
			}
			runtime.Gosched()
		}
		stop.Store(true)
		wg.Wait()
		if updateErr != nil {
			rt.Fatalf("%v", updateErr)
		}
		if failure != "" {
			rt.Fatalf("%s (schedule dependent: GOMAXPROCS=%d readers=%d seed=%d)", failure, procs, readers, seed)
		}
		// the final state must be fully readable
		sr, err := db.StateReader(head)
		if err != nil {
			rt.Fatalf("head %x not readable after the history: %v", head, err)
		}
		for _, a := range accts {
			got, err := sr.(*reader).AccountRLP(a)
			if err != nil || !c16Same(got, w.State(head).AccountBlob(a)) {
				rt.Fatalf("account %x at final head %x: got %x err %v, model %x", a, head, got, err, w.State(head).AccountBlob(a))
			}
		}
		nt := okReads.Load() > 0 && errReads.Load() > 0
		c.NonTrivial(nt, fmt.Sprintf("%d/%d/%d/%x", maxDiffLayers, bufSize, n, head))
		c.Classf("conc procs=%d", procs)
		if errReads.Load() > 0 {
			c.Class("conc-stale-error-observed")
		}
		c.Sample(nt, func() any {
			return map[string]any{"steps": n, "readers": readers, "gomaxprocs": procs, "ok_reads": okReads.Load(), "error_reads": errReads.Load()}
		})
	})
}

// ---------------------------------------------------------------------------
// Owned schedule: a disk read of the reader is stalled while a layer is flattened.
// ---------------------------------------------------------------------------

// c16StallDB wraps the key-value store handed to pathdb. A Get on the armed key
// fetches the value, signals `reached` and then waits (bounded) for `release`: it
// models a slow disk read at a point chosen by the harness. No source hook.
type c16StallDB struct {
	ethdb.Database
	mu      sync.Mutex
	armed   []byte
	reached chan struct{}
	release chan struct{}
}

func (d *c16StallDB) arm(key []byte) (reached, release chan struct{}) {
	d.mu.Lock()
	defer d.mu.Unlock()
	d.armed, d.reached, d.release = common.CopyBytes(key), make(chan struct{}), make(chan struct{})
	return d.reached, d.release
}

func (d *c16StallDB) Get(key []byte) ([]byte, error) {
	val, err := d.Database.Get(key)
	d.mu.Lock()
	var reached, release chan struct{}
	if d.armed != nil && bytes.Equal(d.armed, key) {
		reached, release, d.armed = d.reached, d.release, nil
	}
	d.mu.Unlock()
	if reached != nil {
		close(reached)
		select {
		case <-release:
		case <-time.After(2 * time.Second): // bounded: never a deadlock, whatever the tree does
		}
	}
	return val, err
}

// TestVerifC16Stall owns the interleaving "reader fetched the old value from disk ->
// a diff layer changing that key is flattened and flushed -> reader continues".
// The reader reads at the disk layer root a key that is in no buffer and not in the
// clean caches (fresh key, or any key after a reopen). While its Get is stalled the
// harness checks white-box whether the reader still holds the disk layer's lock:
// if so the flattening cannot overtake it and the reader is released at once; if the
// lock is free, the update/cap/flush runs to completion first. Afterwards the
// reader's result must be the model value of its root or an error, and every key at
// every live root must read as in the model.
func TestVerifC16Stall(t *testing.T) {
	st := vs.New("C16", t)
	defer func(old int) { maxDiffLayers = old }(maxDiffLayers)
	vs.Check(t, 0.15, func(rt *rapid.T) {
		c := st.Case()
		maxDiffLayers = rapid.SampledFrom([]int{1, 2, 3}).Draw(rt, "maxDiffLayers")
		cfg := &Config{
			WriteBufferSize: rapid.SampledFrom([]int{0, 0, 512}).Draw(rt, "writeBuffer"),
			NoAsyncFlush:    rapid.Bool().Draw(rt, "noAsyncFlush"), NoAsyncGeneration: true,
			TrieCleanSize: 64 * 1024, StateCleanSize: 64 * 1024, TrienodeHistory: -1,
		}
		stall := &c16StallDB{Database: rawdb.NewMemoryDatabase()}
		db := New(stall, cfg, false)
		defer func() {
			db.Close()
			stall.Database.Close()
		}()
		w := newPdbWorld()
		var trace []string
		fail := func(format string, a ...any) {
			rt.Fatalf("%s\nmaxDiffLayers=%d buffer=%d noAsyncFlush=%v\nhistory:\n  %s", fmt.Sprintf(format, a...), maxDiffLayers, cfg.WriteBufferSize, cfg.NoAsyncFlush, strings.Join(trace, "\n  "))
		}
		push := func(parent common.Hash, ops []pdbOp) common.Hash {
			tr := w.Transition(parent, ops, w.NextSeq(), rapid.Bool().Draw(rt, "rawKeys"))
			if err := db.Update(tr.Root, tr.Parent, uint64(len(trace)), tr.Nodes, tr.States); err != nil {
				fail("Update(%x<-%x): %v", tr.Root, tr.Parent, err)
			}
			trace = append(trace, fmt.Sprintf("update %x<-%x %v", tr.Root[:4], tr.Parent[:4], ops))
			return tr.Root
		}
		// preparation: a history over accounts 0..5 (6 and 7 stay untouched = fresh keys), committed to disk
		head := w.Roots()[0]
		for i, n := 0, rapid.IntRange(2, 10).Draw(rt, "prep"); i < n; i++ {
			var ops []pdbOp
			for _, o := range pdbDrawOps(rt, w.State(head), rapid.IntRange(2, 5).Draw(rt, "nops")) {
				if o.A%pdbNumAddrs < 6 {
					ops = append(ops, o)
				}
			}
			head = push(head, ops)
		}
		if err := db.Commit(head, false); err != nil {
			fail("Commit(%x): %v", head, err)
		}
		trace = append(trace, fmt.Sprintf("commit %x", head[:4]))
		reopen := rapid.Bool().Draw(rt, "reopen")
		if reopen {
			// a fresh Database over the same store: empty buffers and clean caches, state on disk
			if err := db.Close(); err != nil {
				fail("Close: %v", err)
			}
			db = New(stall, cfg, false)
			trace = append(trace, "reopen")
			if got := db.tree.bottom().rootHash(); got != head {
				fail("reopened database has disk root %x, expected %x", got, head)
			}
		}
		diskRoot, dst := head, w.State(head)

		// the key, the transition that changes it and the disk key to stall on
		kind := rapid.SampledFrom([]string{"account", "slot", "node"}).Draw(rt, "kind")
		var existing []int
		for i := 0; i < 6; i++ {
			if dst.Accts[pdbAddrs[i].Hash] != nil {
				existing = append(existing, i)
			}
		}
		var (
			ai      = 6 + rapid.IntRange(0, 1).Draw(rt, "freshAccount")
			si      = rapid.IntRange(0, pdbNumSlots-1).Draw(rt, "slot")
			val     = rapid.IntRange(0, len(pdbValues)-1).Draw(rt, "val")
			ops     []pdbOp
			diskKey []byte
			read    func(sr database.StateReader, nr database.NodeReader) ([]byte, error)
			want    []byte
		)
		useExisting := reopen && len(existing) > 0 && (kind == "node" || rapid.Bool().Draw(rt, "existingKey"))
		if useExisting {
			ai = existing[rapid.IntRange(0, len(existing)-1).Draw(rt, "existingAccount")]
		} else if kind == "node" {
			kind = "account" // a fresh account has no node on disk whose stale copy could be cached
		}
		a := pdbAddrs[ai].Hash
		s := pdbSlots[si].Hash
		switch kind {
		case "account":
			ops = []pdbOp{{pdbOpCreate, ai, 0, val}, {pdbOpModify, ai, 0, val}}
			diskKey = append(common.CopyBytes(rawdb.SnapshotAccountPrefix), a[:]...)
			want = dst.AccountBlob(a)
			read = func(sr database.StateReader, _ database.NodeReader) ([]byte, error) { return sr.(*reader).AccountRLP(a) }
		case "slot":
			ops = []pdbOp{{pdbOpCreate, ai, 0, val}, {pdbOpSetSlot, ai, si, val}}
			if bytes.Equal(dst.SlotBlob(a, s), pdbSlotValue(val)) {
				ops[1] = pdbOp{pdbOpDelSlot, ai, si, 0}
			}
			diskKey = append(append(common.CopyBytes(rawdb.SnapshotStoragePrefix), a[:]...), s[:]...)
			want = dst.SlotBlob(a, s)
			read = func(sr database.StateReader, _ database.NodeReader) ([]byte, error) { return sr.Storage(a, s) }
		default: // deepest account-trie node on the account's path: rewritten whenever the account changes
			ops = []pdbOp{{pdbOpModify, ai, 0, val}}
			var path []byte
			for p, blob := range w.RefNodes(diskRoot).Account {
				nib := make([]byte, 0, 64)
				for _, b := range a {
					nib = append(nib, b>>4, b&0x0f)
				}
				if len(p) > 0 && len(p) >= len(path) && bytes.HasPrefix(nib, []byte(p)) {
					path, want = []byte(p), blob
				}
			}
			if path == nil {
				kind = "account" // single-leaf trie: fall back to the flat account
				ops = []pdbOp{{pdbOpModify, ai, 0, val}}
				diskKey = append(common.CopyBytes(rawdb.SnapshotAccountPrefix), a[:]...)
				want = dst.AccountBlob(a)
				read = func(sr database.StateReader, _ database.NodeReader) ([]byte, error) { return sr.(*reader).AccountRLP(a) }
				break
			}
			diskKey = append(common.CopyBytes(rawdb.TrieNodeAccountPrefix), path...)
			hash := common.Hash(reftrie.Keccak256(want))
			read = func(_ database.StateReader, nr database.NodeReader) ([]byte, error) { return nr.Node(common.Hash{}, path, hash) }
		}
		sr, err := db.StateReader(diskRoot)
		if err != nil {
			fail("StateReader(disk root %x): %v", diskRoot, err)
		}
		nr, err := db.NodeReader(diskRoot)
		if err != nil {
			fail("NodeReader(disk root %x): %v", diskRoot, err)
		}
		oldDisk := db.tree.bottom()

		// the reader, stalled inside its disk read
		reached, release := stall.arm(diskKey)
		var (
			done      = make(chan struct{})
			gotBlob   []byte
			gotErr    error
			stalled   bool
			lockFree  bool
			flattened bool
		)
		go func() {
			defer close(done)
			gotBlob, gotErr = read(sr, nr)
		}()
		select {
		case <-reached:
			stalled = true
		case <-done: // answered from a buffer or cache: nothing to interleave with
		}
		// the mutation that flattens a layer changing the key (+ flush)
		mutate := func() {
			top := push(diskRoot, ops)
			target := top
			if rapid.Bool().Draw(rt, "viaCommit") {
				if err := db.Commit(top, false); err != nil {
					fail("Commit(%x): %v", top, err)
				}
				trace = append(trace, fmt.Sprintf("commit %x", top[:4]))
			} else {
				for i := 0; i < maxDiffLayers+1 && db.tree.bottom().rootHash() != target; i++ {
					top = push(top, nil) // sequencer only: never touches the key again
				}
			}
			flattened = db.tree.bottom().rootHash() == target
			head = top
		}
		if stalled {
			// Does the stalled reader still hold the disk layer's lock? Then no flattening can
			// pass it (diskLayer.commit needs the write lock) and waiting would only burn time.
			if oldDisk.lock.TryLock() {
				oldDisk.lock.Unlock()
				lockFree = true
				trace = append(trace, fmt.Sprintf("reader stalled in Get(%x) WITHOUT the disk layer lock", diskKey))
				mutate()
			} else {
				trace = append(trace, fmt.Sprintf("reader stalled in Get(%x) holding the disk layer lock", diskKey))
			}
			close(release)
			<-done
			trace = append(trace, "reader released")
			if !lockFree {
				mutate()
			}
		} else {
			mutate()
		}
		if gotErr == nil && !c16Same(gotBlob, want) {
			fail("%s read at disk root %x stalled across a flattening returned %x, model %x", kind, diskRoot, gotBlob, want)
		}
		// let the key leave the live/frozen buffers, then compare everything again
		for i := 0; i < 2; i++ {
			head = push(head, nil)
		}
		if err := db.tree.bottom().waitFlush(); err != nil {
			fail("flush: %v", err)
		}
		checked := 0
		for _, r := range w.Roots() {
			if db.tree.get(r) == nil {
				continue
			}
			checked++
			if d := pdbVerifyReads(db, w, r); d != "" {
				fail("after a %s disk read was stalled across the flattening of a layer changing it: %s", kind, d)
			}
		}
		nt := stalled && flattened
		c.NonTrivial(nt, strings.Join(trace, ";"))
		c.Classf("stall kind=%s", kind)
		switch {
		case !stalled:
			c.Class("stall: read served from memory")
		case lockFree:
			c.Class("stall: flattening overtook the stalled disk read")
		default:
			c.Class("stall: reader holds the layer lock, released before flattening")
		}
		if reopen {
			c.Class("stall: after reopen")
		}
		c.Sample(nt, func() any {
			return map[string]any{"kind": kind, "reopen": reopen, "stalled": stalled, "lock_free": lockFree, "flattened": flattened, "live_roots_checked": checked, "steps": trace}
		})
	})
}
