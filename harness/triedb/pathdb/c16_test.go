//go:build verif

package pathdb

import (
	"fmt"
	"testing"

	"github.com/ethereum/go-ethereum/common"
	"github.com/ethereum/go-ethereum/core/rawdb"
	"github.com/ethereum/go-ethereum/core/types"
	"verif.local/kit/reftrie"
)

func TestVerifC16Scratch(t *testing.T) {
	maxDiffLayers = 2
	defer func() { maxDiffLayers = 128 }()
	w := newPdbWorld()
	db := New(rawdb.NewMemoryDatabase(), &Config{WriteBufferSize: 1 << 20, NoAsyncFlush: true, NoAsyncGeneration: true, TrienodeHistory: -1}, false)
	defer db.Close()
	step := func(parent common.Hash, ops []pdbOp) common.Hash {
		tr := w.Transition(parent, ops, w.NextSeq(), false)
		err := db.Update(tr.Root, tr.Parent, 0, tr.Nodes, tr.States)
		fmt.Printf("update %x <- %x err=%v base=%x layers=%d\n", tr.Root[:4], tr.Parent[:4], err, db.tree.bottom().rootHash().Bytes()[:4], db.tree.len())
		return tr.Root
	}
	readAll := func(root common.Hash) {
		nr, err := db.NodeReader(root)
		if err != nil {
			fmt.Printf("  nodereader %x: %v\n", root[:4], err)
			return
		}
		ref := w.RefNodes(root)
		ok, bad := 0, 0
		for p, b := range ref.Account {
			got, err := nr.Node(common.Hash{}, []byte(p), common.Hash(reftrie.Keccak256(b)))
			if err != nil {
				bad++
				fmt.Printf("  node %x path %x: %v\n", root[:4], p, err)
			} else if string(got) != string(b) {
				t.Fatalf("wrong node")
			} else {
				ok++
			}
		}
		sr, _ := db.StateReader(root)
		for _, a := range w.AllAccountHashes() {
			acc, err := sr.(*reader).AccountRLP(a)
			if err != nil {
				fmt.Printf("  account %x: %v\n", a[:4], err)
			} else if string(acc) != string(w.State(root).AccountBlob(a)) {
				t.Fatalf("wrong account")
			}
		}
		fmt.Printf("  root %x nodes ok=%d err=%d\n", root[:4], ok, bad)
	}
	a := step(types.EmptyRootHash, []pdbOp{{pdbOpCreate, 0, 0, 1}, {pdbOpCreate, 1, 0, 1}, {pdbOpCreate, 3, 0, 1}})
	b := step(a, []pdbOp{{pdbOpCreate, 2, 0, 1}})
	b2 := step(a, []pdbOp{{pdbOpCreate, 4, 0, 2}})
	c := step(b, []pdbOp{{pdbOpCreate, 5, 0, 1}})
	for _, r := range []common.Hash{a, b, b2, c} {
		readAll(r)
	}
	c2 := step(b2, []pdbOp{{pdbOpCreate, 6, 0, 1}})
	readAll(c2)
	d2 := step(c2, []pdbOp{{pdbOpCreate, 7, 0, 1}})
	for _, r := range []common.Hash{a, b, b2, c, c2, d2} {
		readAll(r)
	}
	d := step(c, []pdbOp{{pdbOpModify, 0, 0, 1}})
	for _, r := range []common.Hash{a, b, b2, c, c2, d2, d} {
		readAll(r)
	}
}

