//go:build verif

package pathdb

// C19: the history index of one state element behaves as a sorted set of state
// ids under ascending appends, pops from the head, block-granular tail pruning
// and recovery truncation, with every session reopening the index from its
// stored bytes. The oracle is a plain sorted slice of (id, extension list).

import (
	"bytes"
	"encoding/binary"
	"fmt"
	"math"
	"math/rand"
	"sort"
	"strings"
	"testing"

	"github.com/ethereum/go-ethereum/common"
	"github.com/ethereum/go-ethereum/core/rawdb"
	"github.com/ethereum/go-ethereum/ethdb"
	"pgregory.net/rapid"
	vs "verif.local/kit/stat"
)

type c19Elem struct {
	id  uint64
	ext []uint16 // sorted ascending, unique; nil when the index has no extensions
}

// c19NodePath maps a node id of the 16-ary numbering documented at hexPathNodeID
// (0 = root, 1..16 = one nibble, 17..272 = two nibbles) back to its nibble path.
func c19NodePath(id uint16) []byte {
	switch {
	case id == 0:
		return nil
	case id <= 16:
		return []byte{byte(id - 1)}
	default:
		v := id - 17
		return []byte{byte(v / 16), byte(v % 16)}
	}
}

// c19Matches is the reference filter relation: the extension list contains the
// filter node itself or one of its descendants (path prefix relation).
func c19Matches(f uint16, ext []uint16) bool {
	fp := c19NodePath(f)
	for _, e := range ext {
		if bytes.HasPrefix(c19NodePath(e), fp) {
			return true
		}
	}
	return false
}

const (
	c19GapTiny = iota
	c19GapSmall
	c19GapHuge
	c19GapMixed
)

var c19GapNames = []string{"tiny", "small", "huge", "mixed"}

type c19Machine struct {
	rt      *rapid.T
	db      ethdb.Database
	ident   stateIdent
	bsize   int
	maxNode int
	model   []c19Elem
	rng     *rand.Rand
	gapCls  int
	extCls  int // 0 single, 1 few, 2 many, 3 mixed
	extPool []uint16
	trace   []string
	sizeCap int

	crossedBlock bool // a pop or prune crossed a block boundary
	restartHit   bool // a query was answered by the first element of a restart section (not the first)
	multiBlock   bool
	truncated    bool
	refreshed    bool
	maxLen       int

	prevReader *indexReader
}

func c19NewMachine(rt *rapid.T) *c19Machine {
	m := &c19Machine{rt: rt, db: rawdb.NewMemoryDatabase()}
	h1 := common.Hash{0xa, 0x1}
	h2 := common.Hash{0xb, 0x2}
	kind := rapid.SampledFrom([]string{"account", "storage", "tn-acct-1", "tn-acct-3", "tn-stor-0", "tn-stor-3"}).Draw(rt, "ident")
	switch kind {
	case "account":
		m.ident = newAccountIdent(h1)
	case "storage":
		m.ident = newStorageIdent(h1, h2)
	case "tn-acct-1":
		m.ident = newTrienodeIdent(common.Hash{}, string([]byte{5}))
	case "tn-acct-3":
		m.ident = newTrienodeIdent(common.Hash{}, string([]byte{5, 0, 15}))
	case "tn-stor-0":
		m.ident = newTrienodeIdent(h1, "")
	case "tn-stor-3":
		m.ident = newTrienodeIdent(h1, string([]byte{1, 2, 3}))
	}
	m.bsize = m.ident.bloomSize()
	switch m.bsize {
	case 0:
		m.maxNode = 0
	case bitmapBytesTwoLevels:
		m.maxNode = 16
	case bitmapBytesThreeLevels:
		m.maxNode = 272
	default:
		rt.Fatalf("VERIF-HARNESS-BUG: unexpected bitmap size %d for %s", m.bsize, kind)
	}
	m.rng = rand.New(rand.NewSource(int64(rapid.Uint64().Draw(rt, "prng"))))
	m.gapCls = rapid.SampledFrom([]int{c19GapTiny, c19GapTiny, c19GapSmall, c19GapSmall, c19GapHuge, c19GapMixed}).Draw(rt, "gapClass")
	m.extCls = rapid.IntRange(0, 3).Draw(rt, "extClass")
	if m.bsize != 0 {
		n := 3 + m.rng.Intn(4)
		for i := 0; i < n; i++ {
			m.extPool = append(m.extPool, uint16(m.rng.Intn(m.maxNode+1)))
		}
	}
	m.sizeCap = 9000
	if vs.Thorough() {
		m.sizeCap = 20000
	}
	return m
}

func (m *c19Machine) fatalf(format string, a ...any) {
	m.rt.Fatalf("%s\nident=%v bitmap=%d trace=%s", fmt.Sprintf(format, a...), m.ident.typ, m.bsize, strings.Join(m.trace, " "))
}

func (m *c19Machine) last() uint64 {
	if len(m.model) == 0 {
		return 0
	}
	return m.model[len(m.model)-1].id
}

const c19Ceiling = math.MaxUint64 - (1 << 24)

func (m *c19Machine) gap(cur uint64) uint64 {
	cls := m.gapCls
	if cls == c19GapMixed {
		cls = m.rng.Intn(3)
	}
	var g uint64
	switch cls {
	case c19GapTiny:
		g = 1
	case c19GapSmall:
		g = []uint64{1, 1, 1, 2, 3, 127, 128, 129, 255, 256, 16383, 16384, 16385}[m.rng.Intn(13)]
	default:
		g = uint64(1)<<uint(20+m.rng.Intn(37)) + uint64(m.rng.Intn(3)) - 1
	}
	if cur >= c19Ceiling || g >= c19Ceiling-cur {
		g = 1
	}
	return g
}

func (m *c19Machine) genExt() []uint16 {
	if m.bsize == 0 {
		return nil
	}
	cls := m.extCls
	if cls == 3 {
		cls = m.rng.Intn(3)
	}
	var n int
	switch cls {
	case 0:
		n = 1
	case 1:
		n = 1 + m.rng.Intn(4)
	default:
		n = 5 + m.rng.Intn(36)
	}
	if n > m.maxNode+1 {
		n = m.maxNode + 1
	}
	set := map[uint16]struct{}{}
	for len(set) < n {
		var v uint16
		if m.rng.Intn(3) == 0 {
			v = m.extPool[m.rng.Intn(len(m.extPool))]
		} else {
			v = uint16(m.rng.Intn(m.maxNode + 1))
		}
		set[v] = struct{}{}
	}
	out := make([]uint16, 0, n)
	for v := range set {
		out = append(out, v)
	}
	sort.Slice(out, func(i, j int) bool { return out[i] < out[j] })
	return out
}

// layout returns the number of entries per stored block (from the metadata).
func (m *c19Machine) layout() []int {
	meta := readStateIndex(m.ident, m.db)
	if len(meta) == 0 {
		return nil
	}
	descs, err := parseIndex(meta, m.bsize)
	if err != nil {
		m.fatalf("stored metadata does not parse: %v", err)
	}
	var out []int
	for _, d := range descs {
		out = append(out, int(d.entries))
	}
	return out
}

// boundaries returns model positions which start a block or a restart section.
func (m *c19Machine) boundaries() (blockStarts []int, sectionStarts []int) {
	pos := 0
	for _, e := range m.layout() {
		if pos >= len(m.model) {
			break // descriptor counts disagree with the content; the content checks report it
		}
		blockStarts = append(blockStarts, pos)
		for k := indexBlockRestartLen; k < e && pos+k < len(m.model); k += indexBlockRestartLen {
			sectionStarts = append(sectionStarts, pos+k)
		}
		pos += e
	}
	return
}

func (m *c19Machine) commit(fin func(ethdb.Batch)) {
	batch := m.db.NewBatch()
	fin(batch)
	if rapid.IntRange(0, 5).Draw(m.rt, "finishTwice") == 0 {
		fin(batch) // documented as safe to be called multiple times
	}
	if err := batch.Write(); err != nil {
		m.fatalf("batch write: %v", err)
	}
}

func (m *c19Machine) opAppend() {
	var (
		rt    = m.rt
		limit = m.last()
		note  string
	)
	truncate := len(m.model) > 0 && rapid.IntRange(0, 4).Draw(rt, "truncate") == 0
	if truncate {
		// Recovery after an unclean shutdown: everything above limit is dropped.
		blocks, sections := m.boundaries()
		var cands []uint64
		for _, p := range append(blocks, sections...) {
			for _, q := range []int{p - 2, p - 1, p} {
				if q >= 0 && q < len(m.model) {
					cands = append(cands, m.model[q].id)
				}
			}
		}
		p := m.rng.Intn(len(m.model))
		cands = append(cands, m.model[p].id, m.model[p].id-1, m.model[0].id-1, m.model[0].id, m.last()-1)
		limit = cands[rapid.IntRange(0, len(cands)-1).Draw(rt, "limitIdx")]
		keep := sort.Search(len(m.model), func(i int) bool { return m.model[i].id > limit })
		if keep < len(m.model) {
			m.truncated = true
		}
		note = fmt.Sprintf("trunc(%d->%d)", len(m.model), keep)
		m.model = m.model[:keep]
		m.prevReader = nil
	} else {
		limit += []uint64{0, 0, 0, 1, 1000}[rapid.IntRange(0, 4).Draw(rt, "limitSlack")]
		if limit < m.last() || limit >= c19Ceiling {
			limit = m.last()
		}
	}
	w, err := newIndexWriter(m.db, m.ident, limit, m.bsize)
	if err != nil {
		m.fatalf("newIndexWriter(limit=%d): %v", limit, err)
	}
	cur := limit
	if len(m.model) == 0 && limit == 0 {
		base := []uint64{0, 0, 0, 1, 254, 1 << 32, 1<<56 + 2, 1<<63 + 4}[rapid.IntRange(0, 7).Draw(rt, "base")]
		cur = base
	}
	mode := rapid.SampledFrom([]string{"one", "few", "some", "many", "restart", "restart", "rotate", "rotate"}).Draw(rt, "appendMode")
	extra := rapid.IntRange(0, 2).Draw(rt, "extra")
	target := 0
	switch mode {
	case "one":
		target = 1
	case "few":
		target = 2 + m.rng.Intn(4)
	case "some":
		target = 6 + m.rng.Intn(300)
	case "many":
		target = 300 + m.rng.Intn(3000)
	}
	var (
		count     = 0
		hit       = false
		remaining = extra
		hardCap   = 4500
		rotations = 0
	)
	for {
		id := cur + m.gap(cur)
		ext := m.genExt()
		blocksBefore := len(w.descList)
		if err := w.append(id, append([]uint16(nil), ext...)); err != nil {
			m.fatalf("append(%d) after %d: %v", id, cur, err)
		}
		m.model = append(m.model, c19Elem{id: id, ext: ext})
		cur = id
		count++
		if target > 0 {
			if count >= target {
				break
			}
			continue
		}
		if hit {
			if remaining == 0 {
				break
			}
			remaining--
			continue
		}
		if len(w.descList) > blocksBefore {
			rotations++
		}
		switch mode {
		case "restart":
			// the element just written opened a new restart section
			hit = w.bw.desc.entries%indexBlockRestartLen == 1 && w.bw.desc.entries > 1
		case "rotate":
			hit = len(w.descList) > blocksBefore
		}
		if hit && remaining == 0 {
			break
		}
		// elements too large for a block to reach a second restart section
		if count >= hardCap || (mode == "restart" && rotations >= 2) {
			break
		}
	}
	m.commit(w.finish)
	m.trace = append(m.trace, fmt.Sprintf("A[%s %s+%d n=%d lim=%d]", note, mode, extra, count, limit))

	if m.prevReader != nil && !truncate {
		if err := m.prevReader.refresh(); err != nil {
			m.fatalf("refresh: %v", err)
		}
		m.refreshed = true
		m.checkReader(m.prevReader, "refreshed", 12)
	}
	m.prevReader = nil
}

func (m *c19Machine) opPop() {
	rt := m.rt
	limit := m.last() + []uint64{0, 0, 1}[rapid.IntRange(0, 2).Draw(rt, "popLimitSlack")]
	d, err := newIndexDeleter(m.db, m.ident, limit, m.bsize)
	if err != nil {
		m.fatalf("newIndexDeleter(limit=%d): %v", limit, err)
	}
	lay := m.layout()
	e := lay[len(lay)-1]
	s := (e-1)%indexBlockRestartLen + 1
	cands := []int{1, 1, 2 + m.rng.Intn(4), s - 1, s, s + 1, e - 1, e, e + 1, e + 2, e + indexBlockRestartLen + 1, 1 + m.rng.Intn(700)}
	if len(lay) > 1 {
		cands = append(cands, e+lay[len(lay)-2]-1, e+lay[len(lay)-2], e+lay[len(lay)-2]+1)
	}
	if len(m.model) <= 5000 {
		cands = append(cands, len(m.model), len(m.model)-1)
	}
	n := cands[rapid.IntRange(0, len(cands)-1).Draw(rt, "popCount")]
	if n < 1 {
		n = 1
	}
	if n > len(m.model) {
		n = len(m.model)
	}
	if n > 6000 {
		n = 6000
	}
	blocksBefore := len(d.descList)
	for i := 0; i < n; i++ {
		id := m.last()
		if err := d.pop(id); err != nil {
			m.fatalf("pop(%d) (%d of %d): %v", id, i+1, n, err)
		}
		m.model = m.model[:len(m.model)-1]
	}
	crossed := len(d.descList) < blocksBefore || (n >= e && blocksBefore > 1)
	if crossed {
		m.crossedBlock = true
	}
	m.commit(d.finish)
	m.trace = append(m.trace, fmt.Sprintf("P[n=%d lastblk=%d cross=%v]", n, e, crossed))
	m.prevReader = nil
}

func (m *c19Machine) storedIDs() []uint64 {
	r, err := newIndexReader(m.db, m.ident, m.bsize)
	if err != nil {
		m.fatalf("newIndexReader: %v", err)
	}
	it := r.newIterator(nil)
	var out []uint64
	for it.Next() {
		out = append(out, it.ID())
		if len(out) > len(m.model)+4 {
			break
		}
	}
	if err := it.Error(); err != nil {
		m.fatalf("iteration error: %v", err)
	}
	return out
}

func (m *c19Machine) opPrune() {
	rt := m.rt
	meta := readStateIndex(m.ident, m.db)
	if len(meta) == 0 {
		return
	}
	blocks, _ := m.boundaries()
	var cands []uint64
	for _, p := range blocks[1:] {
		// m.model[p-1] is the maximum of the preceding block
		cands = append(cands, m.model[p-1].id, m.model[p-1].id+1, m.model[p-1].id-1, m.model[p].id)
	}
	p := m.rng.Intn(len(m.model))
	cands = append(cands, m.model[p].id, m.model[p].id+1, 0, 1, m.last(), m.last()+1, math.MaxUint64)
	tail := cands[rapid.IntRange(0, len(cands)-1).Draw(rt, "tailIdx")]

	pr := &indexPruner{}
	batch := m.db.NewBatch()
	n, err := pr.pruneEntry(batch, m.ident, meta, m.bsize, tail)
	if err != nil {
		m.fatalf("pruneEntry(tail=%d): %v", tail, err)
	}
	if err := batch.Write(); err != nil {
		m.fatalf("batch write: %v", err)
	}
	got := m.storedIDs()
	k := len(m.model) - len(got)
	if k < 0 {
		m.fatalf("prune(tail=%d) grew the index: %d -> %d", tail, len(m.model), len(got))
	}
	for i, id := range got {
		if m.model[k+i].id != id {
			m.fatalf("prune(tail=%d): remaining ids are not a suffix of the previous content: pos %d got %d want %d", tail, i, id, m.model[k+i].id)
		}
	}
	if k > 0 && m.model[k-1].id >= tail {
		m.fatalf("prune(tail=%d) removed id %d which is >= tail (removed %d elements, %d blocks)", tail, m.model[k-1].id, k, n)
	}
	if n > 0 {
		m.crossedBlock = true
	}
	m.model = m.model[k:]
	m.trace = append(m.trace, fmt.Sprintf("T[tail=%d blocks=%d removed=%d]", tail, n, k))
	m.prevReader = nil
}

// expectGT returns the model's answer for "least stored id greater than q".
func (m *c19Machine) expectGT(q uint64) (int, bool) {
	p := sort.Search(len(m.model), func(i int) bool { return m.model[i].id > q })
	return p, p < len(m.model)
}

func (m *c19Machine) checkReader(r *indexReader, tag string, nrand int) {
	// full iteration, ids and extension lists
	it := r.newIterator(nil)
	i := 0
	for it.Next() {
		if i >= len(m.model) {
			m.fatalf("[%s] iteration yields extra element %d after %d elements", tag, it.ID(), i)
		}
		if it.ID() != m.model[i].id {
			m.fatalf("[%s] iteration pos %d: got %d want %d", tag, i, it.ID(), m.model[i].id)
		}
		if m.bsize != 0 {
			ext, err := decodeIDs(it.blockIt.ext)
			if err != nil {
				m.fatalf("[%s] stored extension of %d undecodable: %v", tag, it.ID(), err)
			}
			if !c19EqualU16(ext, m.model[i].ext) {
				m.fatalf("[%s] extension of %d changed by the round trip: got %v want %v", tag, it.ID(), ext, m.model[i].ext)
			}
		}
		i++
	}
	if err := it.Error(); err != nil {
		m.fatalf("[%s] iteration error: %v", tag, err)
	}
	if i != len(m.model) {
		m.fatalf("[%s] iteration stopped after %d elements, want %d", tag, i, len(m.model))
	}
	if it.Next() {
		m.fatalf("[%s] Next after exhaustion returned true", tag)
	}

	// point queries
	blocks, sections := m.boundaries()
	isSection := map[int]bool{}
	for _, p := range sections {
		isSection[p] = true
	}
	qs := []uint64{0, 1, math.MaxUint64, math.MaxUint64 - 1}
	addPos := func(p int) {
		if p < 0 || p >= len(m.model) {
			return
		}
		id := m.model[p].id
		qs = append(qs, id-1, id, id+1)
	}
	for _, p := range append(append([]int{}, blocks...), sections...) {
		addPos(p - 1)
		addPos(p)
		addPos(p + 1)
		if len(qs) > 400 {
			break
		}
	}
	addPos(0)
	addPos(len(m.model) - 1)
	for j := 0; j < nrand && len(m.model) > 0; j++ {
		addPos(m.rng.Intn(len(m.model)))
		qs = append(qs, m.rng.Uint64())
	}
	for _, q := range qs {
		p, ok := m.expectGT(q)
		got, err := r.readGreaterThan(q)
		if err != nil {
			m.fatalf("[%s] readGreaterThan(%d): %v", tag, q, err)
		}
		want := uint64(math.MaxUint64)
		if ok {
			want = m.model[p].id
			if isSection[p] {
				m.restartHit = true
			}
		}
		if got != want {
			m.fatalf("[%s] readGreaterThan(%d)=%d want %d (model position %d of %d)", tag, q, got, want, p, len(m.model))
		}
	}

	// one iterator, several seeks followed by Next runs
	sit := r.newIterator(nil)
	for j := 0; j < 6 && len(qs) > 0; j++ {
		q := qs[m.rng.Intn(len(qs))]
		p, ok := m.expectGT(q)
		if found := sit.SeekGT(q); found != ok {
			m.fatalf("[%s] SeekGT(%d)=%v want %v", tag, q, found, ok)
		}
		if err := sit.Error(); err != nil {
			m.fatalf("[%s] SeekGT(%d) error: %v", tag, q, err)
		}
		if !ok {
			continue
		}
		if sit.ID() != m.model[p].id {
			m.fatalf("[%s] SeekGT(%d) positioned at %d want %d", tag, q, sit.ID(), m.model[p].id)
		}
		run := []int{0, 1, 2, 300, len(m.model)}[m.rng.Intn(5)]
		for k := 1; k <= run; k++ {
			more := sit.Next()
			if p+k >= len(m.model) {
				if more {
					m.fatalf("[%s] Next after SeekGT(%d) ran past the end: got %d", tag, q, sit.ID())
				}
				break
			}
			if !more {
				m.fatalf("[%s] Next after SeekGT(%d) stopped early at step %d (err=%v)", tag, q, k, sit.Error())
			}
			if sit.ID() != m.model[p+k].id {
				m.fatalf("[%s] Next #%d after SeekGT(%d): got %d want %d", tag, k, q, sit.ID(), m.model[p+k].id)
			}
		}
	}

	// extension filters: nothing matching may be dropped, nothing foreign yielded
	if m.bsize != 0 {
		filters := []uint16{0, m.extPool[0], uint16(m.rng.Intn(m.maxNode + 1))}
		if len(m.model) > 0 {
			e := m.model[m.rng.Intn(len(m.model))].ext
			x := e[m.rng.Intn(len(e))]
			filters = append(filters, x)
			if x > 0 {
				filters = append(filters, (x-1)/16) // parent in the documented numbering
			}
		}
		for _, f := range filters {
			var q uint64
			seek := m.rng.Intn(2) == 0 && len(m.model) > 0
			if seek {
				q = m.model[m.rng.Intn(len(m.model))].id - uint64(m.rng.Intn(2))
			}
			var want []uint64
			for _, el := range m.model {
				if (!seek || el.id > q) && c19Matches(f, el.ext) {
					want = append(want, el.id)
				}
			}
			flt := extFilter(f)
			fit := r.newIterator(&flt)
			var got []uint64
			ok := false
			if seek {
				ok = fit.SeekGT(q)
			} else {
				ok = fit.Next()
			}
			for ok {
				got = append(got, fit.ID())
				if len(got) > len(m.model) {
					m.fatalf("[%s] filter %d yields more elements than stored", tag, f)
				}
				ok = fit.Next()
			}
			if err := fit.Error(); err != nil {
				m.fatalf("[%s] filter %d iteration error: %v", tag, f, err)
			}
			wi := 0
			var prev uint64
			for gi, id := range got {
				if gi > 0 && id <= prev {
					m.fatalf("[%s] filter %d: ids not ascending: %d after %d", tag, f, id, prev)
				}
				prev = id
				if seek && id <= q {
					m.fatalf("[%s] filter %d SeekGT(%d) yielded %d", tag, f, q, id)
				}
				if p, ok := m.expectGT(id - 1); !ok || m.model[p].id != id {
					m.fatalf("[%s] filter %d yielded id %d which is not stored", tag, f, id)
				}
				if wi < len(want) && want[wi] == id {
					wi++
				} else if wi < len(want) && want[wi] < id {
					m.fatalf("[%s] filter %d (seek=%v q=%d) dropped matching element %d", tag, f, seek, q, want[wi])
				}
			}
			if wi < len(want) {
				m.fatalf("[%s] filter %d (seek=%v q=%d) dropped matching element %d (yielded %d of %d)", tag, f, seek, q, want[wi], len(got), len(want))
			}
		}
	}
}

func c19EqualU16(a, b []uint16) bool {
	if len(a) != len(b) {
		return false
	}
	for i := range a {
		if a[i] != b[i] {
			return false
		}
	}
	return true
}

// checkEncoding re-parses and re-encodes the stored metadata and blocks.
func (m *c19Machine) checkEncoding() {
	meta := readStateIndex(m.ident, m.db)
	if len(meta) == 0 {
		if len(m.model) != 0 {
			m.fatalf("metadata missing although %d elements are stored", len(m.model))
		}
		return
	}
	descs, err := parseIndex(meta, m.bsize)
	if err != nil {
		m.fatalf("stored metadata does not parse: %v", err)
	}
	var re []byte
	for _, d := range descs {
		re = append(re, d.encode()...)
	}
	if !bytes.Equal(re, meta) {
		m.fatalf("metadata not byte-stable under parse/encode")
	}
	if len(descs) > 1 {
		m.multiBlock = true
	}
	for i, d := range descs {
		if i < len(descs)-2 && m.rng.Intn(4) != 0 {
			continue // always the last two blocks, a sample of the others
		}
		blob := readStateIndexBlock(m.ident, m.db, d.id)
		bw, err := newBlockWriter(bytes.Clone(blob), d.copy(), math.MaxUint64, m.bsize != 0)
		if err != nil {
			m.fatalf("stored block %d does not parse: %v", d.id, err)
		}
		if out := bw.finish(); !bytes.Equal(out, blob) {
			m.fatalf("block %d not byte-stable under parse/encode", d.id)
		}
		if bw.desc.max != d.max || bw.desc.entries != d.entries {
			m.fatalf("block %d descriptor changed by reopening", d.id)
		}
	}
}

func (m *c19Machine) verify() {
	r, err := newIndexReader(m.db, m.ident, m.bsize)
	if err != nil {
		m.fatalf("newIndexReader: %v", err)
	}
	m.checkReader(r, "fresh", 16)
	m.checkEncoding()
	if len(m.model) > m.maxLen {
		m.maxLen = len(m.model)
	}
	// keep a reader around to exercise refresh() across an append-only step
	m.prevReader, err = newIndexReader(m.db, m.ident, m.bsize)
	if err != nil {
		m.fatalf("newIndexReader: %v", err)
	}
	// populate its block reader cache (first and last block)
	m.prevReader.readGreaterThan(0)
	if len(m.model) > 0 {
		m.prevReader.readGreaterThan(m.last() - 1)
	}
}

func TestVerifC19Machine(t *testing.T) {
	st := vs.New("C19", t)
	vs.Check(t, 1, func(rt *rapid.T) {
		c := st.Case()
		m := c19NewMachine(rt)
		maxSteps := 10
		if vs.Thorough() {
			maxSteps = 16
		}
		steps := rapid.IntRange(2, maxSteps).Draw(rt, "steps")
		for i := 0; i < steps; i++ {
			op := rapid.SampledFrom([]string{"append", "append", "append", "pop", "pop", "prune"}).Draw(rt, "op")
			if len(m.model) == 0 {
				op = "append"
			} else if len(m.model) > m.sizeCap && op == "append" {
				op = "pop"
			}
			switch op {
			case "append":
				m.opAppend()
			case "pop":
				m.opPop()
			case "prune":
				m.opPrune()
			}
			m.verify()
		}
		nt := m.crossedBlock || m.restartHit
		c.NonTrivial(nt, strings.Join(m.trace, " ")+fmt.Sprint(m.ident.typ, m.bsize, m.gapCls))
		c.Classf("bitmap=%d", m.bsize)
		c.Classf("gap=%s", c19GapNames[m.gapCls])
		if m.crossedBlock {
			c.Class("pop/prune crossed block")
		}
		if m.restartHit {
			c.Class("query hit restart")
		}
		if m.multiBlock {
			c.Class("multi-block")
		}
		if m.truncated {
			c.Class("recovery truncation")
		}
		if m.refreshed {
			c.Class("reader refresh")
		}
		switch {
		case m.maxLen < 256:
			c.Class("size<256")
		case m.maxLen < 4096:
			c.Class("size<4096")
		default:
			c.Class("size>=4096")
		}
		c.Sample(nt, func() any {
			return map[string]any{"ident": m.ident.typ.String(), "bitmap": m.bsize, "gap": c19GapNames[m.gapCls], "ops": m.trace, "final_len": len(m.model)}
		})
	})
}

// TestVerifC19Bitmap checks the block-level pre-filter in isolation: for any set of
// extension ids recorded into a block bitmap, every filter that matches one of the
// ids (itself or a descendant) must be reported as possibly present, so that a
// block holding a matching element is never skipped.
func TestVerifC19Bitmap(t *testing.T) {
	st := vs.New("C19", t)
	vs.Check(t, 3, func(rt *rapid.T) {
		c := st.Case()
		bsize := rapid.SampledFrom([]int{bitmapBytesTwoLevels, bitmapBytesThreeLevels}).Draw(rt, "bitmap")
		maxNode := 16
		if bsize == bitmapBytesThreeLevels {
			maxNode = 272
		}
		ids := rapid.SliceOfN(rapid.Uint16Range(0, uint16(maxNode)), 1, 6).Draw(rt, "ids")
		bw, _ := newBlockWriter(nil, newIndexBlockDesc(0, bsize), 0, true)
		bw.setBitmap(ids)
		matched := 0
		for f := 0; f <= maxNode; f++ {
			flt := extFilter(f)
			got, err := flt.contains(bw.desc.extBitmap)
			if err != nil {
				rt.Fatalf("contains(filter=%d, bitmap=%d bytes): %v", f, bsize, err)
			}
			if c19Matches(uint16(f), ids) {
				matched++
				if !got {
					rt.Fatalf("bitmap built from %v reports filter %d as absent: a block holding a matching element would be skipped", ids, f)
				}
			}
		}
		deep := false
		for _, id := range ids {
			deep = deep || id > 16
		}
		c.Classf("bitmap=%d deep=%v", bsize, deep)
		c.NonTrivial(true, fmt.Sprintf("bm/%d/%v", bsize, ids))
		c.Sample(deep, func() any { return map[string]any{"bitmap": bsize, "ids": ids, "matching_filters": matched} })
	})
}

// ---------------------------------------------------------------------------
// Corrupted bytes

// c19RefParseBlock is the structural validity predicate of an index block written
// from the format description above parseIndexBlock: at least one restart, the
// restart table fits, restart offsets strictly increasing and inside the data.
func c19RefParseBlock(blob []byte) (ok bool, restarts []uint16, dataEnd int) {
	if len(blob) == 0 {
		return false, nil, 0
	}
	n := int(blob[len(blob)-1])
	if n == 0 || len(blob) < 2*n+1 {
		return false, nil, 0
	}
	dataEnd = len(blob) - 2*n - 1
	for i := 0; i < n; i++ {
		r := binary.BigEndian.Uint16(blob[dataEnd+2*i:])
		if int(r) >= dataEnd {
			return false, nil, 0
		}
		if i > 0 && r <= restarts[i-1] {
			return false, nil, 0
		}
		restarts = append(restarts, r)
	}
	return true, restarts, dataEnd
}

type c19Fataler interface {
	Fatalf(string, ...any)
}

// c19NoPanic runs fn and reports a panic as a failure.
func c19NoPanic(t c19Fataler, what string, blob []byte, fn func()) {
	defer func() {
		if r := recover(); r != nil {
			t.Fatalf("panic in %s on corrupted bytes %x: %v", what, blob, r)
		}
	}()
	fn()
}

// c19ExtLenOverflow is an independent walk over the element chains a reader can
// follow (from offset 0 and from every restart offset): it reports whether one of
// them meets an extension length field >= 2^63. That is the trigger of the
// suspected defect in blockIterator.resolveExt (notes/C19.md).
func c19ExtLenOverflow(blob []byte) bool {
	ok, restarts, dataEnd := c19RefParseBlock(blob)
	if !ok {
		return false
	}
	data := blob[:dataEnd]
	starts := append([]uint16{0}, restarts...)
	seen := make(map[int]bool)
	for _, r := range starts {
		pos := int(r)
		for pos < len(data) && !seen[pos] {
			seen[pos] = true
			_, n := binary.Uvarint(data[pos:])
			if n <= 0 {
				break
			}
			pos += n
			l, ln := binary.Uvarint(data[pos:])
			if ln <= 0 {
				break
			}
			if l >= 1<<63 {
				return true
			}
			if uint64(len(data)-pos-ln) < l {
				break
			}
			pos += ln + int(l)
		}
	}
	return false
}

// c19CheckBlockBytes evaluates the corruption oracle on one candidate block.
// traverseExt=false skips driving the extension-aware reader over the bytes.
func c19CheckBlockBytes(t c19Fataler, blob []byte, hasExt bool, traverseExt bool) (accepted bool) {
	refOK, refRestarts, refEnd := c19RefParseBlock(blob)
	var (
		restarts []uint16
		data     []byte
		err      error
	)
	c19NoPanic(t, "parseIndexBlock", blob, func() { restarts, data, err = parseIndexBlock(bytes.Clone(blob)) })
	if !refOK && err == nil {
		t.Fatalf("parseIndexBlock accepted a structurally invalid block %x", blob)
	}
	if err == nil {
		if !c19EqualU16(restarts, refRestarts) || len(data) != refEnd || !bytes.Equal(data, blob[:refEnd]) {
			t.Fatalf("parseIndexBlock(%x): restarts %v data %x, reference restarts %v dataEnd %d", blob, restarts, data, refRestarts, refEnd)
		}
	}
	var br *blockReader
	c19NoPanic(t, "newBlockReader", blob, func() { br, err = newBlockReader(bytes.Clone(blob), hasExt) })
	if !refOK && err == nil {
		t.Fatalf("newBlockReader accepted a structurally invalid block %x", blob)
	}
	if err != nil || br == nil {
		return false
	}
	if hasExt && !traverseExt {
		return true
	}
	c19NoPanic(t, fmt.Sprintf("block traversal (hasExt=%v)", hasExt), blob, func() {
		it := br.newIterator(nil)
		for n := 0; it.Next() && n <= len(blob)+2; n++ {
		}
		for _, q := range []uint64{0, 1, 255, 1 << 20, math.MaxUint64 - 1, math.MaxUint64} {
			br.readGreaterThan(q)
			it := br.newIterator(nil)
			if it.SeekGT(q) {
				q2 := it.ID()
				for n := 0; it.Next() && n < 4; n++ {
				}
				it.SeekGT(q2)
			}
		}
		if hasExt {
			f := extFilter(1)
			fit := br.newIterator(&f)
			for n := 0; fit.Next() && n <= len(blob)+2; n++ {
			}
		}
	})
	return true
}

// c19RefParseMeta is the validity predicate of index metadata: non-empty, whole
// descriptors, no empty block, consecutive block ids (geth only compares ids when
// the preceding id is non-zero; the predicate mirrors that so that it never
// demands more than the code documents).
func c19RefParseMeta(blob []byte, bsize int) bool {
	size := indexBlockDescSize + bsize
	if len(blob) == 0 || len(blob)%size != 0 {
		return false
	}
	var last uint32
	for i := 0; i < len(blob)/size; i++ {
		d := blob[i*size : (i+1)*size]
		if binary.BigEndian.Uint16(d[8:10]) == 0 {
			return false
		}
		id := binary.BigEndian.Uint32(d[10:14])
		if last != 0 && last+1 != id {
			return false
		}
		last = id
	}
	return true
}

func c19CheckMetaBytes(t c19Fataler, blob []byte, bsize int) {
	refOK := c19RefParseMeta(blob, bsize)
	var (
		descs []*indexBlockDesc
		err   error
	)
	c19NoPanic(t, "parseIndex", blob, func() { descs, err = parseIndex(bytes.Clone(blob), bsize) })
	if !refOK && err == nil {
		t.Fatalf("parseIndex(bitmap=%d) accepted structurally invalid metadata %x", bsize, blob)
	}
	if err == nil {
		var re []byte
		for _, d := range descs {
			re = append(re, d.encode()...)
		}
		if !bytes.Equal(re, blob) {
			t.Fatalf("parseIndex(%x) does not re-encode to its input: %x", blob, re)
		}
	}
}

func c19Uvarint(v uint64) []byte { return binary.AppendUvarint(nil, v) }

// c19BuildBlock writes a valid block with the package's writer and returns the
// offsets of the extension length fields (for targeted corruption).
func c19BuildBlock(rng *rand.Rand, n int, bsize int, hugeIDs bool) (blob []byte, ids []uint64, extLenOffsets []int) {
	desc := newIndexBlockDesc(0, bsize)
	bw, _ := newBlockWriter(nil, desc, 0, bsize != 0)
	maxNode := 16
	if bsize == bitmapBytesThreeLevels {
		maxNode = 272
	}
	cur := uint64(0)
	if hugeIDs {
		cur = 1 << 62
	}
	for i := 0; i < n; i++ {
		if hugeIDs {
			cur += 1 + uint64(rng.Int63n(1<<50))
		} else {
			cur += 1 + uint64(rng.Intn(300))
		}
		var ext []uint16
		if bsize != 0 {
			k := 1 + rng.Intn(5)
			for j := 0; j < k; j++ {
				ext = append(ext, uint16(rng.Intn(maxNode+1)))
			}
		}
		before := len(bw.data)
		if bw.estimateFull(ext) {
			break
		}
		if err := bw.append(cur, ext); err != nil {
			panic(err)
		}
		ids = append(ids, cur)
		if bsize != 0 {
			_, w := binary.Uvarint(bw.data[before:])
			extLenOffsets = append(extLenOffsets, before+w)
		}
	}
	return bytes.Clone(bw.finish()), ids, extLenOffsets
}

const c19KnownExtLen = "ext-length-overflow"

func TestVerifC19Corrupt(t *testing.T) {
	st := vs.New("C19", t)
	skipExtLen := vs.Known("TestVerifC19Corrupt", c19KnownExtLen)
	vs.Check(t, 25, func(rt *rapid.T) {
		c := st.Case()
		rng := rand.New(rand.NewSource(int64(rapid.Uint64().Draw(rt, "prng"))))
		bsize := rapid.SampledFrom([]int{0, 0, bitmapBytesTwoLevels, bitmapBytesThreeLevels}).Draw(rt, "bitmap")
		n := rapid.SampledFrom([]int{1, 2, 5, 40, 255, 256, 257, 600}).Draw(rt, "n")
		blob, ids, extOffs := c19BuildBlock(rng, n, bsize, rapid.Bool().Draw(rt, "hugeIDs"))
		orig := bytes.Clone(blob)
		refOK, restarts, dataEnd := c19RefParseBlock(blob)
		if !refOK {
			rt.Fatalf("VERIF-HARNESS-BUG: writer output rejected by the reference predicate: %x", blob)
		}
		classes := []string{"valid", "flip", "flip", "truncate", "extend", "restart-count", "restart-offset", "restart-offset", "delta-wrap", "varint-cut", "random", "meta"}
		if bsize != 0 {
			classes = append(classes, "ext-len", "ext-len")
		}
		class := rapid.SampledFrom(classes).Draw(rt, "mutation")
		traverseExt := true
		switch class {
		case "valid":
		case "flip":
			for k := 1 + rng.Intn(3); k > 0; k-- {
				blob[rng.Intn(len(blob))] ^= 1 << uint(rng.Intn(8))
			}
		case "truncate":
			blob = blob[:rng.Intn(len(blob))]
		case "extend":
			for k := 1 + rng.Intn(5); k > 0; k-- {
				blob = append(blob, byte(rng.Intn(256)))
			}
		case "restart-count":
			cur := int(blob[len(blob)-1])
			blob[len(blob)-1] = byte([]int{0, cur + 1, cur - 1, 255, cur * 2}[rng.Intn(5)])
		case "restart-offset":
			i := rng.Intn(len(restarts))
			var prev uint16
			if i > 0 {
				prev = restarts[i-1]
			}
			v := []uint16{prev, prev - 1, uint16(dataEnd), uint16(dataEnd + 1), 0xffff, 0, uint16(dataEnd - 1), restarts[i] + 1}[rng.Intn(8)]
			binary.BigEndian.PutUint16(blob[dataEnd+2*i:], v)
		case "delta-wrap":
			// replace the tail of the data by an element whose delta wraps around 2^64
			cut := rng.Intn(dataEnd + 1)
			data := append(bytes.Clone(blob[:cut]), c19Uvarint(math.MaxUint64-uint64(rng.Intn(3)))...)
			if bsize != 0 {
				data = append(data, 1, 0)
			}
			blob = c19Reassemble(data, restarts, cut)
		case "varint-cut":
			// the data section ends inside a varint
			blob[dataEnd-1] |= 0x80
		case "ext-len":
			off := extOffs[rng.Intn(len(extOffs))]
			_, w := binary.Uvarint(blob[off:dataEnd])
			hostile := [][]byte{c19Uvarint(uint64(dataEnd)), c19Uvarint(1 << 31), c19Uvarint(1<<32 + 1), c19Uvarint(1<<63 - 1)}
			overflow := [][]byte{c19Uvarint(1 << 63), c19Uvarint(math.MaxUint64), c19Uvarint(math.MaxUint64 - uint64(dataEnd))}
			pick := rng.Intn(len(hostile) + len(overflow))
			var repl []byte
			if pick < len(hostile) {
				repl = hostile[pick]
			} else {
				repl = overflow[pick-len(hostile)]
			}
			data := append(append(bytes.Clone(blob[:off]), repl...), blob[off+w:dataEnd]...)
			// restart offsets behind the edit shift; rebuild them
			shift := len(repl) - w
			rs := make([]uint16, len(restarts))
			for i, r := range restarts {
				rs[i] = r
				if int(r) > off {
					rs[i] = uint16(int(r) + shift)
				}
			}
			blob = c19Reassemble(data, rs, len(data)+1)
		case "random":
			blob = make([]byte, rng.Intn(48))
			rng.Read(blob)
			if len(blob) > 0 && rng.Intn(2) == 0 {
				blob[len(blob)-1] = byte(1 + rng.Intn(3))
			}
		case "meta":
			c19CorruptMeta(rt, c, rng, bsize)
		}
		c.Class("mut:" + class)
		if class != "meta" && bsize != 0 && c19ExtLenOverflow(blob) {
			c.Class(c19KnownExtLen)
			if skipExtLen {
				st.Excluded()
				traverseExt = false
			}
		}
		if class != "meta" {
			c.Fault()
			accepted := c19CheckBlockBytes(rt, blob, bsize != 0, traverseExt)
			if class == "valid" {
				if !accepted {
					rt.Fatalf("valid block rejected: %x", blob)
				}
				br, _ := newBlockReader(blob, bsize != 0)
				it := br.newIterator(nil)
				for i := 0; i < len(ids); i++ {
					if !it.Next() || it.ID() != ids[i] {
						rt.Fatalf("valid block iteration pos %d: got %d want %d", i, it.ID(), ids[i])
					}
				}
			}
			if accepted {
				c.Class("accepted-by-parser")
			} else {
				c.Class("rejected-by-parser")
			}
			// the same bytes behind the index reader
			c19CheckIndexLevel(rt, blob, bsize, traverseExt)
		}
		changed := !bytes.Equal(blob, orig)
		c.NonTrivial(changed || class == "meta", fmt.Sprintf("%s/%d/%x", class, bsize, blob))
		c.Sample(changed, func() any {
			b := blob
			if len(b) > 48 {
				b = b[len(b)-48:]
			}
			return map[string]any{"mutation": class, "bitmap": bsize, "elements": len(ids), "block_tail_hex": fmt.Sprintf("%x", b), "len": len(blob)}
		})
	})
}

// c19Reassemble appends the restart table to data, keeping only restarts below cut.
func c19Reassemble(data []byte, restarts []uint16, cut int) []byte {
	var kept []uint16
	for _, r := range restarts {
		if int(r) < cut || len(kept) == 0 {
			kept = append(kept, r)
		}
	}
	out := bytes.Clone(data)
	for _, r := range kept {
		out = binary.BigEndian.AppendUint16(out, r)
	}
	return append(out, byte(len(kept)))
}

func c19CorruptMeta(rt *rapid.T, c *vs.Case, rng *rand.Rand, bsize int) {
	nd := 1 + rng.Intn(5)
	first := uint32([]int{0, 1, 7}[rng.Intn(3)])
	var meta []byte
	max := uint64(0)
	for i := 0; i < nd; i++ {
		d := newIndexBlockDesc(first+uint32(i), bsize)
		max += 1 + uint64(rng.Intn(5000))
		d.max = max
		d.entries = uint16(1 + rng.Intn(4000))
		for j := range d.extBitmap {
			d.extBitmap[j] = byte(rng.Intn(256))
		}
		meta = append(meta, d.encode()...)
	}
	size := indexBlockDescSize + bsize
	kind := rng.Intn(6)
	switch kind {
	case 0: // valid
	case 1:
		meta = meta[:rng.Intn(len(meta))]
	case 2:
		meta = append(meta, byte(rng.Intn(256)))
	case 3:
		i := rng.Intn(nd)
		binary.BigEndian.PutUint16(meta[i*size+8:], 0)
	case 4:
		i := rng.Intn(nd)
		binary.BigEndian.PutUint32(meta[i*size+10:], uint32(rng.Intn(12)))
	case 5:
		for k := 1 + rng.Intn(3); k > 0; k-- {
			meta[rng.Intn(len(meta))] ^= 1 << uint(rng.Intn(8))
		}
	}
	c.Fault()
	c19CheckMetaBytes(rt, meta, bsize)
	if kind == 0 {
		if _, err := parseIndex(meta, bsize); err != nil {
			rt.Fatalf("valid metadata rejected: %v", err)
		}
	}
}

// c19CheckIndexLevel stores the candidate block as the only block of an index and
// drives the index reader over it: errors are fine, panics are not.
func c19CheckIndexLevel(t c19Fataler, blob []byte, bsize int, traverseExt bool) {
	if bsize != 0 && !traverseExt {
		return
	}
	db := rawdb.NewMemoryDatabase()
	var ident stateIdent
	switch bsize {
	case 0:
		ident = newAccountIdent(common.Hash{0xa})
	case bitmapBytesTwoLevels:
		ident = newTrienodeIdent(common.Hash{}, string([]byte{5}))
	default:
		ident = newTrienodeIdent(common.Hash{0xa}, "")
	}
	desc := newIndexBlockDesc(0, bsize)
	desc.max = math.MaxUint64 - 1
	desc.entries = 1
	for j := range desc.extBitmap {
		desc.extBitmap[j] = 0xff
	}
	writeStateIndex(ident, db, desc.encode())
	if len(blob) > 0 {
		writeStateIndexBlock(ident, db, 0, blob)
	}
	c19NoPanic(t, "index reader traversal", blob, func() {
		r, err := newIndexReader(db, ident, bsize)
		if err != nil {
			return
		}
		r.readGreaterThan(0)
		r.readGreaterThan(1 << 40)
		it := r.newIterator(nil)
		for n := 0; it.Next() && n <= len(blob)+2; n++ {
		}
		if bsize != 0 {
			f := extFilter(2)
			fit := r.newIterator(&f)
			if fit.SeekGT(0) {
				for n := 0; fit.Next() && n <= len(blob)+2; n++ {
				}
			}
		}
	})
}

// FuzzVerifC19Parse feeds coverage-guided bytes to the parsers and readers.
func FuzzVerifC19Parse(f *testing.F) {
	rng := rand.New(rand.NewSource(19))
	for _, bs := range []int{0, bitmapBytesTwoLevels, bitmapBytesThreeLevels} {
		for _, n := range []int{1, 3, 300} {
			blob, _, _ := c19BuildBlock(rng, n, bs, n == 3)
			f.Add(byte(bs), blob)
		}
	}
	f.Add(byte(0), []byte{})
	f.Add(byte(2), []byte{1, 1, 0, 0, 0, 1})
	skipExtLen := vs.Known("TestVerifC19Corrupt", c19KnownExtLen)
	f.Fuzz(func(t *testing.T, sel byte, data []byte) {
		bsize := []int{0, bitmapBytesTwoLevels, bitmapBytesThreeLevels}[int(sel)%3]
		if len(data) > 8192 {
			data = data[:8192]
		}
		traverseExt := !(skipExtLen && c19ExtLenOverflow(data))
		c19CheckBlockBytes(t, data, false, true)
		c19CheckBlockBytes(t, data, true, traverseExt)
		c19CheckMetaBytes(t, data, bsize)
		c19CheckIndexLevel(t, data, bsize, traverseExt)
	})
}
