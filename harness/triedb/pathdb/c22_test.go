//go:build verif

package pathdb

// C22 (pathdb part): flat-state iterators enumerate exactly the live entries.
//
// A linear stack of 0..12 transitions is pushed through Database.Update with a
// drawn maxDiffLayers / write-buffer size / optional full commit, so that the
// bottom of the stack lives on disk, in the disk layer's write buffer or in diff
// layers. For every live root, the merged (fast) iterators of the public API and
// the white-box binary iterators are compared, for several seek positions, with
// the model state of that root (pdbWorld) and with the leaves of the state /
// storage trie at that root. Finally iterators opened on the head are continued
// after the stack below them has been flattened.

import (
	"bytes"
	"fmt"
	"math/big"
	"strings"
	"testing"

	"github.com/ethereum/go-ethereum/common"
	"github.com/ethereum/go-ethereum/core/rawdb"
	"github.com/ethereum/go-ethereum/trie"
	"pgregory.net/rapid"
	vs "verif.local/kit/stat"
)

type c22Entry struct {
	Hash common.Hash
	Val  []byte
}

func c22Expect(keys []common.Hash, val func(common.Hash) []byte, seek common.Hash) []c22Entry {
	var out []c22Entry
	for _, k := range keys { // keys are sorted
		if bytes.Compare(k[:], seek[:]) >= 0 {
			out = append(out, c22Entry{k, val(k)})
		}
	}
	return out
}

// c22Drain consumes an iterator completely (at most limit elements).
func c22Drain(it Iterator, value func() []byte, limit int) (out []c22Entry, err error) {
	for len(out) < limit && it.Next() {
		out = append(out, c22Entry{it.Hash(), common.CopyBytes(value())})
	}
	return out, it.Error()
}

func c22Render(es []c22Entry) string {
	var sb strings.Builder
	for _, e := range es {
		fmt.Fprintf(&sb, " %x=%x", e.Hash[:3], e.Val)
	}
	return sb.String()
}

// c22Compare reports a difference between an iterated sequence and the expectation.
func c22Compare(got, want []c22Entry) string {
	for i := 1; i < len(got); i++ {
		if bytes.Compare(got[i-1].Hash[:], got[i].Hash[:]) >= 0 {
			return fmt.Sprintf("not strictly ascending at position %d", i)
		}
	}
	if len(got) != len(want) {
		return fmt.Sprintf("yielded %d entries, expected %d", len(got), len(want))
	}
	for i := range got {
		if got[i].Hash != want[i].Hash {
			return fmt.Sprintf("entry %d has hash %x, expected %x", i, got[i].Hash, want[i].Hash)
		}
		if !bytes.Equal(got[i].Val, want[i].Val) {
			return fmt.Sprintf("entry %d (%x) has value %x, expected %x", i, got[i].Hash, got[i].Val, want[i].Val)
		}
	}
	return ""
}

func c22HashAdd(h common.Hash, d int64) common.Hash {
	v := new(big.Int).SetBytes(h[:])
	v.Add(v, big.NewInt(d))
	if v.Sign() < 0 {
		return common.Hash{}
	}
	if v.BitLen() > 256 {
		return common.MaxHash
	}
	return common.BigToHash(v)
}

type c22Env struct {
	t     *rapid.T
	db    *Database
	w     *pdbWorld
	chain []*pdbTransition // transitions applied so far (linear)
	trace []string
	// statistics
	iterators, seeksOnTombstone, midflightOK, midflightErr int
}

func (e *c22Env) fail(format string, a ...any) {
	e.t.Fatalf("%s\nhistory:\n  %s", fmt.Sprintf(format, a...), strings.Join(e.trace, "\n  "))
}

func (e *c22Env) binaryAccount(root, seek common.Hash) AccountIterator {
	switch l := e.db.tree.get(root).(type) {
	case *diffLayer:
		return l.newBinaryAccountIterator(seek)
	case *diskLayer:
		return l.newBinaryAccountIterator(seek)
	}
	e.fail("VERIF-HARNESS-BUG: root %x is not in the layer tree", root)
	return nil
}

func (e *c22Env) binaryStorage(root, account, seek common.Hash) StorageIterator {
	switch l := e.db.tree.get(root).(type) {
	case *diffLayer:
		return l.newBinaryStorageIterator(account, seek)
	case *diskLayer:
		return l.newBinaryStorageIterator(account, seek)
	}
	e.fail("VERIF-HARNESS-BUG: root %x is not in the layer tree", root)
	return nil
}

// seeks returns the seek positions for a sorted key list: zero, max, every key and
// its neighbours for a drawn subset, plus the tombstones/absent keys given.
func (e *c22Env) seeks(keys []common.Hash, extra []common.Hash, label string) []common.Hash {
	out := []common.Hash{{}}
	cands := []common.Hash{common.MaxHash}
	for _, k := range keys {
		cands = append(cands, k, c22HashAdd(k, 1), c22HashAdd(k, -1))
	}
	cands = append(cands, extra...)
	n := 3
	if vs.Thorough() {
		n = 6
	}
	for i := 0; i < n && len(cands) > 0; i++ {
		j := rapid.IntRange(0, len(cands)-1).Draw(e.t, label)
		out = append(out, cands[j])
		cands = append(cands[:j], cands[j+1:]...)
	}
	return out
}

// c22Layer is the flat-state content of one physical layer (a diff layer or the
// disk layer's write buffer), read white-box for the statistics only.
type c22Layer struct {
	accounts map[common.Hash][]byte
	storages map[common.Hash]map[common.Hash][]byte
}

// stack returns the physical layers below root, bottom (write buffer) first.
func (e *c22Env) stack(root common.Hash) []c22Layer {
	var out []c22Layer
	for l := e.db.tree.get(root); l != nil; l = l.parentLayer() {
		switch l := l.(type) {
		case *diffLayer:
			out = append([]c22Layer{{l.states.accountData, l.states.storageData}}, out...)
		case *diskLayer:
			out = append([]c22Layer{{l.buffer.states.accountData, l.buffer.states.storageData}}, out...)
		}
	}
	return out
}

// accountTombstones returns the account hashes that carry a nil entry in some
// physical layer below root and are absent at root.
func (e *c22Env) accountTombstones(root common.Hash) []common.Hash {
	st := e.w.State(root)
	seen := map[common.Hash]bool{}
	var out []common.Hash
	for _, l := range e.stack(root) {
		for a, blob := range l.accounts {
			if len(blob) == 0 && st.Accts[a] == nil && !seen[a] {
				seen[a] = true
				out = append(out, a)
			}
		}
	}
	return pdbSortHashes(out)
}

func (e *c22Env) slotTombstones(root, account common.Hash) []common.Hash {
	st := e.w.State(root)
	seen := map[common.Hash]bool{}
	var out []common.Hash
	for _, l := range e.stack(root) {
		for s, blob := range l.storages[account] {
			if len(blob) == 0 && st.SlotBlob(account, s) == nil && !seen[s] {
				seen[s] = true
				out = append(out, s)
			}
		}
	}
	return pdbSortHashes(out)
}

// recreatedAbove reports whether some key is deleted in one physical layer below
// root and written again in a layer above it (account or slot).
func (e *c22Env) recreatedAbove(root common.Hash) bool {
	deletedA := map[common.Hash]bool{}
	deletedS := map[[2]common.Hash]bool{}
	for _, l := range e.stack(root) {
		for a, blob := range l.accounts {
			if len(blob) != 0 && deletedA[a] {
				return true
			}
		}
		for a, slots := range l.storages {
			for s, blob := range slots {
				if len(blob) != 0 && deletedS[[2]common.Hash{a, s}] {
					return true
				}
			}
		}
		for a, blob := range l.accounts {
			if len(blob) == 0 {
				deletedA[a] = true
			}
		}
		for a, slots := range l.storages {
			for s, blob := range slots {
				if len(blob) == 0 {
					deletedS[[2]common.Hash{a, s}] = true
				}
			}
		}
	}
	return false
}

// checkRoot verifies all iterator kinds at one live root.
func (e *c22Env) checkRoot(root common.Hash) {
	st := e.w.State(root)
	accounts := st.SortedAccounts()
	tombs := e.accountTombstones(root)
	isTomb := map[common.Hash]bool{}
	for _, h := range tombs {
		isTomb[h] = true
	}
	for _, seek := range e.seeks(accounts, append(tombs, pdbAbsentAccount.Hash), "accountSeek") {
		if isTomb[seek] {
			e.seeksOnTombstone++
		}
		want := c22Expect(accounts, st.AccountBlob, seek)
		fast, err := e.db.AccountIterator(root, seek)
		if err != nil {
			e.fail("AccountIterator(%x, %x): %v", root, seek, err)
		}
		got, ierr := c22Drain(fast, fast.Account, 1000)
		fast.Release()
		if ierr != nil {
			e.fail("fast account iterator at %x seek %x failed: %v", root, seek, ierr)
		}
		if d := c22Compare(got, want); d != "" {
			e.fail("fast account iterator at root %x seek %x: %s\n got:%s\nwant:%s", root, seek, d, c22Render(got), c22Render(want))
		}
		bin := e.binaryAccount(root, seek)
		gotB, berr := c22Drain(bin, bin.Account, 1000)
		bin.Release()
		if berr != nil {
			e.fail("binary account iterator at %x seek %x failed: %v", root, seek, berr)
		}
		if d := c22Compare(gotB, want); d != "" {
			e.fail("binary account iterator at root %x seek %x: %s\n got:%s\nwant:%s", root, seek, d, c22Render(gotB), c22Render(want))
		}
		// the state trie at this root, iterated from the same position
		tr, err := trie.New(trie.StateTrieID(root), e.db)
		if err != nil {
			e.fail("open state trie %x: %v", root, err)
		}
		nit, err := tr.NodeIterator(seek[:])
		if err != nil {
			e.fail("state trie iterator %x: %v", root, err)
		}
		var leaves []c22Entry
		for tit := trie.NewIterator(nit); tit.Next(); {
			leaves = append(leaves, c22Entry{common.BytesToHash(tit.Key), common.CopyBytes(tit.Value)})
		}
		wantFull := c22Expect(accounts, func(h common.Hash) []byte { return st.Accts[h].Full }, seek)
		if d := c22Compare(leaves, wantFull); d != "" {
			e.fail("state trie leaves at root %x from %x: %s", root, seek, d)
		}
		e.iterators += 3
	}
	// storage iterators: every pool account (existing or not) and one that never existed
	owners := []common.Hash{pdbAbsentAccount.Hash}
	for _, a := range pdbAddrs {
		owners = append(owners, a.Hash)
	}
	for _, owner := range owners {
		slots := st.SortedSlots(owner)
		stombs := e.slotTombstones(root, owner)
		if len(slots) == 0 && len(stombs) == 0 && rapid.IntRange(0, 3).Draw(e.t, "skipEmptyOwner") != 0 {
			continue
		}
		isTomb := map[common.Hash]bool{}
		for _, h := range stombs {
			isTomb[h] = true
		}
		sseeks := e.seeks(slots, append(stombs, pdbAbsentSlot.Hash), "slotSeek")
		if len(sseeks) > 3 {
			sseeks = sseeks[:3]
		}
		for _, seek := range sseeks {
			if isTomb[seek] {
				e.seeksOnTombstone++
			}
			want := c22Expect(slots, func(h common.Hash) []byte { return st.SlotBlob(owner, h) }, seek)
			fast, err := e.db.StorageIterator(root, owner, seek)
			if err != nil {
				e.fail("StorageIterator(%x, %x, %x): %v", root, owner, seek, err)
			}
			got, ierr := c22Drain(fast, fast.Slot, 1000)
			fast.Release()
			if ierr != nil {
				e.fail("fast storage iterator at %x/%x seek %x failed: %v", root, owner, seek, ierr)
			}
			if d := c22Compare(got, want); d != "" {
				e.fail("fast storage iterator at root %x account %x seek %x: %s\n got:%s\nwant:%s", root, owner, seek, d, c22Render(got), c22Render(want))
			}
			bin := e.binaryStorage(root, owner, seek)
			gotB, berr := c22Drain(bin, bin.Slot, 1000)
			bin.Release()
			if berr != nil {
				e.fail("binary storage iterator at %x/%x seek %x failed: %v", root, owner, seek, berr)
			}
			if d := c22Compare(gotB, want); d != "" {
				e.fail("binary storage iterator at root %x account %x seek %x: %s\n got:%s\nwant:%s", root, owner, seek, d, c22Render(gotB), c22Render(want))
			}
			e.iterators += 2
			if acc := st.Accts[owner]; acc != nil {
				tr, err := trie.New(trie.StorageTrieID(root, owner, acc.StorageRoot), e.db)
				if err != nil {
					e.fail("open storage trie %x/%x: %v", root, owner, err)
				}
				nit, err := tr.NodeIterator(seek[:])
				if err != nil {
					e.fail("storage trie iterator %x/%x: %v", root, owner, err)
				}
				var leaves []c22Entry
				for tit := trie.NewIterator(nit); tit.Next(); {
					leaves = append(leaves, c22Entry{common.BytesToHash(tit.Key), common.CopyBytes(tit.Value)})
				}
				if d := c22Compare(leaves, want); d != "" {
					e.fail("storage trie leaves at root %x account %x from %x: %s", root, owner, seek, d)
				}
				e.iterators++
			}
		}
	}
}

func (e *c22Env) push(parent common.Hash, raw bool) *pdbTransition {
	ops := pdbDrawOps(e.t, e.w.State(parent), rapid.IntRange(2, 6).Draw(e.t, "nops"))
	tr := e.w.Transition(parent, ops, e.w.NextSeq(), raw)
	if err := e.db.Update(tr.Root, tr.Parent, uint64(len(e.chain)), tr.Nodes, tr.States); err != nil {
		e.fail("Update(%x<-%x): %v", tr.Root, tr.Parent, err)
	}
	e.chain = append(e.chain, tr)
	e.trace = append(e.trace, fmt.Sprintf("update %x<-%x %v", tr.Root[:4], tr.Parent[:4], ops))
	return tr
}

func TestVerifC22Pathdb(t *testing.T) {
	st := vs.New("C22", t)
	defer func(old int) { maxDiffLayers = old }(maxDiffLayers)
	vs.Check(t, 1, func(rt *rapid.T) {
		c := st.Case()
		maxDiffLayers = rapid.SampledFrom([]int{1, 2, 4, 8, 128, 128, 128}).Draw(rt, "maxDiffLayers")
		bufSize := rapid.SampledFrom([]int{0, 64 * 1024}).Draw(rt, "writeBuffer")
		noAsync := rapid.Bool().Draw(rt, "noAsyncFlush")
		layers := rapid.IntRange(0, 12).Draw(rt, "layers")
		commitAt := rapid.IntRange(-6, layers).Draw(rt, "commitAt") // <= 0: no commit
		raw := rapid.Bool().Draw(rt, "rawKeys")
		disk := rawdb.NewMemoryDatabase()
		db := New(disk, &Config{WriteBufferSize: bufSize, NoAsyncFlush: noAsync, NoAsyncGeneration: true,
			TrieCleanSize: 64 * 1024, StateCleanSize: 64 * 1024, TrienodeHistory: -1}, false)
		defer func() {
			db.Close()
			disk.Close()
		}()
		e := &c22Env{t: rt, db: db, w: newPdbWorld()}
		head := e.w.Roots()[0]
		for i := 1; i <= layers; i++ {
			head = e.push(head, raw).Root
			if i == commitAt {
				if err := db.Commit(head, false); err != nil {
					e.fail("Commit(%x): %v", head, err)
				}
				e.trace = append(e.trace, fmt.Sprintf("commit %x", head[:4]))
			}
		}
		// every live root of the (linear) stack
		var live []common.Hash
		for _, r := range e.w.Roots() {
			if db.tree.get(r) != nil {
				live = append(live, r)
			}
		}
		recreated := false
		for _, r := range live {
			e.checkRoot(r)
			recreated = recreated || e.recreatedAbove(r)
		}
		dl := db.tree.bottom()
		diskOnly := len(live) == 1
		buffered := !dl.buffer.empty()

		// iterators kept open while the stack below them is flattened
		if layers > 0 {
			hst := e.w.State(head)
			accounts := hst.SortedAccounts()
			fast, err := db.AccountIterator(head, common.Hash{})
			if err != nil {
				e.fail("AccountIterator(%x): %v", head, err)
			}
			bin := e.binaryAccount(head, common.Hash{})
			k := rapid.IntRange(0, len(accounts)).Draw(rt, "consumeBefore")
			gotF, _ := c22Drain(fast, fast.Account, k)
			gotB, _ := c22Drain(bin, bin.Account, k)
			extra := rapid.IntRange(1, 4).Draw(rt, "extraLayers")
			top := head
			for i := 0; i < extra; i++ {
				top = e.push(top, raw).Root
			}
			if rapid.Bool().Draw(rt, "commitAfter") {
				if err := db.Commit(top, false); err != nil {
					e.fail("Commit(%x): %v", top, err)
				}
				e.trace = append(e.trace, fmt.Sprintf("commit %x (iterators on %x open)", top[:4], head[:4]))
			}
			want := c22Expect(accounts, hst.AccountBlob, common.Hash{})
			for _, it := range []struct {
				name string
				it   AccountIterator
				got  []c22Entry
			}{{"fast", fast, gotF}, {"binary", bin, gotB}} {
				name := it.name
				rest, ierr := c22Drain(it.it, it.it.Account, 1000)
				it.it.Release()
				all := append(append([]c22Entry{}, it.got...), rest...)
				if ierr != nil {
					// an error ends the iteration; what was delivered before must be a correct prefix
					e.midflightErr++
					if len(all) > len(want) || c22Compare(all, want[:len(all)]) != "" {
						e.fail("%s account iterator on %x failed (%v) after delivering a wrong prefix\n got:%s\nwant:%s", name, head, ierr, c22Render(all), c22Render(want))
					}
					continue
				}
				e.midflightOK++
				if d := c22Compare(all, want); d != "" {
					e.fail("%s account iterator on %x continued after flattening without error but %s\n got:%s\nwant:%s", name, head, d, c22Render(all), c22Render(want))
				}
			}
		}

		nt := recreated || e.seeksOnTombstone > 0
		c.NonTrivial(nt, strings.Join(e.trace, ";"))
		switch {
		case diskOnly:
			c.Class("stack=disk-only")
		case buffered:
			c.Class("stack=diffs+buffer+disk")
		default:
			c.Class("stack=diffs+disk")
		}
		c.Classf("layers=%d", len(live)-1)
		if recreated {
			c.Class("deleted-then-recreated-above")
		}
		if e.seeksOnTombstone > 0 {
			c.Class("seek-on-tombstone")
		}
		if e.midflightErr > 0 {
			c.Class("midflight-error")
		}
		if e.midflightOK > 0 {
			c.Class("midflight-continued")
		}
		c.Sample(nt, func() any {
			return map[string]any{"maxDiffLayers": maxDiffLayers, "writeBuffer": bufSize, "layers": layers, "commitAt": commitAt,
				"live_roots": len(live), "iterators_checked": e.iterators, "seeks_on_tombstone": e.seeksOnTombstone, "steps": e.trace}
		})
	})
}
