//go:build verif

package pathdb

// C22 (pathdb part): flat-state iterators enumerate exactly the live entries.
//
// A linear stack of 0..12 transitions is pushed through Database.Update with a
// drawn maxDiffLayers / write-buffer size / optional full commit, so that the
// bottom of the stack lives on disk, in the disk layer's write buffer or in diff
// layers. For every live root, the merged (fast) iterators of the public API and
// the white-box binary iterators are compared, for several seek positions, with
// the model state of that root (pdbWorld) and with the leaves of the state /
// storage trie at that root. Finally iterators opened on the head are continued
// after the stack below them has been flattened.
//
// Iteration is interleaved with the mutations: between successive Update / cap /
// Commit steps on the same database a drawn live root is iterated (accounts and
// storage, fast and binary), so that the sorted key lists cached by one iteration
// meet later merges into the unflushed write buffer (w4-iter; seeded C22-A).
//
// TestVerifC22FlushWindow owns the schedule "iterator created while the frozen
// write buffer is still being flushed in the background": the key-value store
// handed to pathdb is wrapped so that the flush's batch.Write is held back until a
// database iterator is opened (bounded), no source hook (seeded C22-B).

import (
	"bytes"
	"fmt"
	"math/big"
	"strings"
	"sync"
	"testing"
	"time"

	"github.com/ethereum/go-ethereum/common"
	"github.com/ethereum/go-ethereum/core/rawdb"
	"github.com/ethereum/go-ethereum/ethdb"
	"github.com/ethereum/go-ethereum/trie"
	"pgregory.net/rapid"
	vs "verif.local/kit/stat"
)

type c22Entry struct {
	Hash common.Hash
	Val  []byte
}

func c22Expect(keys []common.Hash, val func(common.Hash) []byte, seek common.Hash) []c22Entry {
	var out []c22Entry
	for _, k := range keys { // keys are sorted
		if bytes.Compare(k[:], seek[:]) >= 0 {
			out = append(out, c22Entry{k, val(k)})
		}
	}
	return out
}

// c22Drain consumes an iterator completely (at most limit elements).
func c22Drain(it Iterator, value func() []byte, limit int) (out []c22Entry, err error) {
	for len(out) < limit && it.Next() {
		out = append(out, c22Entry{it.Hash(), common.CopyBytes(value())})
	}
	return out, it.Error()
}

func c22Render(es []c22Entry) string {
	var sb strings.Builder
	for _, e := range es {
		fmt.Fprintf(&sb, " %x=%x", e.Hash[:3], e.Val)
	}
	return sb.String()
}

// c22Compare reports a difference between an iterated sequence and the expectation.
func c22Compare(got, want []c22Entry) string {
	for i := 1; i < len(got); i++ {
		if bytes.Compare(got[i-1].Hash[:], got[i].Hash[:]) >= 0 {
			return fmt.Sprintf("not strictly ascending at position %d", i)
		}
	}
	if len(got) != len(want) {
		return fmt.Sprintf("yielded %d entries, expected %d", len(got), len(want))
	}
	for i := range got {
		if got[i].Hash != want[i].Hash {
			return fmt.Sprintf("entry %d has hash %x, expected %x", i, got[i].Hash, want[i].Hash)
		}
		if !bytes.Equal(got[i].Val, want[i].Val) {
			return fmt.Sprintf("entry %d (%x) has value %x, expected %x", i, got[i].Hash, got[i].Val, want[i].Val)
		}
	}
	return ""
}

func c22HashAdd(h common.Hash, d int64) common.Hash {
	v := new(big.Int).SetBytes(h[:])
	v.Add(v, big.NewInt(d))
	if v.Sign() < 0 {
		return common.Hash{}
	}
	if v.BitLen() > 256 {
		return common.MaxHash
	}
	return common.BigToHash(v)
}

type c22Env struct {
	t     *rapid.T
	db    *Database
	w     *pdbWorld
	chain []*pdbTransition // transitions applied so far (linear)
	trace []string
	// statistics
	iterators, seeksOnTombstone, midflightOK, midflightErr int
	// write-buffer merges observed white-box (statistics only, see observeMerge)
	bufferMerges, mergesWithCachedList int
	slotOnlyExtensions, acctExtensions int // merges that extended a cached storage / account key list
	pendingSlotExt, pendingAcctExt     bool
	iterAfterSlotExt, iterAfterAcctExt int
	betweenChecks                      int
}

func (e *c22Env) fail(format string, a ...any) {
	e.t.Fatalf("%s\nhistory:\n  %s", fmt.Sprintf(format, a...), strings.Join(e.trace, "\n  "))
}

func (e *c22Env) binaryAccount(root, seek common.Hash) AccountIterator {
	switch l := e.db.tree.get(root).(type) {
	case *diffLayer:
		return l.newBinaryAccountIterator(seek)
	case *diskLayer:
		return l.newBinaryAccountIterator(seek)
	}
	e.fail("VERIF-HARNESS-BUG: root %x is not in the layer tree", root)
	return nil
}

func (e *c22Env) binaryStorage(root, account, seek common.Hash) StorageIterator {
	switch l := e.db.tree.get(root).(type) {
	case *diffLayer:
		return l.newBinaryStorageIterator(account, seek)
	case *diskLayer:
		return l.newBinaryStorageIterator(account, seek)
	}
	e.fail("VERIF-HARNESS-BUG: root %x is not in the layer tree", root)
	return nil
}

// seeks returns the seek positions for a sorted key list: zero, max, every key and
// its neighbours for a drawn subset, plus the tombstones/absent keys given.
func (e *c22Env) seeks(keys []common.Hash, extra []common.Hash, label string) []common.Hash {
	out := []common.Hash{{}}
	cands := []common.Hash{common.MaxHash}
	for _, k := range keys {
		cands = append(cands, k, c22HashAdd(k, 1), c22HashAdd(k, -1))
	}
	cands = append(cands, extra...)
	n := 3
	if vs.Thorough() {
		n = 6
	}
	for i := 0; i < n && len(cands) > 0; i++ {
		j := rapid.IntRange(0, len(cands)-1).Draw(e.t, label)
		out = append(out, cands[j])
		cands = append(cands[:j], cands[j+1:]...)
	}
	return out
}

// c22Layer is the flat-state content of one physical layer (a diff layer or the
// disk layer's write buffer), read white-box for the statistics only.
type c22Layer struct {
	accounts map[common.Hash][]byte
	storages map[common.Hash]map[common.Hash][]byte
}

// stack returns the physical layers below root, bottom (write buffer) first.
func (e *c22Env) stack(root common.Hash) []c22Layer {
	var out []c22Layer
	for l := e.db.tree.get(root); l != nil; l = l.parentLayer() {
		switch l := l.(type) {
		case *diffLayer:
			out = append([]c22Layer{{l.states.accountData, l.states.storageData}}, out...)
		case *diskLayer:
			out = append([]c22Layer{{l.buffer.states.accountData, l.buffer.states.storageData}}, out...)
		}
	}
	return out
}

// accountTombstones returns the account hashes that carry a nil entry in some
// physical layer below root and are absent at root.
func (e *c22Env) accountTombstones(root common.Hash) []common.Hash {
	st := e.w.State(root)
	seen := map[common.Hash]bool{}
	var out []common.Hash
	for _, l := range e.stack(root) {
		for a, blob := range l.accounts {
			if len(blob) == 0 && st.Accts[a] == nil && !seen[a] {
				seen[a] = true
				out = append(out, a)
			}
		}
	}
	return pdbSortHashes(out)
}

func (e *c22Env) slotTombstones(root, account common.Hash) []common.Hash {
	st := e.w.State(root)
	seen := map[common.Hash]bool{}
	var out []common.Hash
	for _, l := range e.stack(root) {
		for s, blob := range l.storages[account] {
			if len(blob) == 0 && st.SlotBlob(account, s) == nil && !seen[s] {
				seen[s] = true
				out = append(out, s)
			}
		}
	}
	return pdbSortHashes(out)
}

// recreatedAbove reports whether some key is deleted in one physical layer below
// root and written again in a layer above it (account or slot).
func (e *c22Env) recreatedAbove(root common.Hash) bool {
	deletedA := map[common.Hash]bool{}
	deletedS := map[[2]common.Hash]bool{}
	for _, l := range e.stack(root) {
		for a, blob := range l.accounts {
			if len(blob) != 0 && deletedA[a] {
				return true
			}
		}
		for a, slots := range l.storages {
			for s, blob := range slots {
				if len(blob) != 0 && deletedS[[2]common.Hash{a, s}] {
					return true
				}
			}
		}
		for a, blob := range l.accounts {
			if len(blob) == 0 {
				deletedA[a] = true
			}
		}
		for a, slots := range l.storages {
			for s, blob := range slots {
				if len(blob) == 0 {
					deletedS[[2]common.Hash{a, s}] = true
				}
			}
		}
	}
	return false
}

// accountIter checks one account iterator (fast = public API, otherwise the
// white-box binary iterator) at root from seek against the model.
func (e *c22Env) accountIter(root, seek common.Hash, fast bool) {
	st := e.w.State(root)
	want := c22Expect(st.SortedAccounts(), st.AccountBlob, seek)
	var (
		it   AccountIterator
		name = "binary"
	)
	if fast {
		name = "fast"
		f, err := e.db.AccountIterator(root, seek)
		if err != nil {
			e.fail("AccountIterator(%x, %x): %v", root, seek, err)
		}
		it = f
	} else {
		it = e.binaryAccount(root, seek)
	}
	got, ierr := c22Drain(it, it.Account, 1000)
	it.Release()
	if ierr != nil {
		e.fail("%s account iterator at %x seek %x failed: %v", name, root, seek, ierr)
	}
	if d := c22Compare(got, want); d != "" {
		e.fail("%s account iterator at root %x seek %x: %s\n got:%s\nwant:%s", name, root, seek, d, c22Render(got), c22Render(want))
	}
	e.iterators++
}

// storageIter is accountIter for the storage of one account.
func (e *c22Env) storageIter(root, owner, seek common.Hash, fast bool) {
	st := e.w.State(root)
	want := c22Expect(st.SortedSlots(owner), func(h common.Hash) []byte { return st.SlotBlob(owner, h) }, seek)
	var (
		it   StorageIterator
		name = "binary"
	)
	if fast {
		name = "fast"
		f, err := e.db.StorageIterator(root, owner, seek)
		if err != nil {
			e.fail("StorageIterator(%x, %x, %x): %v", root, owner, seek, err)
		}
		it = f
	} else {
		it = e.binaryStorage(root, owner, seek)
	}
	got, ierr := c22Drain(it, it.Slot, 1000)
	it.Release()
	if ierr != nil {
		e.fail("%s storage iterator at %x/%x seek %x failed: %v", name, root, owner, seek, ierr)
	}
	if d := c22Compare(got, want); d != "" {
		e.fail("%s storage iterator at root %x account %x seek %x: %s\n got:%s\nwant:%s", name, root, owner, seek, d, c22Render(got), c22Render(want))
	}
	e.iterators++
}

// trieLeaves compares the leaves of the state trie (owner zero) or of a storage
// trie at root, from seek, with the model.
func (e *c22Env) trieLeaves(root, owner, seek common.Hash) {
	st := e.w.State(root)
	var (
		id   *trie.ID
		want []c22Entry
	)
	if owner == (common.Hash{}) {
		id = trie.StateTrieID(root)
		want = c22Expect(st.SortedAccounts(), func(h common.Hash) []byte { return st.Accts[h].Full }, seek)
	} else {
		id = trie.StorageTrieID(root, owner, st.Accts[owner].StorageRoot)
		want = c22Expect(st.SortedSlots(owner), func(h common.Hash) []byte { return st.SlotBlob(owner, h) }, seek)
	}
	tr, err := trie.New(id, e.db)
	if err != nil {
		e.fail("open trie %x/%x: %v", root, owner, err)
	}
	nit, err := tr.NodeIterator(seek[:])
	if err != nil {
		e.fail("trie iterator %x/%x: %v", root, owner, err)
	}
	var leaves []c22Entry
	for tit := trie.NewIterator(nit); tit.Next(); {
		leaves = append(leaves, c22Entry{common.BytesToHash(tit.Key), common.CopyBytes(tit.Value)})
	}
	if d := c22Compare(leaves, want); d != "" {
		e.fail("trie leaves at root %x owner %x from %x: %s", root, owner, seek, d)
	}
	e.iterators++
}

// checkRoot verifies all iterator kinds at one live root. The light variant (used
// between the mutation steps) draws fewer seek positions and skips the tries.
func (e *c22Env) checkRoot(root common.Hash, full bool) {
	st := e.w.State(root)
	accounts := st.SortedAccounts()
	tombs := e.accountTombstones(root)
	isTomb := map[common.Hash]bool{}
	for _, h := range tombs {
		isTomb[h] = true
	}
	aseeks := e.seeks(accounts, append(tombs, pdbAbsentAccount.Hash), "accountSeek")
	if !full {
		aseeks = aseeks[:2] // seeks() always yields zero and at least max
	}
	for _, seek := range aseeks {
		if isTomb[seek] {
			e.seeksOnTombstone++
		}
		e.accountIter(root, seek, true)
		e.accountIter(root, seek, false)
		if full {
			e.trieLeaves(root, common.Hash{}, seek)
		}
	}
	// storage iterators: every pool account (existing or not) and one that never existed
	owners := []common.Hash{pdbAbsentAccount.Hash}
	for _, a := range pdbAddrs {
		owners = append(owners, a.Hash)
	}
	for _, owner := range owners {
		slots := st.SortedSlots(owner)
		stombs := e.slotTombstones(root, owner)
		if len(slots) == 0 && len(stombs) == 0 && rapid.IntRange(0, 3).Draw(e.t, "skipEmptyOwner") != 0 {
			continue
		}
		isTomb := map[common.Hash]bool{}
		for _, h := range stombs {
			isTomb[h] = true
		}
		sseeks := e.seeks(slots, append(stombs, pdbAbsentSlot.Hash), "slotSeek")
		if n := map[bool]int{true: 3, false: 2}[full]; len(sseeks) > n {
			sseeks = sseeks[:n]
		}
		for _, seek := range sseeks {
			if isTomb[seek] {
				e.seeksOnTombstone++
			}
			e.storageIter(root, owner, seek, true)
			e.storageIter(root, owner, seek, false)
			if full && st.Accts[owner] != nil {
				e.trieLeaves(root, owner, seek)
			}
		}
	}
}

// liveRoots returns the model roots still present in the layer tree, oldest first.
func (e *c22Env) liveRoots() []common.Hash {
	var live []common.Hash
	for _, r := range e.w.Roots() {
		if e.db.tree.get(r) != nil {
			live = append(live, r)
		}
	}
	return live
}

// between iterates one drawn live root (biased to the head) between two mutation
// steps: whatever this iteration caches inside the layers meets the next merge.
func (e *c22Env) between(head common.Hash) {
	live := e.liveRoots()
	root := head
	if i := rapid.IntRange(0, 2*len(live)).Draw(e.t, "iterRoot"); i < len(live) {
		root = live[i]
	}
	e.trace = append(e.trace, fmt.Sprintf("iterate %x", root[:4]))
	if !e.db.tree.bottom().buffer.empty() {
		if e.pendingSlotExt {
			e.iterAfterSlotExt++
		}
		if e.pendingAcctExt {
			e.iterAfterAcctExt++
		}
	}
	e.betweenChecks++
	e.checkRoot(root, false)
}

// c22BufSnap is the key set of the disk layer's write buffer and which of its
// sorted key lists are cached, taken white-box before a mutation step.
type c22BufSnap struct {
	buf        *buffer
	layers     uint64
	accounts   map[common.Hash]bool
	slots      map[common.Hash]map[common.Hash]bool
	acctCached bool
	cached     map[common.Hash]bool // owners with a cached storage key list
}

func (e *c22Env) snapBuffer() c22BufSnap {
	b := e.db.tree.bottom().buffer
	s := c22BufSnap{buf: b, layers: b.layers, accounts: map[common.Hash]bool{}, slots: map[common.Hash]map[common.Hash]bool{}, cached: map[common.Hash]bool{}}
	for a := range b.states.accountData {
		s.accounts[a] = true
	}
	for a, m := range b.states.storageData {
		s.slots[a] = map[common.Hash]bool{}
		for k := range m {
			s.slots[a][k] = true
		}
	}
	b.states.listLock.RLock()
	s.acctCached = b.states.accountListSorted != nil
	for a, l := range b.states.storageListSorted {
		if l != nil {
			s.cached[a] = true
		}
	}
	b.states.listLock.RUnlock()
	return s
}

// observeMerge classifies (statistics only) what a mutation step did to the write
// buffer: merged into the unflushed buffer or flushed; if merged, whether a key list
// cached by an earlier iteration was extended, and whether by new slots only (no new
// account key, no new storage set). Several layers merged in one step are judged as
// one merge.
func (e *c22Env) observeMerge(before c22BufSnap) {
	b := e.db.tree.bottom().buffer
	if b != before.buf || b.layers < before.layers {
		e.pendingSlotExt, e.pendingAcctExt = false, false // flushed (or reverted)
		return
	}
	if b.layers == before.layers {
		return
	}
	e.bufferMerges++
	if before.acctCached || len(before.cached) > 0 {
		e.mergesWithCachedList++
	}
	newAcct, newSet, newSlotCached := false, false, false
	for a := range b.states.accountData {
		if !before.accounts[a] {
			newAcct = true
		}
	}
	for a, m := range b.states.storageData {
		if before.slots[a] == nil {
			newSet = true
			continue
		}
		for k := range m {
			if !before.slots[a][k] && before.cached[a] {
				newSlotCached = true
			}
		}
	}
	if newAcct && before.acctCached {
		e.acctExtensions++
		e.pendingAcctExt = true
	}
	if newSlotCached {
		e.pendingSlotExt = true
		if !newAcct && !newSet {
			e.slotOnlyExtensions++
		}
	}
}

func (e *c22Env) push(parent common.Hash, raw bool) *pdbTransition {
	ops := pdbDrawOps(e.t, e.w.State(parent), rapid.IntRange(2, 6).Draw(e.t, "nops"))
	tr := e.w.Transition(parent, ops, e.w.NextSeq(), raw)
	before := e.snapBuffer()
	if err := e.db.Update(tr.Root, tr.Parent, uint64(len(e.chain)), tr.Nodes, tr.States); err != nil {
		e.fail("Update(%x<-%x): %v", tr.Root, tr.Parent, err)
	}
	e.chain = append(e.chain, tr)
	e.trace = append(e.trace, fmt.Sprintf("update %x<-%x %v", tr.Root[:4], tr.Parent[:4], ops))
	e.observeMerge(before)
	return tr
}

func (e *c22Env) commit(head common.Hash, note string) {
	before := e.snapBuffer()
	if err := e.db.Commit(head, false); err != nil {
		e.fail("Commit(%x): %v", head, err)
	}
	e.trace = append(e.trace, fmt.Sprintf("commit %x%s", head[:4], note))
	e.observeMerge(before)
}

// capTo flattens the stack below head down to `layers` diff layers, exactly as
// Database.Update does with maxDiffLayers = layers (white-box: tree.cap under the
// database lock). Several bottom layers may be merged in one step.
func (e *c22Env) capTo(head common.Hash, layers int) {
	if _, ok := e.db.tree.get(head).(*diffLayer); !ok {
		return
	}
	before := e.snapBuffer()
	e.db.lock.Lock()
	err := e.db.tree.cap(head, layers)
	e.db.lock.Unlock()
	if err != nil {
		e.fail("cap(%x, %d): %v", head, layers, err)
	}
	e.trace = append(e.trace, fmt.Sprintf("cap %x to %d layers", head[:4], layers))
	e.observeMerge(before)
}

func TestVerifC22Pathdb(t *testing.T) {
	st := vs.New("C22", t)
	defer func(old int) { maxDiffLayers = old }(maxDiffLayers)
	vs.Check(t, 1, func(rt *rapid.T) {
		c := st.Case()
		maxDiffLayers = rapid.SampledFrom([]int{1, 2, 4, 8, 128, 128, 128}).Draw(rt, "maxDiffLayers")
		bufSize := rapid.SampledFrom([]int{0, 64 * 1024, 16 * 1024 * 1024}).Draw(rt, "writeBuffer")
		noAsync := rapid.Bool().Draw(rt, "noAsyncFlush")
		layers := rapid.IntRange(0, 12).Draw(rt, "layers")
		raw := rapid.Bool().Draw(rt, "rawKeys")
		churn := rapid.SampledFrom([]int{0, 0, 1, 2}).Draw(rt, "churn") // explicit Commit / cap steps inside the history
		disk := rawdb.NewMemoryDatabase()
		db := New(disk, &Config{WriteBufferSize: bufSize, NoAsyncFlush: noAsync, NoAsyncGeneration: true,
			TrieCleanSize: 64 * 1024, StateCleanSize: 64 * 1024, TrienodeHistory: -1}, false)
		defer func() {
			db.Close()
			disk.Close()
		}()
		e := &c22Env{t: rt, db: db, w: newPdbWorld()}
		head := e.w.Roots()[0]
		commits, caps := 0, 0
		for i := 1; i <= layers; i++ {
			// a drawn moment between two mutation steps: iterate some live root
			if rapid.IntRange(0, 2).Draw(rt, "iterateBetween") != 0 {
				e.between(head)
			}
			head = e.push(head, raw).Root
			if churn == 0 {
				continue // the stack is shaped by maxDiffLayers alone
			}
			switch k := rapid.IntRange(0, 11).Draw(rt, "afterUpdate"); {
			case k == 0:
				e.commit(head, "")
				commits++
			case k <= 2*churn-1:
				e.capTo(head, rapid.IntRange(1, 4).Draw(rt, "capLayers"))
				caps++
			}
		}
		// every live root of the (linear) stack
		live := e.liveRoots()
		recreated := false
		for _, r := range live {
			e.checkRoot(r, true)
			recreated = recreated || e.recreatedAbove(r)
		}
		dl := db.tree.bottom()
		diskOnly := len(live) == 1
		buffered := !dl.buffer.empty()

		// iterators kept open while the stack below them is flattened
		if layers > 0 {
			hst := e.w.State(head)
			accounts := hst.SortedAccounts()
			fast, err := db.AccountIterator(head, common.Hash{})
			if err != nil {
				e.fail("AccountIterator(%x): %v", head, err)
			}
			bin := e.binaryAccount(head, common.Hash{})
			k := rapid.IntRange(0, len(accounts)).Draw(rt, "consumeBefore")
			gotF, _ := c22Drain(fast, fast.Account, k)
			gotB, _ := c22Drain(bin, bin.Account, k)
			extra := rapid.IntRange(1, 4).Draw(rt, "extraLayers")
			top := head
			for i := 0; i < extra; i++ {
				top = e.push(top, raw).Root
			}
			if rapid.Bool().Draw(rt, "commitAfter") {
				e.commit(top, fmt.Sprintf(" (iterators on %x open)", head[:4]))
			}
			want := c22Expect(accounts, hst.AccountBlob, common.Hash{})
			for _, it := range []struct {
				name string
				it   AccountIterator
				got  []c22Entry
			}{{"fast", fast, gotF}, {"binary", bin, gotB}} {
				name := it.name
				rest, ierr := c22Drain(it.it, it.it.Account, 1000)
				it.it.Release()
				all := append(append([]c22Entry{}, it.got...), rest...)
				if ierr != nil {
					// an error ends the iteration; what was delivered before must be a correct prefix
					e.midflightErr++
					if len(all) > len(want) || c22Compare(all, want[:len(all)]) != "" {
						e.fail("%s account iterator on %x failed (%v) after delivering a wrong prefix\n got:%s\nwant:%s", name, head, ierr, c22Render(all), c22Render(want))
					}
					continue
				}
				e.midflightOK++
				if d := c22Compare(all, want); d != "" {
					e.fail("%s account iterator on %x continued after flattening without error but %s\n got:%s\nwant:%s", name, head, d, c22Render(all), c22Render(want))
				}
			}
			// the full-root pass above cached key lists in every layer; the extra layers
			// merged some of them: iterate once more on top of the result
			e.between(top)
		}

		extended := e.iterAfterSlotExt > 0 || e.iterAfterAcctExt > 0
		nt := recreated || e.seeksOnTombstone > 0 || extended
		c.NonTrivial(nt, strings.Join(e.trace, ";"))
		switch {
		case diskOnly:
			c.Class("stack=disk-only")
		case buffered:
			c.Class("stack=diffs+buffer+disk")
		default:
			c.Class("stack=diffs+disk")
		}
		c.Classf("layers=%d", len(live)-1)
		if recreated {
			c.Class("deleted-then-recreated-above")
		}
		if e.seeksOnTombstone > 0 {
			c.Class("seek-on-tombstone")
		}
		if e.midflightErr > 0 {
			c.Class("midflight-error")
		}
		if e.midflightOK > 0 {
			c.Class("midflight-continued")
		}
		if e.betweenChecks > 1 {
			c.Class("iterated-between-steps")
		}
		if commits > 0 {
			c.Class("commit-in-history")
		}
		if caps > 0 {
			c.Class("explicit-cap")
		}
		if e.bufferMerges > 0 {
			c.Class("buffer-merge")
		}
		if e.mergesWithCachedList > 0 {
			c.Class("buffer-merge-with-cached-key-list")
		}
		if e.slotOnlyExtensions > 0 {
			c.Class("buffer-merge-extends-cached-storage-list-by-slots-only")
		}
		if e.iterAfterSlotExt > 0 {
			c.Class("iterated-after-cached-storage-list-extended")
		}
		if e.iterAfterAcctExt > 0 {
			c.Class("iterated-after-cached-account-list-extended")
		}
		c.Sample(nt, func() any {
			return map[string]any{"maxDiffLayers": maxDiffLayers, "writeBuffer": bufSize, "layers": layers, "commits": commits, "caps": caps,
				"live_roots": len(live), "iterators_checked": e.iterators, "seeks_on_tombstone": e.seeksOnTombstone,
				"between_checks": e.betweenChecks, "buffer_merges": e.bufferMerges, "steps": e.trace}
		})
	})
}

// ---------------------------------------------------------------------------
// Owned schedule: an iterator is created while the frozen buffer is being flushed.
// ---------------------------------------------------------------------------

// c22GateDB wraps the key-value store handed to pathdb. While armed, the next
// batch.Write is held back until somebody opens a database iterator on the store,
// the harness' deadline fires, or 3 s passed (never a deadlock, whatever the tree
// does). It models a slow disk during the background buffer flush. Database
// iterators are point-in-time views, so one opened before the batch landed does
// not see the batch. No source hook.
type c22GateDB struct {
	ethdb.Database
	mu       sync.Mutex
	armed    bool
	open     chan struct{} // closed on release
	by       string        // what released the current/last gate
	held     int           // batch writes held back
	released map[string]int
}

func (d *c22GateDB) arm() {
	d.mu.Lock()
	defer d.mu.Unlock()
	d.armed, d.open, d.by = true, make(chan struct{}), ""
}

func (d *c22GateDB) release(by string) {
	d.mu.Lock()
	defer d.mu.Unlock()
	if d.armed {
		d.armed, d.by = false, by
		close(d.open)
	}
}

// deadline releases the gate after dur unless it was released before (the gate
// generation is identified by its channel).
func (d *c22GateDB) deadline(dur time.Duration) {
	d.mu.Lock()
	ch, armed := d.open, d.armed
	d.mu.Unlock()
	if !armed {
		return
	}
	time.AfterFunc(dur, func() {
		d.mu.Lock()
		same := d.open == ch
		d.mu.Unlock()
		if same {
			d.release("deadline")
		}
	})
}

func (d *c22GateDB) NewIterator(prefix []byte, start []byte) ethdb.Iterator {
	it := d.Database.NewIterator(prefix, start)
	d.release("iterator")
	return it
}

func (d *c22GateDB) NewBatch() ethdb.Batch { return &c22GateBatch{Batch: d.Database.NewBatch(), db: d} }

func (d *c22GateDB) NewBatchWithSize(size int) ethdb.Batch {
	return &c22GateBatch{Batch: d.Database.NewBatchWithSize(size), db: d}
}

type c22GateBatch struct {
	ethdb.Batch
	db *c22GateDB
}

func (b *c22GateBatch) Write() error {
	b.db.mu.Lock()
	ch, armed := b.db.open, b.db.armed
	if armed {
		b.db.held++
	}
	b.db.mu.Unlock()
	if armed {
		select {
		case <-ch:
		case <-time.After(3 * time.Second):
			b.db.release("bound")
		}
		b.db.mu.Lock()
		b.db.released[b.db.by]++
		b.db.mu.Unlock()
	}
	return b.Batch.Write()
}

// TestVerifC22FlushWindow: a short history with a tiny write buffer and the
// default asynchronous flush, so that (nearly) every Update freezes the buffer and
// flushes it in the background. The flush's batch.Write is held back by c22GateDB;
// while it hangs, ONE drawn iterator (fast or binary, account or storage, drawn live
// root and seek) is created and drained: it must yield exactly the model's entries,
// i.e. wait for the flush rather than pin the pre-flush disk state. Then the usual
// light check of that root runs. On the unchanged tree the iterator constructors
// block in waitFlush until the harness' deadline (150 ms after the constructor is
// entered) lets the write through; wall time, not CPU time.
func TestVerifC22FlushWindow(t *testing.T) {
	st := vs.New("C22", t)
	defer func(old int) { maxDiffLayers = old }(maxDiffLayers)
	vs.Check(t, 0.06, func(rt *rapid.T) {
		c := st.Case()
		maxDiffLayers = rapid.SampledFrom([]int{1, 1, 2, 3}).Draw(rt, "maxDiffLayers")
		bufSize := rapid.SampledFrom([]int{0, 0, 1024}).Draw(rt, "writeBuffer")
		raw := rapid.Bool().Draw(rt, "rawKeys")
		gate := &c22GateDB{Database: rawdb.NewMemoryDatabase(), released: map[string]int{}}
		db := New(gate, &Config{WriteBufferSize: bufSize, NoAsyncFlush: false, NoAsyncGeneration: true,
			TrieCleanSize: 64 * 1024, StateCleanSize: 64 * 1024, TrienodeHistory: -1}, false)
		defer func() {
			gate.release("teardown")
			db.Close()
			gate.Database.Close()
		}()
		e := &c22Env{t: rt, db: db, w: newPdbWorld()}
		head := e.w.Roots()[0]
		windows, maxWindows := 0, 2
		if vs.Thorough() {
			maxWindows = 4
		}
		first := map[string]int{}
		frozenTombstone := false
		for i, n := 0, rapid.IntRange(2, 8).Draw(rt, "updates"); i < n; i++ {
			armed := windows < maxWindows
			if armed {
				gate.arm()
			}
			head = e.push(head, raw).Root
			dl := db.tree.bottom()
			if dl.frozen == nil || !armed {
				gate.release("no-flush")
				if rapid.IntRange(0, 3).Draw(rt, "iterateBetween") == 0 {
					e.between(head)
				}
				continue
			}
			// the frozen buffer's flush hangs in batch.Write (or is about to)
			windows++
			live := e.liveRoots()
			root := head
			if j := rapid.IntRange(0, 2*len(live)).Draw(rt, "windowRoot"); j < len(live) {
				root = live[j]
			}
			fst := e.w.State(root)
			// storage owners whose slots sit in the frozen buffer are the interesting ones
			var owners []common.Hash
			for a, m := range dl.frozen.states.storageData {
				owners = append(owners, a)
				for _, v := range m {
					frozenTombstone = frozenTombstone || len(v) == 0
				}
			}
			for _, v := range dl.frozen.states.accountData {
				frozenTombstone = frozenTombstone || len(v) == 0
			}
			if len(owners) == 0 {
				for _, a := range pdbAddrs {
					owners = append(owners, a.Hash)
				}
			}
			pdbSortHashes(owners)
			kind := rapid.SampledFrom([]string{"fast-account", "fast-account", "fast-storage", "fast-storage", "binary-account", "binary-storage"}).Draw(rt, "firstIterator")
			owner := owners[rapid.IntRange(0, len(owners)-1).Draw(rt, "firstOwner")]
			keys := fst.SortedAccounts()
			if strings.HasSuffix(kind, "storage") {
				keys = fst.SortedSlots(owner)
			}
			seek := common.Hash{}
			if len(keys) > 0 && rapid.IntRange(0, 2).Draw(rt, "firstSeekNonZero") == 0 {
				seek = keys[rapid.IntRange(0, len(keys)-1).Draw(rt, "firstSeek")]
			}
			e.trace = append(e.trace, fmt.Sprintf("flush of %x in flight: %s iterator at %x owner %x seek %x", dl.rootHash().Bytes()[:4], kind, root[:4], owner[:4], seek[:4]))
			gate.deadline(150 * time.Millisecond)
			switch kind {
			case "fast-account":
				e.accountIter(root, seek, true)
			case "binary-account":
				e.accountIter(root, seek, false)
			case "fast-storage":
				e.storageIter(root, owner, seek, true)
			default:
				e.storageIter(root, owner, seek, false)
			}
			first[kind]++
			e.checkRoot(root, false)
		}
		gate.mu.Lock()
		held, rel := gate.held, fmt.Sprint(gate.released)
		byIter := gate.released["iterator"]
		gate.mu.Unlock()
		if windows > 0 && held == 0 {
			rt.Fatalf("VERIF-HARNESS-BUG: %d flush windows but no batch write was held back", windows)
		}
		c.NonTrivial(windows > 0, strings.Join(e.trace, ";"))
		c.Classf("flush-windows=%d", windows)
		for k := range first {
			c.Class("window-first=" + k)
		}
		if frozenTombstone {
			c.Class("window-frozen-buffer-holds-tombstone")
		}
		if byIter > 0 {
			c.Class("window-write-released-by-iterator") // a database iterator was opened before the flush landed
		}
		c.Sample(windows > 0, func() any {
			return map[string]any{"maxDiffLayers": maxDiffLayers, "writeBuffer": bufSize, "windows": windows, "held_writes": held, "released_by": rel, "steps": e.trace}
		})
	})
}
