//go:build verif

package pathdb

// pdbWorld - deterministic model world for the pathdb checks (C16 C17 C18 C20 C22).
// Overlay target: triedb/pathdb/zz_verif_pdbworld_test.go.
//
// It replaces the math/rand based tester.generate of database_test.go. All
// randomness comes from rapid draws made by the caller (pdbDrawOps); the world
// itself is a pure function of (parent state, ops, seq).
//
// API (everything is prefixed pdb to stay clear of the package's identifiers):
//
//	pdbAddrs[i] / pdbSlots[j]        fixed pools: address (+keccak) and raw slot key (+keccak).
//	                                 Several pool hashes share 1-2 leading nibbles so that the
//	                                 tries get branch->branch/extension shapes that collapse on deletion.
//	w := newPdbWorld()               world holding only the empty state (types.EmptyRootHash).
//	ops := pdbDrawOps(rt, st, n)     draws n ops against state st (ops are total: an op that does not
//	                                 apply is a no-op, so rapid can shrink freely).
//	tr := w.Transition(parent, ops, seq, raw)
//	                                 applies ops on State(parent); seq != 0 additionally sets the nonce
//	                                 of a dedicated sequencer account to seq (use w.NextSeq() to make
//	                                 every root of a world unique, as account nonces do on a real chain;
//	                                 seq == 0 and no effective op gives tr.Root == tr.Parent, the
//	                                 "empty transition"). Returns *pdbTransition with Root, Parent,
//	                                 Nodes (*trienode.MergedNodeSet, with origins), States
//	                                 (*StateSetWithOrigin, storage origins keyed by hashed or raw slot
//	                                 key according to raw) ready for Database.Update, plus the touched
//	                                 key lists. The child state is registered in the world. Calling
//	                                 Transition again with the same arguments rebuilds fresh, identical
//	                                 sets (Database.Update retains the maps it is given).
//	w.State(root) *pdbState          model flat state at root (nil if unknown): AccountBlob(addrHash) =
//	                                 slim RLP or nil, SlotBlob(addrHash, slotHash) = RLP(value) or nil,
//	                                 SortedAccounts(), SortedSlots(addrHash).
//	w.RefNodes(root) *pdbRefNodes    reference trie node sets (path -> blob) of the account trie and of
//	                                 every non-empty storage trie at root, built by kit/reftrie.
//	w.Roots()                        all known roots in creation order (index 0 = empty root).
//	pdbVerifyReads(db, w, root)      sub-oracle: every account/slot/trie-node read at root through
//	                                 StateReader/NodeReader equals the model ("" = ok, else the difference).
//	w.AllAccountHashes()/AllSlotHashes()  every pool key incl. the sequencer and one never-used key
//	                                 (pdbAbsentAccount / pdbAbsentSlot) for "absent" probes.
//
// The tries are computed with the package's own trie implementation (trie.New /
// Update / Commit) reading the parent's nodes from the *reference* node sets, not
// from the database under test, so the generator works for any parent the model
// knows, whatever the database's condition. Every transition is cross-checked
// against kit/reftrie (root, resulting node set, node origins); a mismatch is a
// generator/trie problem (property C06/C07), reported as VERIF-HARNESS-BUG.

import (
	"bytes"
	"fmt"
	"math/big"
	"sort"

	"github.com/ethereum/go-ethereum/common"
	"github.com/ethereum/go-ethereum/core/types"
	"github.com/ethereum/go-ethereum/trie"
	"github.com/ethereum/go-ethereum/trie/trienode"
	"github.com/ethereum/go-ethereum/triedb/database"
	"pgregory.net/rapid"
	"verif.local/kit/refrlp"
	"verif.local/kit/reftrie"
)

const (
	pdbNumAddrs = 8
	pdbNumSlots = 6
)

type pdbAddr struct {
	Addr common.Address
	Hash common.Hash
}

type pdbSlot struct {
	Key  common.Hash
	Hash common.Hash
}

var (
	pdbAddrs         []pdbAddr // account pool
	pdbSlots         []pdbSlot // slot pool
	pdbSeqAddr       pdbAddr   // sequencer account (nonce = transition sequence number)
	pdbAbsentAccount pdbAddr   // never created
	pdbAbsentSlot    pdbSlot   // never written
	pdbCodeHashes    [][]byte  // index 0 = empty code hash
	pdbAddrByHash    = map[common.Hash]common.Address{}
	pdbSlotByHash    = map[common.Hash]common.Hash{}
)

// pdbPickHashes scans candidates 1,2,3.. and returns indices forming: 3 whose hashes
// share the first byte, 2 more sharing only the first nibble with them, and `rest`
// others with pairwise different first nibbles (also different from the group's).
func pdbPickHashes(hashOf func(i int) common.Hash, rest int) []int {
	byByte := map[byte][]int{}
	var groupByte byte
	found := false
	limit := 0
	for i := 1; i < 100000 && !found; i++ {
		h := hashOf(i)
		byByte[h[0]] = append(byByte[h[0]], i)
		if len(byByte[h[0]]) == 3 {
			groupByte, found, limit = h[0], true, i
		}
	}
	out := append([]int{}, byByte[groupByte]...)
	usedNib := map[byte]bool{groupByte >> 4: true}
	var sameNib, others []int
	for i := 1; len(sameNib) < 2 || len(others) < rest; i++ {
		if i <= limit && hashOf(i)[0] == groupByte {
			continue
		}
		h := hashOf(i)
		if h[0]>>4 == groupByte>>4 && h[0] != groupByte && len(sameNib) < 2 {
			if len(sameNib) == 1 && hashOf(sameNib[0])[0] == h[0] {
				continue
			}
			sameNib = append(sameNib, i)
			continue
		}
		if !usedNib[h[0]>>4] && len(others) < rest {
			usedNib[h[0]>>4] = true
			others = append(others, i)
		}
	}
	out = append(out, sameNib...)
	return append(out, others...)
}

func init() {
	addrOf := func(i int) common.Address { return common.BigToAddress(big.NewInt(int64(i) + 0x1000)) }
	addrHash := func(i int) common.Hash { return common.Hash(reftrie.Keccak256(addrOf(i).Bytes())) }
	// 3 + 2 + 5 : the last two "others" become the sequencer and the absent account
	idx := pdbPickHashes(addrHash, pdbNumAddrs-5+2)
	for k, i := range idx {
		a := pdbAddr{addrOf(i), addrHash(i)}
		pdbAddrByHash[a.Hash] = a.Addr
		switch {
		case k < pdbNumAddrs:
			pdbAddrs = append(pdbAddrs, a)
		case k == pdbNumAddrs:
			pdbSeqAddr = a
		default:
			pdbAbsentAccount = a
		}
	}
	keyOf := func(i int) common.Hash { return common.BigToHash(big.NewInt(int64(i))) }
	keyHash := func(i int) common.Hash { return common.Hash(reftrie.Keccak256(keyOf(i).Bytes())) }
	sidx := pdbPickHashes(keyHash, pdbNumSlots-5+1)
	for k, i := range sidx {
		s := pdbSlot{keyOf(i), keyHash(i)}
		pdbSlotByHash[s.Hash] = s.Key
		if k < pdbNumSlots {
			pdbSlots = append(pdbSlots, s)
		} else {
			pdbAbsentSlot = s
		}
	}
	empty := reftrie.Keccak256(nil)
	c1 := reftrie.Keccak256([]byte("pdb-code-1"))
	c2 := reftrie.Keccak256([]byte("pdb-code-2"))
	pdbCodeHashes = [][]byte{empty[:], c1[:], c2[:]}
}

// pdbValues is the pool of storage values (big-endian, no leading zeroes).
var pdbValues = [][]byte{
	{0x01}, {0x7f}, {0x80}, {0xff, 0xff},
	{0xde, 0xad, 0xbe, 0xef, 0x01, 0x02, 0x03, 0x04},
	bytes.Repeat([]byte{0xff}, 32),
	append([]byte{0x01}, bytes.Repeat([]byte{0x00}, 31)...),
	{0x02},
}

// pdbAcct is one account of the model. Storage maps slot hash -> RLP(value).
type pdbAcct struct {
	Nonce, Balance uint64
	Code           int
	Storage        map[common.Hash][]byte
	StorageRoot    common.Hash // derived
	Slim, Full     []byte      // derived encodings (flat state / account trie value)
}

func (a *pdbAcct) clone() *pdbAcct {
	c := *a
	c.Storage = make(map[common.Hash][]byte, len(a.Storage))
	for k, v := range a.Storage {
		c.Storage[k] = v
	}
	return &c
}

func (a *pdbAcct) encode() {
	root, code := refrlp.S(nil), refrlp.S(nil)
	if a.StorageRoot != common.Hash(reftrie.EmptyRoot) {
		root = refrlp.S(a.StorageRoot[:])
	}
	if a.Code != 0 {
		code = refrlp.S(pdbCodeHashes[a.Code])
	}
	a.Slim = refrlp.Encode(refrlp.L(refrlp.Uint(a.Nonce), refrlp.Uint(a.Balance), root, code))
	a.Full = refrlp.Encode(refrlp.L(refrlp.Uint(a.Nonce), refrlp.Uint(a.Balance), refrlp.S(a.StorageRoot[:]), refrlp.S(pdbCodeHashes[a.Code])))
}

// pdbState is the model state at one root. Immutable once registered.
type pdbState struct {
	Root  common.Hash
	Accts map[common.Hash]*pdbAcct
}

func (s *pdbState) AccountBlob(h common.Hash) []byte {
	if a := s.Accts[h]; a != nil {
		return a.Slim
	}
	return nil
}

func (s *pdbState) SlotBlob(a, slot common.Hash) []byte {
	if acc := s.Accts[a]; acc != nil {
		return acc.Storage[slot]
	}
	return nil
}

func pdbSortHashes(hs []common.Hash) []common.Hash {
	sort.Slice(hs, func(i, j int) bool { return bytes.Compare(hs[i][:], hs[j][:]) < 0 })
	return hs
}

func (s *pdbState) SortedAccounts() []common.Hash {
	out := make([]common.Hash, 0, len(s.Accts))
	for h := range s.Accts {
		out = append(out, h)
	}
	return pdbSortHashes(out)
}

func (s *pdbState) SortedSlots(a common.Hash) []common.Hash {
	acc := s.Accts[a]
	if acc == nil {
		return nil
	}
	out := make([]common.Hash, 0, len(acc.Storage))
	for h := range acc.Storage {
		out = append(out, h)
	}
	return pdbSortHashes(out)
}

// pdbRefNodes are the reference node sets of one state.
type pdbRefNodes struct {
	Account map[string][]byte
	Storage map[common.Hash]map[string][]byte // only accounts with non-empty storage
}

func (r *pdbRefNodes) set(owner common.Hash) map[string][]byte {
	if owner == (common.Hash{}) {
		return r.Account
	}
	return r.Storage[owner]
}

// op kinds
const (
	pdbOpCreate = iota
	pdbOpModify
	pdbOpSetSlot
	pdbOpDelSlot
	pdbOpDestruct
	pdbOpKinds
)

var pdbOpNames = [...]string{"create", "modify", "set", "del", "destruct"}

// pdbOp is one state mutation. A = account pool index, S = slot pool index, V = value selector.
type pdbOp struct {
	Kind, A, S, V int
}

func (o pdbOp) String() string { return fmt.Sprintf("%s(a%d,s%d,v%d)", pdbOpNames[o.Kind], o.A, o.S, o.V) }

// pdbDrawOps draws n ops biased to be effective against st. A "recreate" pattern
// (destruct followed by create and slot writes of the same account inside one
// transition) is produced with a fixed share.
func pdbDrawOps(rt *rapid.T, st *pdbState, n int) []pdbOp {
	exists := map[int]bool{}
	slots := map[[2]int]bool{}
	for i, a := range pdbAddrs {
		if acc := st.Accts[a.Hash]; acc != nil {
			exists[i] = true
			for j, s := range pdbSlots {
				if _, ok := acc.Storage[s.Hash]; ok {
					slots[[2]int{i, j}] = true
				}
			}
		}
	}
	pick := func(want bool, label string) int {
		var c []int
		for i := range pdbAddrs {
			if exists[i] == want {
				c = append(c, i)
			}
		}
		if len(c) == 0 || rapid.IntRange(0, 9).Draw(rt, label+"-any") == 0 {
			return rapid.IntRange(0, pdbNumAddrs-1).Draw(rt, label)
		}
		return c[rapid.IntRange(0, len(c)-1).Draw(rt, label)]
	}
	var ops []pdbOp
	apply := func(o pdbOp) {
		ops = append(ops, o)
		switch o.Kind {
		case pdbOpCreate:
			exists[o.A] = true
		case pdbOpSetSlot:
			if exists[o.A] {
				slots[[2]int{o.A, o.S}] = true
			}
		case pdbOpDelSlot:
			delete(slots, [2]int{o.A, o.S})
		case pdbOpDestruct:
			delete(exists, o.A)
			for j := range pdbSlots {
				delete(slots, [2]int{o.A, j})
			}
		}
	}
	for len(ops) < n {
		// weights: create 3, modify 2, set 6, del 3, destruct 2, recreate 2
		k := rapid.IntRange(0, 17).Draw(rt, "kind")
		v := rapid.IntRange(0, len(pdbValues)-1).Draw(rt, "val")
		switch {
		case k < 3:
			apply(pdbOp{pdbOpCreate, pick(false, "acct"), 0, v})
		case k < 5:
			apply(pdbOp{pdbOpModify, pick(true, "acct"), 0, v})
		case k < 11:
			apply(pdbOp{pdbOpSetSlot, pick(true, "acct"), rapid.IntRange(0, pdbNumSlots-1).Draw(rt, "slot"), v})
		case k < 14:
			a := pick(true, "acct")
			var have []int
			for j := range pdbSlots {
				if slots[[2]int{a, j}] {
					have = append(have, j)
				}
			}
			s := rapid.IntRange(0, pdbNumSlots-1).Draw(rt, "slot")
			if len(have) > 0 {
				s = have[s%len(have)]
			}
			apply(pdbOp{pdbOpDelSlot, a, s, 0})
		case k < 16:
			apply(pdbOp{pdbOpDestruct, pick(true, "acct"), 0, 0})
		default:
			a := pick(true, "acct")
			apply(pdbOp{pdbOpDestruct, a, 0, 0})
			apply(pdbOp{pdbOpCreate, a, 0, v})
			for j, m := 0, rapid.IntRange(0, 3).Draw(rt, "reslots"); j < m; j++ {
				apply(pdbOp{pdbOpSetSlot, a, rapid.IntRange(0, pdbNumSlots-1).Draw(rt, "slot"), rapid.IntRange(0, len(pdbValues)-1).Draw(rt, "val")})
			}
		}
	}
	return ops
}

// pdbTransition is the result of applying ops on a parent state.
type pdbTransition struct {
	Root, Parent common.Hash
	Ops          []pdbOp
	Seq          uint64
	Raw          bool
	Nodes        *trienode.MergedNodeSet
	States       *StateSetWithOrigin
	Accounts     []common.Hash    // account hashes present in the state set (sorted)
	Slots        [][2]common.Hash // (account hash, slot hash) present in the state set (sorted)
	Destructed   []common.Hash    // accounts that existed in the parent and were destructed (maybe recreated)
	Recreated    bool             // some destructed account exists again in the child
	Deleted      int              // accounts/slots set to nil
}

type pdbWorld struct {
	states map[common.Hash]*pdbState
	refs   map[common.Hash]*pdbRefNodes
	order  []common.Hash
	seq    uint64
}

func newPdbWorld() *pdbWorld {
	w := &pdbWorld{states: map[common.Hash]*pdbState{}, refs: map[common.Hash]*pdbRefNodes{}}
	empty := &pdbState{Root: common.Hash(reftrie.EmptyRoot), Accts: map[common.Hash]*pdbAcct{}}
	if empty.Root != types.EmptyRootHash {
		panic("VERIF-HARNESS-BUG: reference empty root differs from types.EmptyRootHash")
	}
	w.states[empty.Root] = empty
	w.order = append(w.order, empty.Root)
	return w
}

func (w *pdbWorld) NextSeq() uint64                  { w.seq++; return w.seq }
func (w *pdbWorld) State(root common.Hash) *pdbState { return w.states[root] }
func (w *pdbWorld) Roots() []common.Hash             { return w.order }

func (w *pdbWorld) AllAccountHashes() []common.Hash {
	out := []common.Hash{pdbSeqAddr.Hash, pdbAbsentAccount.Hash}
	for _, a := range pdbAddrs {
		out = append(out, a.Hash)
	}
	return out
}

func (w *pdbWorld) AllSlotHashes() []common.Hash {
	out := []common.Hash{pdbAbsentSlot.Hash}
	for _, s := range pdbSlots {
		out = append(out, s.Hash)
	}
	return out
}

func pdbBuildRef(kv map[common.Hash][]byte) *reftrie.Result {
	m := make(map[string][]byte, len(kv))
	for k, v := range kv {
		m[string(k[:])] = v
	}
	return reftrie.Build(m)
}

// RefNodes returns (and caches) the reference node sets of a known root.
func (w *pdbWorld) RefNodes(root common.Hash) *pdbRefNodes {
	if r := w.refs[root]; r != nil {
		return r
	}
	st := w.states[root]
	if st == nil {
		return nil
	}
	r := &pdbRefNodes{Storage: map[common.Hash]map[string][]byte{}}
	accts := map[common.Hash][]byte{}
	for h, a := range st.Accts {
		accts[h] = a.Full
		if len(a.Storage) > 0 {
			res := pdbBuildRef(a.Storage)
			if common.Hash(res.Root) != a.StorageRoot {
				panic(fmt.Sprintf("VERIF-HARNESS-BUG: storage root of %x: model %x reference %x", h, a.StorageRoot, res.Root))
			}
			r.Storage[h] = res.Nodes
		}
	}
	res := pdbBuildRef(accts)
	if common.Hash(res.Root) != root {
		panic(fmt.Sprintf("VERIF-HARNESS-BUG: state root: model %x reference %x", root, res.Root))
	}
	r.Account = res.Nodes
	w.refs[root] = r
	return r
}

// NodeReader implements database.NodeDatabase over the reference node sets.
func (w *pdbWorld) NodeReader(stateRoot common.Hash) (database.NodeReader, error) {
	r := w.RefNodes(stateRoot)
	if r == nil {
		return nil, fmt.Errorf("pdbWorld: unknown state %x", stateRoot)
	}
	return pdbRefReader{r}, nil
}

type pdbRefReader struct{ r *pdbRefNodes }

func (rd pdbRefReader) Node(owner common.Hash, path []byte, hash common.Hash) ([]byte, error) {
	blob := rd.r.set(owner)[string(path)]
	if len(blob) == 0 {
		return nil, nil
	}
	if common.Hash(reftrie.Keccak256(blob)) != hash {
		return nil, fmt.Errorf("pdbWorld: node %x/%x hash mismatch", owner, path)
	}
	return blob, nil
}

// updateTrie applies entries (empty value = delete) in sorted key order on the trie
// (stateRoot, owner, root) read from the reference nodes and commits it.
func (w *pdbWorld) updateTrie(stateRoot, owner, root common.Hash, entries map[common.Hash][]byte) (common.Hash, *trienode.NodeSet) {
	var id *trie.ID
	if owner == (common.Hash{}) {
		id = trie.StateTrieID(stateRoot)
	} else {
		id = trie.StorageTrieID(stateRoot, owner, root)
	}
	tr, err := trie.New(id, w)
	if err != nil {
		panic(fmt.Sprintf("VERIF-HARNESS-BUG: pdbWorld cannot open trie %x/%x: %v", owner, root, err))
	}
	keys := make([]common.Hash, 0, len(entries))
	for k := range entries {
		keys = append(keys, k)
	}
	for _, k := range pdbSortHashes(keys) {
		if v := entries[k]; len(v) == 0 {
			err = tr.Delete(k[:])
		} else {
			err = tr.Update(k[:], v)
		}
		if err != nil {
			panic(fmt.Sprintf("VERIF-HARNESS-BUG: pdbWorld trie update: %v", err))
		}
	}
	return tr.Commit(false)
}

func pdbSlotValue(v int) []byte { return refrlp.EncodeString(pdbValues[v%len(pdbValues)]) }

// Transition applies ops (and the sequencer bump if seq != 0) on the parent state.
func (w *pdbWorld) Transition(parent common.Hash, ops []pdbOp, seq uint64, raw bool) *pdbTransition {
	pst := w.states[parent]
	if pst == nil {
		panic(fmt.Sprintf("VERIF-HARNESS-BUG: pdbWorld.Transition on unknown parent %x", parent))
	}
	// 1. apply the ops on a working copy
	work := map[common.Hash]*pdbAcct{}
	for h, a := range pst.Accts {
		work[h] = a // cloned lazily on first write
	}
	owned := map[common.Hash]bool{}
	mut := func(h common.Hash) *pdbAcct {
		a := work[h]
		if a != nil && !owned[h] {
			a = a.clone()
			work[h], owned[h] = a, true
		}
		return a
	}
	destructed := map[common.Hash]bool{}
	for _, o := range ops {
		h := pdbAddrs[o.A%pdbNumAddrs].Hash
		switch o.Kind {
		case pdbOpCreate:
			if work[h] == nil {
				work[h], owned[h] = &pdbAcct{Nonce: 1, Balance: uint64(o.V) * 1000003, Code: o.V % len(pdbCodeHashes), Storage: map[common.Hash][]byte{}}, true
			}
		case pdbOpModify:
			if a := mut(h); a != nil {
				a.Nonce++
				a.Balance += uint64(o.V)*0x0101010101 + 1
			}
		case pdbOpSetSlot:
			if a := mut(h); a != nil {
				a.Storage[pdbSlots[o.S%pdbNumSlots].Hash] = pdbSlotValue(o.V)
			}
		case pdbOpDelSlot:
			if a := mut(h); a != nil {
				delete(a.Storage, pdbSlots[o.S%pdbNumSlots].Hash)
			}
		case pdbOpDestruct:
			if work[h] != nil {
				delete(work, h)
				delete(owned, h)
				if pst.Accts[h] != nil {
					destructed[h] = true
				}
			}
		}
	}
	if seq != 0 {
		a := mut(pdbSeqAddr.Hash)
		if a == nil {
			a = &pdbAcct{Storage: map[common.Hash][]byte{}}
			work[pdbSeqAddr.Hash], owned[pdbSeqAddr.Hash] = a, true
		}
		a.Nonce = seq
	}
	// 2. diff against the parent, building tries and state sets
	var (
		tr            = &pdbTransition{Parent: parent, Ops: ops, Seq: seq, Raw: raw, Nodes: trienode.NewMergedNodeSet()}
		accounts      = map[common.Hash][]byte{}
		storages      = map[common.Hash]map[common.Hash][]byte{}
		accountOrigin = map[common.Address][]byte{}
		storageOrigin = map[common.Address]map[common.Hash][]byte{}
		trieUpdates   = map[common.Hash][]byte{}
	)
	merge := func(set *trienode.NodeSet) {
		if set == nil {
			return
		}
		if err := tr.Nodes.Merge(set); err != nil {
			panic(fmt.Sprintf("VERIF-HARNESS-BUG: node set merge: %v", err))
		}
	}
	originKey := func(slotHash common.Hash) common.Hash {
		if raw {
			return pdbSlotByHash[slotHash]
		}
		return slotHash
	}
	union := map[common.Hash]bool{}
	for h := range pst.Accts {
		union[h] = true
	}
	for h := range work {
		union[h] = true
	}
	hashes := make([]common.Hash, 0, len(union))
	for h := range union {
		hashes = append(hashes, h)
	}
	emptyRoot := common.Hash(reftrie.EmptyRoot)
	for _, h := range pdbSortHashes(hashes) {
		old, cur := pst.Accts[h], work[h]
		if cur != nil && !owned[h] && !destructed[h] {
			continue // untouched
		}
		var (
			oldStorage = map[common.Hash][]byte{}
			curStorage = map[common.Hash][]byte{}
			oldRoot    = emptyRoot
		)
		if old != nil {
			oldStorage, oldRoot = old.Storage, old.StorageRoot
		}
		if cur != nil {
			curStorage = cur.Storage
		}
		slotSet := map[common.Hash][]byte{}    // new values (nil = deleted)
		slotOrigin := map[common.Hash][]byte{} // previous values (nil = absent)
		newRoot := oldRoot
		if destructed[h] || cur == nil {
			// two phases as core/state does: wipe the old storage trie, then build the new one from scratch
			if len(oldStorage) > 0 {
				wipe := map[common.Hash][]byte{}
				for s, v := range oldStorage {
					wipe[s], slotSet[s], slotOrigin[s] = nil, nil, v
				}
				r, set := w.updateTrie(parent, h, oldRoot, wipe)
				if r != emptyRoot {
					panic("VERIF-HARNESS-BUG: wiped storage trie is not empty")
				}
				merge(set)
			}
			newRoot = emptyRoot
			if len(curStorage) > 0 {
				for s, v := range curStorage {
					slotSet[s] = v
					if _, ok := slotOrigin[s]; !ok {
						slotOrigin[s] = nil
					}
				}
				r, set := w.updateTrie(parent, h, emptyRoot, curStorage)
				newRoot = r
				merge(set)
			}
		} else {
			changes := map[common.Hash][]byte{}
			for s, v := range curStorage {
				if ov, ok := oldStorage[s]; !ok || !bytes.Equal(ov, v) {
					changes[s], slotSet[s], slotOrigin[s] = v, v, oldStorage[s]
				}
			}
			for s, ov := range oldStorage {
				if _, ok := curStorage[s]; !ok {
					changes[s], slotSet[s], slotOrigin[s] = nil, nil, ov
				}
			}
			if len(changes) > 0 {
				r, set := w.updateTrie(parent, h, oldRoot, changes)
				newRoot = r
				merge(set)
			}
		}
		if cur != nil {
			cur.StorageRoot = newRoot
			cur.encode()
		}
		var oldSlim, curSlim, curFull []byte
		if old != nil {
			oldSlim = old.Slim
		}
		if cur != nil {
			curSlim, curFull = cur.Slim, cur.Full
		}
		if !destructed[h] && bytes.Equal(oldSlim, curSlim) {
			if len(slotSet) != 0 {
				panic("VERIF-HARNESS-BUG: storage changed but account blob did not")
			}
			continue // no net change
		}
		addr := pdbAddrByHash[h]
		accounts[h] = curSlim
		accountOrigin[addr] = oldSlim
		trieUpdates[h] = curFull
		tr.Accounts = append(tr.Accounts, h)
		if curSlim == nil {
			tr.Deleted++
		}
		if len(slotSet) > 0 {
			storages[h] = slotSet
			so := map[common.Hash][]byte{}
			skeys := make([]common.Hash, 0, len(slotSet))
			for s := range slotSet {
				skeys = append(skeys, s)
			}
			for _, s := range pdbSortHashes(skeys) {
				so[originKey(s)] = slotOrigin[s]
				tr.Slots = append(tr.Slots, [2]common.Hash{h, s})
				if slotSet[s] == nil {
					tr.Deleted++
				}
			}
			storageOrigin[addr] = so
		}
		if destructed[h] {
			tr.Destructed = append(tr.Destructed, h)
			if cur != nil {
				tr.Recreated = true
			}
		}
	}
	// 3. account trie
	root := parent
	if len(trieUpdates) > 0 {
		r, set := w.updateTrie(parent, common.Hash{}, parent, trieUpdates)
		root = r
		merge(set)
	}
	tr.Root = root
	tr.States = NewStateSetWithOrigin(accounts, storages, accountOrigin, storageOrigin, raw)

	// 4. register and cross-check against the reference construction
	child := &pdbState{Root: root, Accts: work}
	if known := w.states[root]; known != nil {
		if !pdbSameState(known, child) {
			panic(fmt.Sprintf("VERIF-HARNESS-BUG: two different model states share root %x", root))
		}
	} else {
		w.states[root] = child
		w.order = append(w.order, root)
	}
	w.selfCheck(tr)
	return tr
}

func pdbSameState(a, b *pdbState) bool {
	if len(a.Accts) != len(b.Accts) {
		return false
	}
	for h, x := range a.Accts {
		y := b.Accts[h]
		if y == nil || !bytes.Equal(x.Full, y.Full) || len(x.Storage) != len(y.Storage) {
			return false
		}
		for s, v := range x.Storage {
			if !bytes.Equal(v, y.Storage[s]) {
				return false
			}
		}
	}
	return true
}

// selfCheck verifies that parent reference nodes + the produced node set give exactly
// the child's reference nodes, and that the recorded origins are the parent's nodes.
func (w *pdbWorld) selfCheck(tr *pdbTransition) {
	pref, cref := w.RefNodes(tr.Parent), w.RefNodes(tr.Root) // RefNodes also checks the roots
	owners := map[common.Hash]bool{{}: true}
	for o := range pref.Storage {
		owners[o] = true
	}
	for o := range cref.Storage {
		owners[o] = true
	}
	for o := range tr.Nodes.Sets {
		owners[o] = true
	}
	for owner := range owners {
		got := map[string][]byte{}
		for p, b := range pref.set(owner) {
			got[p] = b
		}
		if set := tr.Nodes.Sets[owner]; set != nil {
			for p, n := range set.Nodes {
				if !bytes.Equal(set.Origins[p], pref.set(owner)[p]) {
					panic(fmt.Sprintf("VERIF-HARNESS-BUG: node origin mismatch owner %x path %x", owner, p))
				}
				if n.IsDeleted() {
					delete(got, p)
				} else {
					got[p] = n.Blob
				}
			}
		}
		want := cref.set(owner)
		if len(got) != len(want) {
			panic(fmt.Sprintf("VERIF-HARNESS-BUG: node set of owner %x has %d nodes, reference %d", owner, len(got), len(want)))
		}
		for p, b := range want {
			if !bytes.Equal(got[p], b) {
				panic(fmt.Sprintf("VERIF-HARNESS-BUG: node %x/%x differs from reference", owner, p))
			}
		}
	}
}

// pdbVerifyReads reads every pool account, slot (plus never-used keys) and every
// reference trie node of root through StateReader/NodeReader(root) and returns a
// description of the first difference from the model ("" if none). Shared by the
// checks that need "reads at this root agree with the model" as a sub-oracle.
func pdbVerifyReads(db *Database, w *pdbWorld, root common.Hash) string {
	st := w.State(root)
	sr, err := db.StateReader(root)
	if err != nil {
		return fmt.Sprintf("StateReader(%x): %v", root, err)
	}
	nr, err := db.NodeReader(root)
	if err != nil {
		return fmt.Sprintf("NodeReader(%x): %v", root, err)
	}
	rd := sr.(*reader)
	for _, a := range w.AllAccountHashes() {
		got, err := rd.AccountRLP(a)
		if err != nil {
			return fmt.Sprintf("account %x at %x: %v", a, root, err)
		}
		if want := st.AccountBlob(a); !(len(got) == 0 && len(want) == 0) && !bytes.Equal(got, want) {
			return fmt.Sprintf("account %x at %x: got %x, model %x", a, root, got, want)
		}
		for _, s := range w.AllSlotHashes() {
			got, err := rd.Storage(a, s)
			if err != nil {
				return fmt.Sprintf("slot %x/%x at %x: %v", a, s, root, err)
			}
			if want := st.SlotBlob(a, s); !(len(got) == 0 && len(want) == 0) && !bytes.Equal(got, want) {
				return fmt.Sprintf("slot %x/%x at %x: got %x, model %x", a, s, root, got, want)
			}
		}
	}
	ref := w.RefNodes(root)
	check := func(owner common.Hash, set map[string][]byte) string {
		paths := make([]string, 0, len(set))
		for p := range set {
			paths = append(paths, p)
		}
		sort.Strings(paths)
		for _, p := range paths {
			got, err := nr.Node(owner, []byte(p), common.Hash(reftrie.Keccak256(set[p])))
			if err != nil {
				return fmt.Sprintf("node %x/%x at %x: %v", owner, p, root, err)
			}
			if !bytes.Equal(got, set[p]) {
				return fmt.Sprintf("node %x/%x at %x: got %x, reference %x", owner, p, root, got, set[p])
			}
		}
		return ""
	}
	if d := check(common.Hash{}, ref.Account); d != "" {
		return d
	}
	owners := make([]common.Hash, 0, len(ref.Storage))
	for o := range ref.Storage {
		owners = append(owners, o)
	}
	for _, o := range pdbSortHashes(owners) {
		if d := check(o, ref.Storage[o]); d != "" {
			return d
		}
	}
	return ""
}
