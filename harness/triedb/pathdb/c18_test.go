//go:build verif

package pathdb

// C18: historical reads return the value at that state.
//
// A linear canonical history from pdbWorld is pushed into a database with real
// file-backed state / trienode history freezers and history indexing enabled.
// The history is interleaved with rollbacks (Recover) followed by a different
// fork, tail pruning (history limits; the index pruner is driven white-box because
// its 90000-history threshold is a constant), commits, journal+close+reopen with
// the real background index initialiser, and "late" indexing of histories that
// were written while indexing was off. At observation points every retained
// historical root is read through Database.HistoricReader (every pool account and
// slot plus never-used keys) and Database.HistoricNodeReader (every node of the
// kit/reftrie node sets) and compared with the model; roots that are not canonical
// any more, not below the disk layer, pruned or unknown must be refused.
//
// Indexing mode. The index initialiser of geth decides in a background goroutine
// (15 s heart beat) when the initial indexing is complete. To keep cases fast and
// deterministic the main mode replaces the freshly created indexer by one whose
// initialiser is already in its terminal "done" state (exactly what the real one
// reaches on an empty / fully indexed database): from then on extend / shorten run
// synchronously inside commit / revert. The real initialiser is exercised by the
// reopen steps with a bounded wait: if it has not finished in time, the database is
// in the "not fully indexed" state and every historical read must be refused.

import (
	"bytes"
	"fmt"
	"os"
	"sort"
	"strings"
	"testing"
	"time"

	"github.com/ethereum/go-ethereum/common"
	"github.com/ethereum/go-ethereum/core/rawdb"
	"github.com/ethereum/go-ethereum/core/types"
	"github.com/ethereum/go-ethereum/ethdb"
	"github.com/ethereum/go-ethereum/ethdb/memorydb"
	"github.com/ethereum/go-ethereum/log"
	"pgregory.net/rapid"
	"verif.local/kit/reftrie"
	vs "verif.local/kit/stat"
)

// c18Disk is an ethdb.Database without chain freezer that tells pathdb where to
// put its history freezers.
type c18Disk struct {
	ethdb.Database
	dir string
}

func (d *c18Disk) AncientDatadir() (string, error) { return d.dir, nil }

var c18TempRoot string

func c18SetupTemp(t *testing.T) {
	const shm = "/dev/shm"
	if fi, err := os.Stat(shm); err != nil || !fi.IsDir() {
		return
	}
	if ents, err := os.ReadDir(shm); err == nil {
		for _, e := range ents {
			if !strings.HasPrefix(e.Name(), "verif-c18-") {
				continue
			}
			if info, err := e.Info(); err == nil && time.Since(info.ModTime()) > time.Hour {
				os.RemoveAll(shm + "/" + e.Name())
			}
		}
	}
	dir, err := os.MkdirTemp(shm, "verif-c18-")
	if err != nil {
		return
	}
	c18TempRoot = dir
	t.Cleanup(func() { os.RemoveAll(dir); c18TempRoot = "" })
}

type c18Held struct {
	root common.Hash
	id   int
	hr   *HistoricalStateReader
	at   int // length of the trace when it was created
}

type c18Env struct {
	rt         *rapid.T
	c          *vs.Case
	st         *vs.S
	w          *pdbWorld
	cfg        Config
	maxLayers  int
	dir        string
	kv         *memorydb.Database
	db         *Database
	line       []common.Hash // canonical roots by state id; line[len-1] is the head
	dead       []common.Hash // roots of rolled-back forks
	held       []c18Held
	heldAcross []c18Held // readers that lived through a rollback (observation only)
	trace      []string
	forced     bool // the indexers are in the forced "initial indexing done" state
	indexing   bool
	stopped    bool // the scenario ended early (real initialiser still busy)

	// statistics
	reads, refused             int
	farReads, afterRollback    int
	prunedTailReads, heldReads int
	nodeReads                  int
	rolledBack, pruned         bool
	excluded                   int
	voidIf                     func() bool // set while a schedule-dependent refusal check runs
}

func (e *c18Env) config() string {
	return fmt.Sprintf("maxDiffLayers=%d buffer=%d noAsyncFlush=%v stateHistory=%d trienodeHistory=%d checkpoint=%d",
		e.maxLayers, e.cfg.WriteBufferSize, e.cfg.NoAsyncFlush, e.cfg.StateHistory, e.cfg.TrienodeHistory, e.cfg.FullValueCheckpoint)
}

func (e *c18Env) fail(format string, a ...any) {
	if e.voidIf != nil && e.voidIf() {
		e.c.Class("observe:initialiser-finished-during-refusal-check")
		return
	}
	e.rt.Fatalf("%s\nconfig: %s\nhistory:\n  %s", fmt.Sprintf(format, a...), e.config(), strings.Join(e.trace, "\n  "))
}

func (e *c18Env) head() common.Hash { return e.line[len(e.line)-1] }

// forceInited replaces an indexer by one whose initialiser is in the terminal
// "done" state. Only legal when the index metadata already covers every history
// (or the database holds no history at all).
func (e *c18Env) forceInited(old *historyIndexer, freezer ethdb.AncientStore, typ historyType) *historyIndexer {
	old.close()
	last := e.db.tree.bottom().stateID()
	meta := loadIndexMetadata(e.db.diskdb, typ)
	switch {
	case meta == nil && last == 0:
		storeIndexMetadata(e.db.diskdb, typ, 0)
	case meta != nil && meta.Last == last:
	default:
		e.fail("VERIF-HARNESS-BUG: cannot force the %v indexer: metadata %v, disk layer id %d", typ, meta, last)
	}
	initer := &indexIniter{
		state:     newIniterState(e.db.diskdb, true),
		disk:      e.db.diskdb,
		freezer:   freezer,
		interrupt: make(chan *interruptSignal),
		done:      make(chan struct{}),
		closed:    make(chan struct{}),
		typ:       typ,
		log:       log.New("type", typ.String()),
	}
	initer.last.Store(last)
	initer.indexed.Store(last)
	close(initer.done)
	return &historyIndexer{initer: initer, pruner: newIndexPruner(e.db.diskdb, typ), typ: typ, disk: e.db.diskdb, freezer: freezer}
}

// open (re)opens the database. indexing: EnableStateIndexing; force: put the
// indexers into the forced "done" state right away.
func (e *c18Env) open(indexing, force bool) {
	cfg := e.cfg
	cfg.EnableStateIndexing = indexing
	cfg.NoHistoryIndexDelay = true
	e.db = New(&c18Disk{Database: rawdb.NewDatabase(e.kv), dir: e.dir}, &cfg, false)
	e.indexing, e.forced = indexing, false
	if indexing && force {
		e.db.stateIndexer = e.forceInited(e.db.stateIndexer, e.db.stateFreezer, typeStateHistory)
		if e.db.trienodeIndexer != nil {
			e.db.trienodeIndexer = e.forceInited(e.db.trienodeIndexer, e.db.trienodeFreezer, typeTrienodeHistory)
		}
		e.forced = true
	}
}

func (e *c18Env) inited() bool {
	if e.db.stateIndexer == nil || !e.db.stateIndexer.inited() {
		return false
	}
	return e.db.trienodeIndexer == nil || e.db.trienodeIndexer.inited()
}

// waitInited polls the real initialisers for a bounded time.
func (e *c18Env) waitInited(limit time.Duration) bool {
	for deadline := time.Now().Add(limit); ; {
		if e.inited() {
			return true
		}
		if time.Now().After(deadline) {
			return false
		}
		time.Sleep(2 * time.Millisecond)
	}
}

func (e *c18Env) extend(n int) {
	rt := e.rt
	for i := 0; i < n; i++ {
		head := e.head()
		ops := e.ballast(pdbDrawOps(rt, e.w.State(head), rapid.IntRange(1, 4).Draw(rt, "nops")), len(e.line) == 1)
		tr := e.w.Transition(head, ops, e.w.NextSeq(), rapid.Bool().Draw(rt, "rawKeys"))
		id := len(e.line)
		if err := e.db.Update(tr.Root, tr.Parent, uint64(id), tr.Nodes, tr.States); err != nil {
			e.fail("Update #%d (%x<-%x) failed: %v", id, tr.Root, tr.Parent, err)
		}
		e.line = append(e.line, tr.Root)
		e.trace = append(e.trace, fmt.Sprintf("#%d update %x %v raw=%v -> disk id %d", id, tr.Root[:4], ops, tr.Raw, e.db.tree.bottom().stateID()))
	}
	if err := e.db.tree.bottom().waitFlush(); err != nil {
		e.fail("background flush failed: %v", err)
	}
}

// Known-finding class (see notes/C18.md): a transition whose trienode history holds
// only the account-trie root node (single-account state) is never marked as indexed.
const (
	c18Test          = "TestVerifC18Historic"
	c18KnownRootOnly = "trienode-history-root-only"
	c18KnownToZero   = "rollback-to-state-zero-drops-index-metadata"
	c18BallastAcct   = pdbNumAddrs - 1
)

// ballast keeps a second account (besides the sequencer) alive at all times while
// the known finding is listed, so that the account trie is never a single leaf:
// the first transition creates it, destructs of it are dropped (ops are total).
func (e *c18Env) ballast(ops []pdbOp, first bool) []pdbOp {
	if !vs.Known(c18Test, c18KnownRootOnly) {
		return ops
	}
	out := ops[:0:0]
	if first {
		out = append(out, pdbOp{pdbOpCreate, c18BallastAcct, 0, 1})
	}
	for _, o := range ops {
		if o.Kind == pdbOpDestruct && o.A%pdbNumAddrs == c18BallastAcct {
			e.excluded++
			continue
		}
		out = append(out, o)
	}
	return out
}

func (e *c18Env) commit() {
	if e.db.tree.len() < 2 {
		return
	}
	if err := e.db.Commit(e.head(), false); err != nil {
		e.fail("Commit(%x) failed: %v", e.head(), err)
	}
	if err := e.db.tree.bottom().waitFlush(); err != nil {
		e.fail("background flush failed: %v", err)
	}
	e.trace = append(e.trace, fmt.Sprintf("commit -> disk id %d", e.db.tree.bottom().stateID()))
}

func (e *c18Env) tails() (state, trienode uint64) {
	var err error
	if state, err = e.db.stateFreezer.Tail(rawdb.DefaultHistoryGroup); err != nil {
		e.fail("state history tail: %v", err)
	}
	if e.db.trienodeFreezer != nil {
		if trienode, err = e.db.trienodeFreezer.Tail(rawdb.DefaultHistoryGroup); err != nil {
			e.fail("trienode history tail: %v", err)
		}
	}
	return state, trienode
}

func (e *c18Env) rollback() bool {
	rt := e.rt
	disk := int(e.db.tree.bottom().stateID())
	st, tt := e.tails()
	floor := int(max(st, tt)) // see notes/C20.md: rollbacks below the trienode tail are a known finding of C20
	if floor == 0 && vs.Known(c18Test, c18KnownToZero) {
		// known finding: unindexing history 1 deletes the index metadata and no history can be indexed afterwards
		floor = 1
		if disk <= 8 { // state id 0 was inside the drawable range
			e.excluded++
		}
	}
	if disk == 0 || floor >= disk {
		return false
	}
	tgt := rapid.IntRange(max(floor, disk-8), disk-1).Draw(rt, "rollbackTarget")
	if !e.db.Recoverable(e.line[tgt]) {
		e.fail("Recoverable(root of id %d) = false with disk id %d, tails %d/%d", tgt, disk, st, tt)
	}
	if err := e.db.Recover(e.line[tgt]); err != nil {
		e.fail("Recover(root of id %d) failed: %v", tgt, err)
	}
	e.dead = append(e.dead, e.line[tgt+1:]...)
	e.line = e.line[:tgt+1]
	e.rolledBack = true
	// readers held across a rollback are outside the statement: observed, not asserted (see notes/C18.md)
	e.heldAcross = append(e.heldAcross, e.held...)
	e.held = nil
	e.trace = append(e.trace, fmt.Sprintf("rollback disk #%d -> #%d", disk, tgt))
	return true
}

// pruneIndex drives the index pruners to the current history tails. The pruner's
// own trigger needs the tail to advance by indexPruningThreshold (90000, a constant),
// which no generated history reaches, so its work function is called directly.
func (e *c18Env) pruneIndex() bool {
	if !e.indexing || !e.inited() {
		return false
	}
	st, tt := e.tails()
	did := false
	if st > 0 {
		if err := e.db.stateIndexer.pruner.process(st + 1); err != nil {
			e.fail("state index pruner: %v", err)
		}
		did = true
	}
	if tt > 0 && e.db.trienodeIndexer != nil {
		if err := e.db.trienodeIndexer.pruner.process(tt + 1); err != nil {
			e.fail("trienode index pruner: %v", err)
		}
		did = true
	}
	if did {
		e.pruned = true
		e.trace = append(e.trace, fmt.Sprintf("prune index below tails %d/%d", st, tt))
	}
	return did
}

func c18Same(got, want []byte) bool {
	return (len(got) == 0 && len(want) == 0) || bytes.Equal(got, want)
}

// verifyState compares every pool account and slot read through hr with the model state at root.
func (e *c18Env) verifyState(hr *HistoricalStateReader, root common.Hash, what string) {
	st := e.w.State(root)
	addrs := append([]pdbAddr{pdbSeqAddr, pdbAbsentAccount}, pdbAddrs...)
	slots := append([]pdbSlot{pdbAbsentSlot}, pdbSlots...)
	for _, a := range addrs {
		got, err := hr.AccountRLP(a.Addr)
		if err != nil {
			e.fail("%s: historical account %x at root %x (id %d): %v", what, a.Addr, root, hr.id, err)
		}
		if want := st.AccountBlob(a.Hash); !c18Same(got, want) {
			e.fail("%s: historical account %x at root %x (id %d) is %x, model %x", what, a.Addr, root, hr.id, got, want)
		}
		e.reads++
		for _, s := range slots {
			got, err := hr.Storage(a.Addr, s.Key)
			if err != nil {
				e.fail("%s: historical slot %x/%x at root %x (id %d): %v", what, a.Addr, s.Key, root, hr.id, err)
			}
			if want := st.SlotBlob(a.Hash, s.Hash); !c18Same(got, want) {
				e.fail("%s: historical slot %x/%x at root %x (id %d) is %x, model %x", what, a.Addr, s.Key, root, hr.id, got, want)
			}
			e.reads++
		}
	}
}

// softVerify is verifyState without assertions: it counts failed and wrong reads.
func (e *c18Env) softVerify(hr *HistoricalStateReader, root common.Hash) (errs, wrong int, first string) {
	st := e.w.State(root)
	for _, a := range append([]pdbAddr{pdbSeqAddr}, pdbAddrs...) {
		got, err := hr.AccountRLP(a.Addr)
		if err != nil {
			errs++
		} else if want := st.AccountBlob(a.Hash); !c18Same(got, want) {
			wrong++
			if first == "" {
				first = fmt.Sprintf("account %x at id %d: %x, model %x", a.Addr, hr.id, got, want)
			}
		}
		for _, s := range pdbSlots {
			got, err := hr.Storage(a.Addr, s.Key)
			if err != nil {
				errs++
			} else if want := st.SlotBlob(a.Hash, s.Hash); !c18Same(got, want) {
				wrong++
				if first == "" {
					first = fmt.Sprintf("slot %x/%x at id %d: %x, model %x", a.Addr, s.Key, hr.id, got, want)
				}
			}
		}
	}
	return errs, wrong, first
}

// verifyNodes reads every reference trie node of root through the historical node reader.
func (e *c18Env) verifyNodes(nr *HistoricalNodeReader, root common.Hash, what string) {
	ref := e.w.RefNodes(root)
	check := func(owner common.Hash, set map[string][]byte) {
		paths := make([]string, 0, len(set))
		for p := range set {
			paths = append(paths, p)
		}
		sort.Strings(paths)
		for i, p := range paths {
			hash := common.Hash(reftrie.Keccak256(set[p]))
			got, err := nr.Node(owner, []byte(p), hash)
			if err != nil {
				e.fail("%s: historical trie node %x/%x at root %x (id %d): %v", what, owner, p, root, nr.id, err)
			}
			if !bytes.Equal(got, set[p]) {
				e.fail("%s: historical trie node %x/%x at root %x (id %d) is %x, reference %x", what, owner, p, root, nr.id, got, set[p])
			}
			e.nodeReads++
			if i == 0 {
				// a wrong hash is never answered with data
				bad := hash
				bad[7] ^= 0x40
				if got, err := nr.Node(owner, []byte(p), bad); err == nil {
					e.fail("%s: historical trie node %x/%x at root %x requested with a wrong hash returned %x", what, owner, p, root, got)
				}
			}
		}
	}
	check(common.Hash{}, ref.Account)
	owners := make([]common.Hash, 0, len(ref.Storage))
	for o := range ref.Storage {
		owners = append(owners, o)
	}
	for _, o := range pdbSortHashes(owners) {
		check(o, ref.Storage[o])
	}
}

// refusedWhile runs a refusal check whose expectation only holds while busy() is
// true; if the background initialiser finished during the check, a served read is
// legitimate and the check is void.
func (e *c18Env) refusedWhile(busy func() bool, check func()) {
	e.voidIf = func() bool { return !busy() }
	defer func() { e.voidIf = nil }()
	check()
}

// refusedState asserts that no value can be read at root through HistoricReader.
func (e *c18Env) refusedState(root common.Hash, why string) {
	hr, err := e.db.HistoricReader(root)
	if err != nil {
		e.refused++
		return
	}
	for _, a := range append([]pdbAddr{pdbSeqAddr}, pdbAddrs...) {
		if got, err := hr.AccountRLP(a.Addr); err == nil {
			e.fail("historical account %x was served (%x) at root %x, which must be refused: %s", a.Addr, got, root, why)
		}
		if got, err := hr.Storage(a.Addr, pdbSlots[0].Key); err == nil {
			e.fail("historical slot %x/%x was served (%x) at root %x, which must be refused: %s", a.Addr, pdbSlots[0].Key, got, root, why)
		}
	}
	e.refused++
}

func (e *c18Env) refusedNodes(root common.Hash, why string) {
	if e.db.trienodeFreezer == nil {
		return
	}
	nr, err := e.db.HistoricNodeReader(root)
	if err != nil {
		e.refused++
		return
	}
	if ref := e.w.RefNodes(root); ref != nil {
		if blob := ref.Account[""]; len(blob) > 0 {
			if got, err := nr.Node(common.Hash{}, nil, common.Hash(reftrie.Keccak256(blob))); err == nil {
				e.fail("historical root node was served (%x) at root %x, which must be refused: %s", got, root, why)
			}
		}
	}
	e.refused++
}

// observe checks every retained historical root and a selection of roots that must be refused.
func (e *c18Env) observe(when string) {
	rt := e.rt
	disk := int(e.db.tree.bottom().stateID())
	st, tt := e.tails()
	if e.db.tree.bottom().rootHash() != e.line[disk] {
		e.fail("%s: disk layer root %x is not the canonical root of id %d", when, e.db.tree.bottom().rootHash(), disk)
	}
	if !e.indexing || !e.inited() {
		// not (fully) indexed: a history type whose initialiser has not finished refuses
		// everything. The initialisers run in the background and may finish at any moment,
		// so a served read only counts if the initialiser is still busy afterwards.
		stateBusy := func() bool { return e.db.stateIndexer == nil || !e.db.stateIndexer.inited() }
		nodeBusy := func() bool { return e.db.trienodeIndexer == nil || !e.db.trienodeIndexer.inited() }
		for _, j := range []int{0, disk / 2, disk - 1, disk} {
			if j >= 0 && j < len(e.line) {
				if stateBusy() {
					e.refusedWhile(stateBusy, func() { e.refusedState(e.line[j], "state history is not fully indexed") })
				}
				if nodeBusy() {
					e.refusedWhile(nodeBusy, func() { e.refusedNodes(e.line[j], "trienode history is not fully indexed") })
				}
			}
		}
		e.c.Class("observe:not-indexed")
		return
	}
	// readable: state tail <= id < disk
	var ids []int
	for j := int(st); j < disk; j++ {
		ids = append(ids, j)
	}
	limit := 16
	if vs.Thorough() {
		limit = 40
	}
	if len(ids) > limit {
		pick := map[int]bool{int(st): true, int(st) + 1: true, disk - 1: true, disk - 2: true}
		for len(pick) < limit {
			pick[rapid.IntRange(int(st), disk-1).Draw(rt, "observedRoot")] = true
		}
		ids = ids[:0]
		for j := range pick {
			ids = append(ids, j)
		}
		sort.Ints(ids)
	}
	for _, j := range ids {
		what := fmt.Sprintf("%s (disk id %d, tails %d/%d)", when, disk, st, tt)
		hr, err := e.db.HistoricReader(e.line[j])
		if err != nil {
			e.fail("%s: HistoricReader(root of id %d) failed: %v", what, j, err)
		}
		before := e.reads
		e.verifyState(hr, e.line[j], what)
		n := e.reads - before
		if disk-j >= 2 {
			e.farReads += n
		}
		if e.rolledBack {
			e.afterRollback += n
		}
		if st > 0 && j <= int(st)+1 {
			e.prunedTailReads += n
		}
		if e.db.trienodeFreezer != nil {
			nr, err := e.db.HistoricNodeReader(e.line[j])
			if j >= int(tt) {
				if err != nil {
					e.fail("%s: HistoricNodeReader(root of id %d) failed: %v", what, j, err)
				}
				e.verifyNodes(nr, e.line[j], what)
			} else if err == nil {
				e.refusedNodes(e.line[j], "trienode history pruned")
			}
		}
	}
	// refused: pruned tail, disk layer and above, rolled-back forks, unknown roots
	if st > 0 {
		e.refusedState(e.line[st-1], fmt.Sprintf("older than the history tail %d", st))
		e.refusedState(e.line[rapid.IntRange(0, int(st)-1).Draw(rt, "prunedRoot")], fmt.Sprintf("older than the history tail %d", st))
	}
	if tt > 0 {
		e.refusedNodes(e.line[tt-1], fmt.Sprintf("older than the trienode history tail %d", tt))
	}
	for j := disk; j < len(e.line); j++ {
		if j == disk || j == len(e.line)-1 || j == disk+1 {
			e.refusedState(e.line[j], fmt.Sprintf("not below the disk layer (id %d, disk id %d)", j, disk))
			e.refusedNodes(e.line[j], fmt.Sprintf("not below the disk layer (id %d, disk id %d)", j, disk))
		}
	}
	for k, r := range e.dead {
		if k >= len(e.dead)-12 {
			e.refusedState(r, "root of a rolled-back fork")
			e.refusedNodes(r, "root of a rolled-back fork")
		}
	}
	e.refusedState(common.Hash{0x01}, "unknown root")
	e.refusedState(common.Hash{}, "zero root")
	// readers opened earlier keep answering for their root while it stays retained and canonical
	kept := e.held[:0]
	for _, h := range e.held {
		if h.id >= len(e.line) || e.line[h.id] != h.root || h.id < int(st) || h.id >= disk {
			continue // rolled back, pruned: dropped (see notes: held readers across a rollback are outside the statement)
		}
		before := e.reads
		e.verifyState(h.hr, h.root, fmt.Sprintf("%s, reader opened at step %d", when, h.at))
		e.heldReads += e.reads - before
		kept = append(kept, h)
	}
	e.held = kept
	// observation only: readers that lived through a rollback
	keptAcross := e.heldAcross[:0]
	for _, h := range e.heldAcross {
		if h.id >= len(e.line) || e.line[h.id] != h.root || h.id < int(st) || h.id >= disk {
			continue
		}
		keptAcross = append(keptAcross, h)
		errs, wrong, first := e.softVerify(h.hr, h.root)
		switch {
		case wrong > 0:
			e.c.Class("observation:reader-held-across-rollback:wrong-value")
			e.st.Note("observation (not asserted): a HistoricalStateReader opened before a rollback and used after the re-extension returned a wrong value without error: %s", first)
		case errs > 0:
			e.c.Class("observation:reader-held-across-rollback:errors")
		default:
			e.c.Class("observation:reader-held-across-rollback:exact")
		}
	}
	e.heldAcross = keptAcross
	e.c.Class("observe:indexed")
}

func (e *c18Env) hold() {
	if !e.indexing || !e.inited() {
		return
	}
	disk := int(e.db.tree.bottom().stateID())
	st, _ := e.tails()
	if int(st) >= disk {
		return
	}
	j := rapid.IntRange(int(st), disk-1).Draw(e.rt, "heldRoot")
	hr, err := e.db.HistoricReader(e.line[j])
	if err != nil {
		e.fail("HistoricReader(root of id %d) failed: %v (disk id %d, tail %d)", j, err, disk, st)
	}
	// touch a few keys so that the reader caches index readers
	hr.AccountRLP(pdbAddrs[0].Addr)
	hr.Storage(pdbAddrs[1].Addr, pdbSlots[0].Key)
	e.held = append(e.held, c18Held{root: e.line[j], id: j, hr: hr, at: len(e.trace)})
}

// reopen journals, closes and reopens the database. With real == true the real
// index initialiser is left in place and given a bounded time to finish.
func (e *c18Env) reopen(indexing, real bool, wait time.Duration) {
	head := e.head()
	if err := e.db.Journal(head); err != nil {
		e.fail("Journal(%x) failed: %v", head, err)
	}
	if err := e.db.Close(); err != nil {
		e.fail("Close failed: %v", err)
	}
	// a rollback made held readers' databases stale anyway; drop them on reopen
	e.held, e.heldAcross = nil, nil
	e.open(indexing, !real)
	if e.db.tree.get(head) == nil {
		e.fail("reopen lost the journaled head %x", head)
	}
	desc := fmt.Sprintf("journal+close+reopen indexing=%v", indexing)
	if indexing && real {
		ok := e.waitInited(wait)
		desc += fmt.Sprintf(" real-initer inited=%v", ok)
		if ok {
			e.c.Class("reopen:real-initer-finished")
		} else {
			e.c.Class("reopen:real-initer-busy")
		}
	}
	e.trace = append(e.trace, desc)
}

// partialIndex checks the low-level history reader against a partially built index:
// histories tail+1..m indexed (white-box indexSingle), m < disk id. Every read must
// be refused; after completing the index every read is exact.
func (e *c18Env) partialIndex() {
	rt := e.rt
	disk := e.db.tree.bottom().stateID()
	st, _ := e.tails()
	if disk < st+2 {
		return
	}
	if meta := loadIndexMetadata(e.db.diskdb, typeStateHistory); meta != nil {
		e.fail("VERIF-HARNESS-BUG: partialIndex on a database with index metadata %+v", meta)
	}
	storeIndexMetadata(e.db.diskdb, typeStateHistory, st)
	m := rapid.Uint64Range(st, disk-1).Draw(rt, "partialUpTo")
	for id := st + 1; id <= m; id++ {
		if err := indexSingle(id, e.db.diskdb, e.db.stateFreezer, typeStateHistory); err != nil {
			e.fail("indexSingle(%d): %v", id, err)
		}
	}
	dl := e.db.tree.bottom()
	readAll := func(j uint64, wantErr bool) {
		hr := newStateHistoryReader(e.db.diskdb, e.db.stateFreezer)
		state := e.w.State(e.line[j])
		for _, a := range append([]pdbAddr{pdbSeqAddr}, pdbAddrs...) {
			latest, err := dl.account(a.Hash, 0)
			if err != nil {
				e.fail("disk layer account: %v", err)
			}
			got, err := hr.read(newAccountIdentQuery(a.Addr, a.Hash), j, dl.stateID(), latest)
			switch {
			case wantErr && err == nil:
				e.fail("history reader served account %x at id %d (%x) although only histories up to %d of %d are indexed", a.Addr, j, got, m, disk)
			case !wantErr && err != nil:
				e.fail("history reader failed for account %x at id %d after completing the index: %v", a.Addr, j, err)
			case !wantErr && !c18Same(got, state.AccountBlob(a.Hash)):
				e.fail("history reader: account %x at id %d is %x, model %x (index built with indexSingle)", a.Addr, j, got, state.AccountBlob(a.Hash))
			}
			e.reads++
			for _, s := range pdbSlots {
				latest, err := dl.storage(a.Hash, s.Hash, 0)
				if err != nil {
					e.fail("disk layer storage: %v", err)
				}
				got, err := hr.read(newStorageIdentQuery(a.Addr, a.Hash, s.Key, s.Hash), j, dl.stateID(), latest)
				switch {
				case wantErr && err == nil:
					e.fail("history reader served slot %x/%x at id %d (%x) although only histories up to %d of %d are indexed", a.Addr, s.Key, j, got, m, disk)
				case !wantErr && err != nil:
					e.fail("history reader failed for slot %x/%x at id %d after completing the index: %v", a.Addr, s.Key, j, err)
				case !wantErr && !c18Same(got, state.SlotBlob(a.Hash, s.Hash)):
					e.fail("history reader: slot %x/%x at id %d is %x, model %x (index built with indexSingle)", a.Addr, s.Key, j, got, state.SlotBlob(a.Hash, s.Hash))
				}
				e.reads++
			}
		}
	}
	for _, j := range []uint64{st, (st + disk) / 2, disk - 1} {
		readAll(j, true)
		e.refused++
	}
	for id := m + 1; id <= disk; id++ {
		if err := indexSingle(id, e.db.diskdb, e.db.stateFreezer, typeStateHistory); err != nil {
			e.fail("indexSingle(%d): %v", id, err)
		}
	}
	for j := st; j < disk; j++ {
		readAll(j, false)
	}
	// bring the trienode index up to date as well so that indexing can be switched on
	if e.db.trienodeFreezer != nil {
		_, tt := e.tails()
		storeIndexMetadata(e.db.diskdb, typeTrienodeHistory, tt)
		for id := tt + 1; id <= disk; id++ {
			if err := indexSingle(id, e.db.diskdb, e.db.trienodeFreezer, typeTrienodeHistory); err != nil {
				e.fail("indexSingle(trienode %d): %v", id, err)
			}
		}
	}
	e.trace = append(e.trace, fmt.Sprintf("partial index up to %d of %d refused, completed index exact", m, disk))
	e.c.Class("partial-index")
}

func c18Scenario(rt *rapid.T, st *vs.S) {
	c := st.Case()
	e := &c18Env{rt: rt, c: c, st: st, w: newPdbWorld(), kv: memorydb.New()}
	e.maxLayers = rapid.SampledFrom([]int{1, 2, 2, 4, 8}).Draw(rt, "maxDiffLayers")
	e.cfg = Config{
		StateHistory:        rapid.SampledFrom([]uint64{0, 0, 3, 10, 25}).Draw(rt, "stateHistory"),
		FullValueCheckpoint: rapid.SampledFrom([]uint32{0, 2, 8}).Draw(rt, "fullValueCheckpoint"),
		WriteBufferSize:     rapid.SampledFrom([]int{0, 0, 1024, 64 * 1024}).Draw(rt, "writeBuffer"),
		NoAsyncFlush:        rapid.IntRange(0, 4).Draw(rt, "asyncFlush") != 0,
		NoAsyncGeneration:   true,
		TrieCleanSize:       rapid.SampledFrom([]int{0, 64 * 1024}).Draw(rt, "cleanCache"),
	}
	e.cfg.StateCleanSize = e.cfg.TrieCleanSize
	switch rapid.IntRange(0, 3).Draw(rt, "trienodeHistory") {
	case 0:
		e.cfg.TrienodeHistory = -1
	case 1, 2:
		e.cfg.TrienodeHistory = 0
	default:
		e.cfg.TrienodeHistory = int64(e.cfg.StateHistory) // equal limits: equal tails
	}
	maxDiffLayers = e.maxLayers
	dir, err := os.MkdirTemp(c18TempRoot, "c18")
	if err != nil {
		rt.Fatalf("VERIF-HARNESS-BUG: mkdir: %v", err)
	}
	e.dir = dir
	defer os.RemoveAll(dir)
	e.line = []common.Hash{types.EmptyRootHash}

	// "late indexing" scenarios write a prefix of the history with indexing off
	late := rapid.IntRange(0, 5).Draw(rt, "lateIndexing") == 0
	e.open(!late, true)
	defer func() { e.db.Close() }()
	if late {
		e.extend(rapid.IntRange(3, 25).Draw(rt, "latePrefix"))
		e.commit()
		e.observe("indexing disabled")
		if rapid.Bool().Draw(rt, "latePartial") {
			e.partialIndex()
			// the index is complete now: continue with forced indexers
			e.reopen(true, false, 0)
			c.Class("late-indexing:white-box")
		} else {
			e.reopen(true, true, 400*time.Millisecond)
			if !e.inited() {
				e.observe("late indexing, initialiser busy")
				e.stopped = true
			}
			c.Class("late-indexing:real-initer")
		}
	}
	steps := rapid.IntRange(4, 20).Draw(rt, "steps")
	if vs.Thorough() {
		steps = rapid.IntRange(4, 50).Draw(rt, "stepsThorough")
	}
	for i := 0; i < steps && !e.stopped; i++ {
		e.extend(rapid.IntRange(1, 6).Draw(rt, "extend"))
		switch k := rapid.IntRange(0, 19).Draw(rt, "op"); {
		case k < 5:
			e.observe(fmt.Sprintf("step %d", i))
		case k < 9:
			if e.rollback() {
				if rapid.Bool().Draw(rt, "observeAfterRollback") {
					e.observe(fmt.Sprintf("step %d after rollback", i))
				}
			}
		case k < 12:
			if e.pruneIndex() && rapid.Bool().Draw(rt, "observeAfterPrune") {
				e.observe(fmt.Sprintf("step %d after index pruning", i))
			}
		case k < 14:
			e.commit()
		case k < 16:
			e.hold()
		case k < 17:
			e.reopen(true, true, 400*time.Millisecond)
			if !e.inited() {
				e.observe(fmt.Sprintf("step %d after reopen, initialiser busy", i))
				e.stopped = true
			}
		}
	}
	if !e.stopped {
		e.observe("end")
		if e.pruneIndex() {
			e.observe("end after index pruning")
		}
	}

	for i := 0; i < e.excluded; i++ {
		st.Excluded()
	}
	c.Classf("cfg:history=%d", e.cfg.StateHistory)
	if e.cfg.TrienodeHistory >= 0 {
		c.Classf("cfg:trienode-history(checkpoint=%d)", e.cfg.FullValueCheckpoint)
	}
	if e.rolledBack {
		c.Class("has-rollback+fork")
	}
	if e.pruned {
		c.Class("has-index-pruning")
	}
	if st, _ := e.tails(); st > 0 {
		c.Class("has-pruned-tail")
	}
	if e.heldReads > 0 {
		c.Class("has-held-reader")
	}
	if e.stopped {
		c.Class("stopped:initialiser-busy")
	}
	nt := e.farReads > 0 || e.afterRollback > 0 || e.prunedTailReads > 0
	c.NonTrivial(nt, fmt.Sprintf("%s|%x|%d|%d|%d", e.config(), e.head(), e.reads, e.refused, len(e.dead)))
	if e.farReads > 0 {
		c.Class("reads:two-or-more-states-below-disk")
	}
	if e.afterRollback > 0 {
		c.Class("reads:after-rollback-and-re-extension")
	}
	if e.prunedTailReads > 0 {
		c.Class("reads:at-pruned-tail")
	}
	if e.nodeReads > 0 {
		c.Class("reads:trie-nodes")
	}
	c.Sample(nt, func() any {
		return map[string]any{"config": e.config(), "transitions": len(e.line) - 1, "rolled_back_roots": len(e.dead), "state_reads": e.reads,
			"node_reads": e.nodeReads, "refused_roots": e.refused, "reads_far_below_disk": e.farReads, "reads_after_rollback": e.afterRollback, "reads_at_pruned_tail": e.prunedTailReads}
	})
}

func TestVerifC18Historic(t *testing.T) {
	st := vs.New("C18", t)
	c18SetupTemp(t)
	defer func(old int) { maxDiffLayers = old }(maxDiffLayers)
	vs.Check(t, 1, func(rt *rapid.T) { c18Scenario(rt, st) })
}

// c18HotScenario: "hot node" histories. 1..3 contracts have one hot slot that is
// rewritten by EVERY transition (their storage-root node, the hot leaf and the
// account-trie nodes above the contract get one mutation record per history) and
// cold slots / cold neighbour accounts that are rewritten rarely, so that a sibling
// below the same ancestors changes many records after a given state. Trienode
// history is always on (retained completely), the full-value checkpoint rate is
// drawn from the whole legal range, and EVERY retained root is read back through
// HistoricReader and HistoricNodeReader (no sampling of roots).
func c18HotScenario(rt *rapid.T, st *vs.S) {
	c := st.Case()
	e := &c18Env{rt: rt, c: c, st: st, w: newPdbWorld(), kv: memorydb.New()}
	e.maxLayers = rapid.SampledFrom([]int{1, 2, 4}).Draw(rt, "maxDiffLayers")
	e.cfg = Config{
		StateHistory:        0,
		TrienodeHistory:     0,
		FullValueCheckpoint: rapid.SampledFrom([]uint32{2, 3, 4, 8, 8, 16}).Draw(rt, "fullValueCheckpoint"),
		WriteBufferSize:     rapid.SampledFrom([]int{0, 1024, 64 * 1024}).Draw(rt, "writeBuffer"),
		NoAsyncFlush:        true,
		NoAsyncGeneration:   true,
		TrieCleanSize:       rapid.SampledFrom([]int{0, 64 * 1024}).Draw(rt, "cleanCache"),
	}
	e.cfg.StateCleanSize = e.cfg.TrieCleanSize
	maxDiffLayers = e.maxLayers
	dir, err := os.MkdirTemp(c18TempRoot, "c18hot")
	if err != nil {
		rt.Fatalf("VERIF-HARNESS-BUG: mkdir: %v", err)
	}
	e.dir = dir
	defer os.RemoveAll(dir)
	e.line = []common.Hash{types.EmptyRootHash}
	e.open(true, true)
	defer func() { e.db.Close() }()

	type hotContract struct{ a, slot, val int }
	var hot []*hotContract
	isHot := map[int]bool{}
	for _, a := range rapid.SliceOfNDistinct(rapid.IntRange(0, pdbNumAddrs-1), 1, 3, rapid.ID[int]).Draw(rt, "hotContracts") {
		hot = append(hot, &hotContract{a: a, slot: rapid.IntRange(0, pdbNumSlots-1).Draw(rt, "hotSlot")})
		isHot[a] = true
	}
	coldEvery := rapid.IntRange(3, 25).Draw(rt, "coldEvery")
	n := rapid.IntRange(40, 120).Draw(rt, "transitions")
	if vs.Thorough() {
		n = rapid.IntRange(40, 250).Draw(rt, "transitionsThorough")
	}
	rollbackAt := -1
	if rapid.IntRange(0, 3).Draw(rt, "withRollback") == 0 {
		rollbackAt = rapid.IntRange(10, n-1).Draw(rt, "rollbackAt")
	}
	coldWrites := 0
	for i := 0; i < n; i++ {
		var ops []pdbOp
		if len(e.line) == 1 {
			// first transition: the contracts with their hot slot and 2..5 cold slots, neighbours
			for a := 0; a < pdbNumAddrs; a++ {
				if isHot[a] || rapid.Bool().Draw(rt, "neighbour") {
					ops = append(ops, pdbOp{pdbOpCreate, a, 0, rapid.IntRange(0, len(pdbValues)-1).Draw(rt, "val")})
				}
			}
			for _, h := range hot {
				for s, m := 0, rapid.IntRange(2, pdbNumSlots-1).Draw(rt, "coldSlots"); s < pdbNumSlots && m > 0; s++ {
					if s != h.slot {
						ops = append(ops, pdbOp{pdbOpSetSlot, h.a, s, rapid.IntRange(0, len(pdbValues)-1).Draw(rt, "val")})
						m--
					}
				}
			}
		}
		for _, h := range hot {
			h.val = (h.val + 1 + rapid.IntRange(0, len(pdbValues)-2).Draw(rt, "hotStep")) % len(pdbValues) // always a different value
			ops = append(ops, pdbOp{pdbOpSetSlot, h.a, h.slot, h.val})
			if rapid.IntRange(1, coldEvery).Draw(rt, "cold") == 1 {
				s := (h.slot + rapid.IntRange(1, pdbNumSlots-1).Draw(rt, "coldSlot")) % pdbNumSlots
				kind := pdbOpSetSlot
				if rapid.IntRange(0, 5).Draw(rt, "coldDel") == 0 {
					kind = pdbOpDelSlot
				}
				ops = append(ops, pdbOp{kind, h.a, s, rapid.IntRange(0, len(pdbValues)-1).Draw(rt, "val")})
				coldWrites++
			}
		}
		if rapid.IntRange(1, coldEvery).Draw(rt, "extra") == 1 {
			// an arbitrary op on the rest of the world; the hot contracts stay alive
			for _, o := range pdbDrawOps(rt, e.w.State(e.head()), 1) {
				if o.Kind == pdbOpDestruct && isHot[o.A%pdbNumAddrs] {
					continue
				}
				ops = append(ops, o)
			}
		}
		head := e.head()
		tr := e.w.Transition(head, e.ballast(ops, false), e.w.NextSeq(), rapid.Bool().Draw(rt, "rawKeys"))
		id := len(e.line)
		if err := e.db.Update(tr.Root, tr.Parent, uint64(id), tr.Nodes, tr.States); err != nil {
			e.fail("Update #%d (%x<-%x) failed: %v", id, tr.Root, tr.Parent, err)
		}
		e.line = append(e.line, tr.Root)
		e.trace = append(e.trace, fmt.Sprintf("#%d update %x %v raw=%v -> disk id %d", id, tr.Root[:4], ops, tr.Raw, e.db.tree.bottom().stateID()))
		if i == rollbackAt {
			e.rollback()
		}
	}
	if rapid.Bool().Draw(rt, "commit") {
		e.commit()
	}
	// every retained root, no sampling
	disk := int(e.db.tree.bottom().stateID())
	if e.db.tree.bottom().rootHash() != e.line[disk] {
		e.fail("disk layer root %x is not the canonical root of id %d", e.db.tree.bottom().rootHash(), disk)
	}
	for j := 0; j < disk; j++ {
		what := fmt.Sprintf("hot history, id %d of disk id %d", j, disk)
		nr, err := e.db.HistoricNodeReader(e.line[j])
		if err != nil {
			e.fail("%s: HistoricNodeReader failed: %v", what, err)
		}
		e.verifyNodes(nr, e.line[j], what)
		hr, err := e.db.HistoricReader(e.line[j])
		if err != nil {
			e.fail("%s: HistoricReader failed: %v", what, err)
		}
		before := e.reads
		e.verifyState(hr, e.line[j], what)
		if disk-j >= 2 {
			e.farReads += e.reads - before
		}
		if e.rolledBack {
			e.afterRollback += e.reads - before
		}
	}
	e.refusedState(e.line[disk], "disk layer root")
	e.refusedNodes(e.line[disk], "disk layer root")
	for k, r := range e.dead {
		if k >= len(e.dead)-4 {
			e.refusedState(r, "root of a rolled-back fork")
			e.refusedNodes(r, "root of a rolled-back fork")
		}
	}
	for i := 0; i < e.excluded; i++ {
		st.Excluded()
	}
	c.Class("hot-node-history")
	c.Classf("hot:checkpoint=%d", e.cfg.FullValueCheckpoint)
	c.Classf("hot:contracts=%d", len(hot))
	switch {
	case disk < 60:
		c.Class("hot:retained-roots<60")
	case disk < 100:
		c.Class("hot:retained-roots=60..99")
	default:
		c.Class("hot:retained-roots>=100")
	}
	if coldWrites > 0 {
		c.Class("hot:has-cold-sibling-writes")
	}
	if e.rolledBack {
		c.Class("has-rollback+fork")
	}
	c.Class("reads:trie-nodes")
	nt := e.farReads > 0 && e.nodeReads > 0
	c.NonTrivial(nt, fmt.Sprintf("hot|%s|%x|%d|%d|%d", e.config(), e.head(), e.reads, e.nodeReads, len(e.dead)))
	c.Sample(nt, func() any {
		return map[string]any{"config": e.config(), "hot_contracts": len(hot), "transitions": len(e.line) - 1, "retained_roots_read": disk, "cold_sibling_writes": coldWrites,
			"rolled_back_roots": len(e.dead), "state_reads": e.reads, "node_reads": e.nodeReads, "refused_roots": e.refused}
	})
}

// TestVerifC18HistoricHot: hot-node histories (see c18HotScenario), a small share of the budget.
func TestVerifC18HistoricHot(t *testing.T) {
	st := vs.New("C18", t)
	c18SetupTemp(t)
	defer func(old int) { maxDiffLayers = old }(maxDiffLayers)
	vs.Check(t, 0.08, func(rt *rapid.T) { c18HotScenario(rt, st) })
}

// TestVerifC18Repro replays the minimal scenario of the known finding written up in
// notes/C18.md. Skipped unless VERIF_C18_REPRO is set (documentation that runs, not
// part of the check): it FAILS while the behaviour is present.
func TestVerifC18Repro(t *testing.T) {
	if os.Getenv("VERIF_C18_REPRO") == "" {
		t.Skip("set VERIF_C18_REPRO=1 to run the reproduction")
	}
	defer func(old int) { maxDiffLayers = old }(maxDiffLayers)
	maxDiffLayers = 1
	cfg := &Config{StateHistory: 0, TrienodeHistory: -1, EnableStateIndexing: true, NoHistoryIndexDelay: true, NoAsyncFlush: true, NoAsyncGeneration: true}
	db := New(&c18Disk{Database: rawdb.NewDatabase(memorydb.New()), dir: t.TempDir()}, cfg, false)
	defer db.Close()
	for deadline := time.Now().Add(40 * time.Second); !db.stateIndexer.inited(); time.Sleep(20 * time.Millisecond) {
		if time.Now().After(deadline) {
			t.Skip("VERIF-INCONCLUSIVE: the index initialiser did not finish in 40 s")
		}
	}
	w := newPdbWorld()
	head := types.EmptyRootHash
	update := func(id int) error {
		tr := w.Transition(head, []pdbOp{{pdbOpCreate, id % pdbNumAddrs, 0, 1}, {pdbOpCreate, (id + 1) % pdbNumAddrs, 0, 2}}, w.NextSeq(), false)
		if err := db.Update(tr.Root, tr.Parent, uint64(id), tr.Nodes, tr.States); err != nil {
			return err
		}
		head = tr.Root
		return nil
	}
	for id := 1; id <= 2; id++ { // disk layer id 1, history 1 written and indexed
		if err := update(id); err != nil {
			t.Fatalf("update %d: %v", id, err)
		}
	}
	if err := db.Recover(types.EmptyRootHash); err != nil { // rollback to state id 0
		t.Fatalf("recover: %v", err)
	}
	head = types.EmptyRootHash
	for id := 1; id <= 2; id++ {
		if err := update(id); err != nil {
			t.Fatalf("after Recover(state id 0) the history cannot be continued: update %d: %v (index metadata: %v)", id, err, loadIndexMetadata(db.diskdb, typeStateHistory))
		}
	}
}
