//go:build verif

package pathdb

// C20: path database crash recovery (fault enumeration).
//
// One rapid case = one live history on a database whose key-value store is a
// recording wrapper (verifx/crashkv over memorydb) and whose state / trienode
// freezers are real file-backed freezers wrapped after New by verifx/recfreezer
// (white-box assignment of db.stateFreezer / db.trienodeFreezer). Both wrappers
// append to ONE event log, so the history is a sequence of durable effects:
// key-value puts, atomic batches, SyncKeyValue, and freezer operations
// (append / truncate head / truncate tail / sync / close) with the directory
// observed after each of them (kit/crashfs).
//
// Operations: Update (linear history from pdbWorld), Commit, Recover(target),
// Journal+Close followed by a reopen on the same stores (next session).
//
// Every position of the event log is a crash point. A crash image is
//   - key-value store: replay of a log prefix n with lastSync <= n <= crash point
//     (batches atomic; unsynced writes kept or lost),
//   - freezer directory: the files as observed at the crash point, unsynced data
//     kept / lost / zero-filled / cut at random offsets (recfreezer.Point.Cuts,
//     the image family of C24 which respects the flushOffset contract).
// The image is reopened with pathdb.New and checked against the model (see
// c20Eval): no log.Crit / panic; the disk layer is a state the run had reached and
// is either the persisted state of the key-value image or the disk layer of a
// journal that matches it; trie nodes and flat state of the effective persistent
// view equal the model exactly; history freezers aligned with the disk layer and
// linked along the ancestors of the disk root; reads agree; rollback to the
// nearest / oldest recoverable root works and reads as the model; the history can
// be continued and committed.
//
// Owned schedule (seeded C20-A): with asynchronous flushing (the production
// default) the key-value store handed to pathdb is additionally wrapped by c20Gate.
// While armed, the background flush's batch.Write is parked (bounded) BEFORE it
// touches the store or the log; the harness then drives one more Update (the commit
// of the next layer: history write, tail truncation) and lets the write through.
// The effects of that Update are logged in front of the flush batch, so the crash
// points "next layer committed while the previous flush had not landed" are in the
// log like any other and are always evaluated. No source hook; a bound that expires
// only loses the window. TestVerifC20FlushWindow is the profile that concentrates on
// it (always async, finite history limits, write buffers that aggregate several layers).

import (
	"bytes"
	stdctx "context"
	"encoding/binary"
	"fmt"
	"log/slog"
	"os"
	"runtime/debug"
	"sort"
	"strings"
	"sync"
	"testing"
	"time"

	"github.com/ethereum/go-ethereum/common"
	"github.com/ethereum/go-ethereum/core/rawdb"
	"github.com/ethereum/go-ethereum/core/types"
	"github.com/ethereum/go-ethereum/crypto"
	"github.com/ethereum/go-ethereum/ethdb"
	"github.com/ethereum/go-ethereum/ethdb/memorydb"
	"github.com/ethereum/go-ethereum/internal/verifx/crashkv"
	"github.com/ethereum/go-ethereum/internal/verifx/recfreezer"
	"github.com/ethereum/go-ethereum/log"
	"github.com/ethereum/go-ethereum/rlp"
	"pgregory.net/rapid"
	"verif.local/kit/crashfs"
	vs "verif.local/kit/stat"
)

// ---------------------------------------------------------------- plumbing

// c20Disk is an ethdb.Database without chain freezer that still tells pathdb where
// to put its own freezers.
type c20Disk struct {
	ethdb.Database
	dir string
}

func (d *c20Disk) AncientDatadir() (string, error) { return d.dir, nil }

// c20Gate wraps the recording key-value store handed to pathdb.
//
//   - Every write (put, delete, batch, sync) is applied to the store AND appended to
//     the event log under the write lock, reads take the read lock: nobody can observe
//     a write that is not yet in the log, so the log order is causal even while the
//     flush goroutine runs next to the committing goroutine (a tail truncation that was
//     decided on a persistent state id is logged after the batch that wrote that id).
//   - While armed, a batch.Write parks before doing anything until release, or 3 s
//     (never a deadlock, whatever the tree does). It models a slow disk during the
//     background buffer flush.
type c20Gate struct {
	ethdb.KeyValueStore
	rw sync.RWMutex

	mu     sync.Mutex
	armed  bool
	open   chan struct{} // closed on release
	parked chan struct{} // closed when a batch write parked on the current gate
	isPark bool
	held   int
	by     map[string]int
}

func newC20Gate(kv ethdb.KeyValueStore) *c20Gate {
	return &c20Gate{KeyValueStore: kv, by: map[string]int{}}
}

func (g *c20Gate) arm() {
	g.mu.Lock()
	defer g.mu.Unlock()
	g.armed, g.open, g.parked, g.isPark = true, make(chan struct{}), make(chan struct{}), false
}

func (g *c20Gate) release(by string) {
	g.mu.Lock()
	defer g.mu.Unlock()
	if g.armed {
		g.armed = false
		if g.isPark {
			g.by[by]++
		}
		close(g.open)
	}
}

func (g *c20Gate) parkedCh() chan struct{} {
	g.mu.Lock()
	defer g.mu.Unlock()
	return g.parked
}

func (g *c20Gate) Has(key []byte) (bool, error) {
	g.rw.RLock()
	defer g.rw.RUnlock()
	return g.KeyValueStore.Has(key)
}

func (g *c20Gate) Get(key []byte) ([]byte, error) {
	g.rw.RLock()
	defer g.rw.RUnlock()
	return g.KeyValueStore.Get(key)
}

func (g *c20Gate) NewIterator(prefix, start []byte) ethdb.Iterator {
	g.rw.RLock()
	defer g.rw.RUnlock()
	return g.KeyValueStore.NewIterator(prefix, start)
}

func (g *c20Gate) Put(key, value []byte) error {
	g.rw.Lock()
	defer g.rw.Unlock()
	return g.KeyValueStore.Put(key, value)
}

func (g *c20Gate) Delete(key []byte) error {
	g.rw.Lock()
	defer g.rw.Unlock()
	return g.KeyValueStore.Delete(key)
}

func (g *c20Gate) DeleteRange(start, end []byte) error {
	g.rw.Lock()
	defer g.rw.Unlock()
	return g.KeyValueStore.DeleteRange(start, end)
}

func (g *c20Gate) SyncKeyValue() error {
	g.rw.Lock()
	defer g.rw.Unlock()
	return g.KeyValueStore.SyncKeyValue()
}

func (g *c20Gate) NewBatch() ethdb.Batch {
	return &c20GateBatch{Batch: g.KeyValueStore.NewBatch(), g: g}
}

func (g *c20Gate) NewBatchWithSize(size int) ethdb.Batch {
	return &c20GateBatch{Batch: g.KeyValueStore.NewBatchWithSize(size), g: g}
}

type c20GateBatch struct {
	ethdb.Batch
	g *c20Gate
}

func (b *c20GateBatch) Write() error {
	g := b.g
	g.mu.Lock()
	ch, armed := g.open, g.armed
	if armed {
		g.held++
		if !g.isPark {
			g.isPark = true
			close(g.parked)
		}
	}
	g.mu.Unlock()
	if armed {
		select {
		case <-ch:
		case <-time.After(3 * time.Second):
			g.release("bound")
		}
	}
	g.rw.Lock()
	defer g.rw.Unlock()
	return b.Batch.Write()
}

// log.Crit would os.Exit(1); turn it into a panic that names the message.
type c20CritHandler struct{}

type c20Crit struct{ msg string }

func (c20CritHandler) Enabled(_ stdctx.Context, l slog.Level) bool { return l >= log.LevelCrit }
func (c20CritHandler) Handle(_ stdctx.Context, r slog.Record) error {
	if r.Level >= log.LevelCrit {
		var sb strings.Builder
		sb.WriteString(r.Message)
		r.Attrs(func(a slog.Attr) bool { fmt.Fprintf(&sb, " %s=%v", a.Key, a.Value); return true })
		panic(c20Crit{sb.String()})
	}
	return nil
}
func (h c20CritHandler) WithAttrs([]slog.Attr) slog.Handler { return h }
func (h c20CritHandler) WithGroup(string) slog.Handler      { return h }

// c20TempRoot: private tmpfs directory when available (the freezer fsyncs on every
// open/close/repair; durability is modelled by the harness, not by the device).
var c20TempRoot string

func c20SetupTemp(t *testing.T) {
	const shm = "/dev/shm"
	if fi, err := os.Stat(shm); err != nil || !fi.IsDir() {
		return
	}
	if ents, err := os.ReadDir(shm); err == nil {
		for _, e := range ents {
			if !strings.HasPrefix(e.Name(), "verif-c20-") {
				continue
			}
			if info, err := e.Info(); err == nil && time.Since(info.ModTime()) > time.Hour {
				os.RemoveAll(shm + "/" + e.Name())
			}
		}
	}
	dir, err := os.MkdirTemp(shm, "verif-c20-")
	if err != nil {
		return
	}
	c20TempRoot = dir
	t.Cleanup(func() { os.RemoveAll(dir); c20TempRoot = "" })
}

// Class labels of known-finding signatures (see notes/C20.md).
const (
	c20Test               = "TestVerifC20Crash"
	c20KnownLossBelowTail = "kv-loss-below-history-tail"
	c20KnownStaleJournal  = "stale-journal-after-rollback"
	c20KnownTrienodeTail  = "rollback-below-trienode-history-tail"
)

// c20RollbackFloor returns the lowest state id a rollback may target: the state
// history tail, raised to the trienode history tail while the known finding about
// rollbacks below that tail is listed (excluded by construction, counted).
func c20RollbackFloor(db *Database) (floor, stateTail uint64, err error) {
	stateTail, err = db.stateFreezer.Tail(rawdb.DefaultHistoryGroup)
	if err != nil {
		return 0, 0, err
	}
	floor = stateTail
	if db.trienodeFreezer != nil {
		tt, err := db.trienodeFreezer.Tail(rawdb.DefaultHistoryGroup)
		if err != nil {
			return 0, 0, err
		}
		if tt > floor && vs.Known(c20Test, c20KnownTrienodeTail) {
			floor = tt
		}
	}
	return floor, stateTail, nil
}

// ---------------------------------------------------------------- live run

type c20Span struct {
	kind       string
	begin, end int // log indices of the begin / end marks
}

type c20Journal struct {
	at   int // log index after which the journal is in the key-value store
	head common.Hash
}

type c20Run struct {
	rt        *rapid.T
	w         *pdbWorld
	cfg       Config
	maxLayers int
	dir       string
	log       *crashkv.Log
	kv        *crashkv.Store
	gate      *c20Gate
	rec       *recfreezer.Recorder
	db        *Database
	rootID    map[common.Hash]int
	parent    map[common.Hash]common.Hash
	head      common.Hash
	spans     []c20Span
	journals  []c20Journal
	trace     []string
	nOps      map[string]int
	st        *vs.S

	// owned flush windows (async flush only)
	armEvery   int      // an Update is armed when a drawn number in [0,armEvery) is 0; 0 = never
	maxWindows int      // windows per history
	windows    [][2]int // log index range (lo, hi]: events logged while the flush's batch write was parked
	winStats   map[string]int
}

func (r *c20Run) config() string {
	return fmt.Sprintf("maxDiffLayers=%d buffer=%d noAsyncFlush=%v stateHistory=%d trienodeHistory=%d checkpoint=%d cleanCache=%d",
		r.maxLayers, r.cfg.WriteBufferSize, r.cfg.NoAsyncFlush, r.cfg.StateHistory, r.cfg.TrienodeHistory, r.cfg.FullValueCheckpoint, r.cfg.TrieCleanSize)
}

func (r *c20Run) fail(format string, a ...any) {
	r.rt.Fatalf("%s\nconfig: %s\nhistory:\n  %s", fmt.Sprintf(format, a...), r.config(), strings.Join(r.trace, "\n  "))
}

// c20Guard runs fn and converts its error or a panic (incl. log.Crit) into a message
// ("" = success). fn must not call rapid's Fatalf (it unwinds by panicking).
func c20Guard(fn func() error) (msg string) {
	defer func() {
		if x := recover(); x != nil {
			if c, ok := x.(c20Crit); ok {
				msg = "log.Crit: " + c.msg
			} else {
				msg = fmt.Sprintf("panic: %v\n%s", x, debug.Stack())
			}
		}
	}()
	if err := fn(); err != nil {
		return "error: " + err.Error()
	}
	return ""
}

func (r *c20Run) open() {
	b := r.log.Mark("open:begin")
	cfg := r.cfg
	if msg := c20Guard(func() error {
		r.db = New(&c20Disk{Database: rawdb.NewDatabase(r.gate), dir: r.dir}, &cfg, false)
		return nil
	}); msg != "" {
		r.fail("opening the live database failed: %s", msg)
	}
	r.rec.Barrier("open:end", "")
	r.spans = append(r.spans, c20Span{"open", b, r.log.Len() - 1})
	if r.db.stateFreezer == nil {
		r.fail("VERIF-HARNESS-BUG: no state freezer")
	}
	r.db.stateFreezer = r.rec.Wrap(r.db.stateFreezer, "state")
	if r.db.trienodeFreezer != nil {
		r.db.trienodeFreezer = r.rec.Wrap(r.db.trienodeFreezer, "trienode")
	}
	r.trace = append(r.trace, fmt.Sprintf("[%d] open -> disk layer %x/id %d, %d layers", r.log.Len(), r.db.tree.bottom().rootHash().Bytes()[:4], r.db.tree.bottom().stateID(), r.db.tree.len()))
}

func (r *c20Run) span(kind string, fn func()) {
	b := r.log.Mark("op:" + kind + ":begin")
	fn()
	if err := r.db.tree.bottom().waitFlush(); err != nil {
		r.fail("background flush failed after %s: %v", kind, err)
	}
	e := r.log.Mark("op:" + kind + ":end")
	r.spans = append(r.spans, c20Span{kind, b, e})
	r.nOps[kind]++
}

// drawTransition draws the next transition on top of the head and registers it in the model.
func (r *c20Run) drawTransition() (*pdbTransition, int, []pdbOp) {
	rt := r.rt
	ops := pdbDrawOps(rt, r.w.State(r.head), rapid.IntRange(1, 4).Draw(rt, "nops"))
	tr := r.w.Transition(r.head, ops, r.w.NextSeq(), rapid.Bool().Draw(rt, "rawKeys"))
	id := r.rootID[r.head] + 1
	r.rootID[tr.Root], r.parent[tr.Root] = id, r.head
	r.head = tr.Root
	return tr, id, ops
}

func (r *c20Run) opUpdate() {
	if !r.cfg.NoAsyncFlush && r.armEvery > 0 && len(r.windows) < r.maxWindows &&
		rapid.IntRange(0, r.armEvery-1).Draw(r.rt, "armFlushWindow") == 0 {
		r.opUpdateWindow()
		return
	}
	tr, id, ops := r.drawTransition()
	r.span("update", func() {
		if msg := c20Guard(func() error { return r.db.Update(tr.Root, tr.Parent, uint64(id), tr.Nodes, tr.States) }); msg != "" {
			r.fail("Update #%d (%x<-%x): %s", id, tr.Root, tr.Parent, msg)
		}
	})
	r.trace = append(r.trace, fmt.Sprintf("[%d] update #%d %x %v raw=%v -> disk id %d", r.log.Len(), id, tr.Root[:4], ops, tr.Raw, r.db.tree.bottom().stateID()))
}

// opUpdateWindow is an Update with the gate armed. If that Update schedules a
// background flush, the flush's batch write parks in the gate; one more Update (the
// commit of the next layer) is then driven on a second goroutine until it returned
// or came to rest (it may legitimately wait for the flush in flight), the events it
// produced are remembered as a flush window and the write is let through. All
// waits are bounded; an expired bound only means that the window is lost.
func (r *c20Run) opUpdateWindow() {
	tr, id, ops := r.drawTransition()
	b := r.log.Mark("op:update:begin")
	prev := r.db.tree.bottom().frozen
	r.gate.arm()
	parkedCh := r.gate.parkedCh()
	if msg := c20Guard(func() error { return r.db.Update(tr.Root, tr.Parent, uint64(id), tr.Nodes, tr.States) }); msg != "" {
		r.gate.release("error")
		r.fail("Update #%d (%x<-%x): %s", id, tr.Root, tr.Parent, msg)
	}
	finish := func(kind string) {
		if err := r.db.tree.bottom().waitFlush(); err != nil {
			r.fail("background flush failed after %s: %v", kind, err)
		}
		e := r.log.Mark("op:" + kind + ":end")
		r.spans = append(r.spans, c20Span{kind, b, e})
		r.nOps[kind]++
	}
	frozen := r.db.tree.bottom().frozen
	parked := false
	if frozen != nil && frozen != prev {
		// a flush was scheduled: wait until its batch write parks (or it finished)
		select {
		case <-parkedCh:
			parked = true
		case <-frozen.done:
		case <-time.After(2 * time.Second):
		}
	}
	if !parked {
		r.gate.release("no-flush")
		if frozen != nil && frozen != prev {
			r.winStats["flush-not-parked"]++
		}
		finish("update")
		r.trace = append(r.trace, fmt.Sprintf("[%d] update #%d %x %v raw=%v (armed, no window) -> disk id %d", r.log.Len(), id, tr.Root[:4], ops, tr.Raw, r.db.tree.bottom().stateID()))
		return
	}
	// the flush of the frozen buffer hangs in its batch write
	lo := r.log.Len()
	tr2, id2, ops2 := r.drawTransition()
	res := make(chan string, 1)
	go func() {
		res <- c20Guard(func() error { return r.db.Update(tr2.Root, tr2.Parent, uint64(id2), tr2.Nodes, tr2.States) })
	}()
	var (
		msg      string
		returned bool
		start    = time.Now()
		lastLen  = lo
		lastMove = start
	)
wait:
	for {
		select {
		case msg = <-res:
			returned = true
			break wait
		case <-time.After(time.Millisecond):
		}
		now := time.Now()
		if n := r.log.Len(); n != lastLen {
			lastLen, lastMove = n, now
		}
		// at rest: it logged something and nothing moved for 25 ms, or nothing at all for 300 ms
		if (lastLen > lo && now.Sub(lastMove) > 25*time.Millisecond) || now.Sub(start) > 300*time.Millisecond {
			break wait
		}
	}
	hi := r.log.Len()
	r.gate.release("harness")
	if !returned {
		select {
		case msg = <-res:
		case <-time.After(60 * time.Second):
			r.rt.Fatalf("VERIF-INCONCLUSIVE: Update #%d did not return within 60 s after the parked flush was released", id2)
		}
	}
	if msg != "" {
		r.fail("Update #%d (%x<-%x) while the flush of id %d was in flight: %s", id2, tr2.Root, tr2.Parent, id, msg)
	}
	r.windows = append(r.windows, [2]int{lo, hi})
	if returned {
		r.winStats["next-update-returned"]++
	} else {
		r.winStats["next-update-waited-for-flush"]++
	}
	finish("flushwindow")
	r.trace = append(r.trace, fmt.Sprintf("[%d] update #%d %x %v raw=%v; flush parked at event %d; update #%d %x %v raw=%v (returned before release: %v); released at event %d -> disk id %d",
		r.log.Len(), id, tr.Root[:4], ops, tr.Raw, lo, id2, tr2.Root[:4], ops2, tr2.Raw, returned, hi, r.db.tree.bottom().stateID()))
}

func (r *c20Run) opCommit() bool {
	if r.db.tree.len() < 2 {
		return false
	}
	r.span("commit", func() {
		if msg := c20Guard(func() error { return r.db.Commit(r.head, false) }); msg != "" {
			r.fail("Commit(%x): %s", r.head, msg)
		}
	})
	r.trace = append(r.trace, fmt.Sprintf("[%d] commit -> disk id %d", r.log.Len(), r.db.tree.bottom().stateID()))
	return true
}

// ancestors returns anc[j] = root with id j on the parent chain of root, for j in [lo, id(root)].
func (r *c20Run) ancestors(root common.Hash, lo int) map[int]common.Hash {
	anc := map[int]common.Hash{}
	for cur, j := root, r.rootID[root]; j >= lo; j-- {
		anc[j] = cur
		if j == 0 {
			break
		}
		cur = r.parent[cur]
	}
	return anc
}

func (r *c20Run) opRecover() bool {
	rt := r.rt
	dl := r.db.tree.bottom()
	tail, stateTail, err := c20RollbackFloor(r.db)
	if err != nil {
		r.fail("freezer tail: %v", err)
	}
	if tail > stateTail {
		r.st.Excluded() // rollback targets below the trienode history tail are not drawn (known finding)
	}
	id := int(dl.stateID())
	if id == 0 || int(tail) >= id {
		return false
	}
	// mostly shallow rollbacks, sometimes down to the oldest retained history
	var tgt int
	switch rapid.IntRange(0, 5).Draw(rt, "recoverKind") {
	case 0:
		tgt = int(tail)
	case 1, 2:
		tgt = id - 1
	default:
		tgt = rapid.IntRange(max(int(tail), id-6), id-1).Draw(rt, "recoverTarget")
	}
	root := r.ancestors(dl.rootHash(), tgt)[tgt]
	buffered := int(dl.buffer.layers)
	r.span("recover", func() {
		if msg := c20Guard(func() error {
			if !r.db.Recoverable(root) {
				return fmt.Errorf("Recoverable = false with disk id %d and history tail %d", id, tail)
			}
			return r.db.Recover(root)
		}); msg != "" {
			r.fail("Recover(root of id %d): %s", tgt, msg)
		}
	})
	if b := r.db.tree.bottom(); b.rootHash() != root || int(b.stateID()) != tgt || r.db.tree.len() != 1 {
		r.fail("after Recover(#%d) the tree has %d layers on disk layer %x/id %d", tgt, r.db.tree.len(), b.rootHash(), b.stateID())
	}
	r.head = root
	r.trace = append(r.trace, fmt.Sprintf("[%d] recover #%d -> #%d (buffered %d)", r.log.Len(), id, tgt, buffered))
	return true
}

func (r *c20Run) opJournal() {
	head := r.head
	r.span0("journal", func() {
		if msg := c20Guard(func() error {
			if err := r.db.Journal(head); err != nil {
				return fmt.Errorf("Journal: %w", err)
			}
			r.journals = append(r.journals, c20Journal{at: r.log.Len(), head: head})
			return r.db.Close()
		}); msg != "" {
			r.fail("Journal(%x)+Close: %s", head, msg)
		}
	})
	r.trace = append(r.trace, fmt.Sprintf("[%d] journal(%x)+close", r.log.Len(), head[:4]))
	r.open()
	// the clean reopen must restore the journaled head
	if r.db.tree.get(head) == nil {
		r.fail("clean reopen after Journal+Close lost the journaled head %x (disk layer %x/id %d, %d layers)", head, r.db.tree.bottom().rootHash(), r.db.tree.bottom().stateID(), r.db.tree.len())
	}
	if d := pdbVerifyReads(r.db, r.w, head); d != "" {
		r.fail("clean reopen after Journal+Close: %s", d)
	}
}

// span0 is span without waiting on the (closed) database.
func (r *c20Run) span0(kind string, fn func()) {
	b := r.log.Mark("op:" + kind + ":begin")
	fn()
	e := r.log.Mark("op:" + kind + ":end")
	r.spans = append(r.spans, c20Span{kind, b, e})
	r.nOps[kind]++
}

// c20Live runs one live history. Profile "" is the general one; profile "window"
// concentrates on owned flush windows: always asynchronous flushing, finite history
// limits and write buffers that aggregate several layers, mostly updates.
func c20Live(rt *rapid.T, st *vs.S, profile string) *c20Run {
	r := &c20Run{rt: rt, st: st, w: newPdbWorld(), rootID: map[common.Hash]int{}, parent: map[common.Hash]common.Hash{}, nOps: map[string]int{}, winStats: map[string]int{}}
	var (
		nops    int
		weights [3]int // cumulative op weights out of 20: update, commit, recover (rest: journal+reopen)
	)
	if profile == "window" {
		r.maxLayers = rapid.SampledFrom([]int{1, 1, 2, 4}).Draw(rt, "maxDiffLayers")
		r.cfg = Config{
			StateHistory:        rapid.SampledFrom([]uint64{0, 2, 3, 3, 5, 10}).Draw(rt, "stateHistory"),
			TrienodeHistory:     rapid.SampledFrom([]int64{-1, -1, -1, 0, 3, 5}).Draw(rt, "trienodeHistory"),
			FullValueCheckpoint: rapid.SampledFrom([]uint32{0, 8}).Draw(rt, "fullValueCheckpoint"),
			WriteBufferSize:     rapid.SampledFrom([]int{0, 1024, 8192, 1 << 20, 1 << 20}).Draw(rt, "writeBuffer"),
			NoAsyncFlush:        false,
			NoAsyncGeneration:   true,
			TrieCleanSize:       rapid.SampledFrom([]int{0, 64 * 1024}).Draw(rt, "cleanCache"),
		}
		r.armEvery, r.maxWindows = 2, 4
		maxOps := 30
		if vs.Thorough() {
			maxOps, r.maxWindows = 50, 8
		}
		nops = rapid.IntRange(8, maxOps).Draw(rt, "ops")
		weights = [3]int{15, 17, 19}
	} else {
		r.maxLayers = rapid.SampledFrom([]int{1, 1, 2, 4, 8, 128}).Draw(rt, "maxDiffLayers")
		r.cfg = Config{
			StateHistory:        rapid.SampledFrom([]uint64{0, 0, 3, 10}).Draw(rt, "stateHistory"),
			TrienodeHistory:     rapid.SampledFrom([]int64{-1, -1, 0, 5}).Draw(rt, "trienodeHistory"),
			FullValueCheckpoint: rapid.SampledFrom([]uint32{0, 8}).Draw(rt, "fullValueCheckpoint"),
			WriteBufferSize:     rapid.SampledFrom([]int{0, 0, 1024, 8192, 1 << 20}).Draw(rt, "writeBuffer"),
			NoAsyncFlush:        rapid.IntRange(0, 3).Draw(rt, "asyncFlush") != 0,
			NoAsyncGeneration:   true,
			TrieCleanSize:       rapid.SampledFrom([]int{0, 64 * 1024}).Draw(rt, "cleanCache"),
		}
		r.armEvery, r.maxWindows = 3, 2
		maxOps := 30
		if vs.Thorough() {
			maxOps, r.maxWindows = 60, 4
		}
		nops = rapid.IntRange(5, maxOps).Draw(rt, "ops")
		commitW := rapid.SampledFrom([]int{1, 3}).Draw(rt, "commitWeight")
		if r.maxLayers == 128 {
			commitW = 4 // otherwise nothing ever reaches the disk layer
		}
		weights = [3]int{12 - commitW, 12 + commitW, 18}
	}
	r.cfg.StateCleanSize = r.cfg.TrieCleanSize

	dir, err := os.MkdirTemp(c20TempRoot, "c20live")
	if err != nil {
		rt.Fatalf("VERIF-HARNESS-BUG: mkdir: %v", err)
	}
	r.dir = dir
	r.log = crashkv.NewLog()
	r.kv = crashkv.Wrap(memorydb.New(), r.log)
	r.gate = newC20Gate(r.kv)
	r.rec = recfreezer.NewRecorder(r.log, dir)
	r.head = types.EmptyRootHash
	r.rootID[r.head] = 0
	maxDiffLayers = r.maxLayers
	r.open()
	for i := 0; i < nops; i++ {
		switch k := rapid.IntRange(0, 19).Draw(rt, "op"); {
		case k < weights[0]:
			r.opUpdate()
		case k < weights[1]:
			if !r.opCommit() {
				r.opUpdate()
			}
		case k < weights[2]:
			if !r.opRecover() {
				r.opUpdate()
			}
		default:
			r.opJournal()
			// a rollback right after a restart (SetHead, deep reorg) is its own class
			if rapid.IntRange(0, 2).Draw(rt, "recoverAfterReopen") == 0 && r.opRecover() {
				i++
			}
		}
	}
	if err := r.rec.Err(); err != nil {
		rt.Fatalf("VERIF-HARNESS-BUG: %v", err)
	}
	return r
}

func (r *c20Run) closeLive() {
	if r.db != nil {
		c20Guard(func() error { return r.db.Close() })
	}
	os.RemoveAll(r.dir)
}

// ---------------------------------------------------------------- event log helpers

func c20IsEffect(e crashkv.Event) bool {
	if e.Kind != crashkv.Mark {
		return true
	}
	return strings.HasPrefix(e.Label, "fz:") || e.Label == "open:end"
}

func c20EventString(i int, e crashkv.Event) string {
	switch e.Kind {
	case crashkv.Mark:
		return fmt.Sprintf("%d:%s", i, e.Label)
	case crashkv.Batch:
		s := fmt.Sprintf("%d:batch(%d ops", i, len(e.Ops))
		for _, op := range e.Ops {
			if op.Kind == crashkv.Put && len(op.Value) == 8 && string(op.Key) == "LastStateID" {
				s += fmt.Sprintf(", persistent id %d", binary.BigEndian.Uint64(op.Value))
			}
		}
		return s + ")"
	case crashkv.Sync:
		return fmt.Sprintf("%d:syncKV", i)
	default:
		k := e.Ops[0].Key
		if len(k) > 12 {
			k = k[:12]
		}
		return fmt.Sprintf("%d:%s(%q.. %d bytes)", i, e.Kind, k, len(e.Ops[0].Value))
	}
}

func (r *c20Run) eventWindow(evs []crashkv.Event, upTo int) string {
	lo := max(0, upTo-25)
	var parts []string
	for i := lo; i < min(len(evs), upTo+6); i++ {
		s := c20EventString(i, evs[i])
		if i == upTo {
			s = "<<CRASH>> " + s
		}
		parts = append(parts, s)
	}
	if upTo >= len(evs) {
		parts = append(parts, "<<CRASH>>")
	}
	return strings.Join(parts, "\n    ")
}

// ---------------------------------------------------------------- oracle

type c20Image struct {
	crash int // crash index: Events[:crash] were issued
	n     int // key-value prefix
	mode  int // freezer image mode
	pt    *recfreezer.Point
	cuts  crashfs.Cuts
	img   *crashfs.Snapshot
}

type c20Outcome struct {
	skipped       string // known-finding class that excluded the image ("" = evaluated)
	journalLoaded bool
	lostHistories bool
	truncated     int
	diskID        int
	recovered     string
}

func c20JournalHeader(blob []byte) (ok bool, diskRoot, dlRoot common.Hash, dlID uint64) {
	if len(blob) == 0 {
		return false, common.Hash{}, common.Hash{}, 0
	}
	s := rlp.NewStream(bytes.NewReader(blob), 0)
	ver, err := s.Uint64()
	if err != nil || ver != journalVersion {
		return false, common.Hash{}, common.Hash{}, 0
	}
	if s.Decode(&diskRoot) != nil || s.Decode(&dlRoot) != nil || s.Decode(&dlID) != nil {
		return false, common.Hash{}, common.Hash{}, 0
	}
	return true, diskRoot, dlRoot, dlID
}

// c20Persistent compares the effective persistent state (key-value store overlaid
// with the disk layer's write buffer) with the model state at root. "" = equal.
func c20Persistent(db *Database, kv ethdb.KeyValueStore, w *pdbWorld, root common.Hash) string {
	dl := db.tree.bottom()
	if err := dl.waitFlush(); err != nil {
		return fmt.Sprintf("flush failed: %v", err)
	}
	if dl.rootHash() != root {
		return fmt.Sprintf("disk layer root is %x, expected %x", dl.rootHash(), root)
	}
	stored := rawdb.ReadPersistentStateID(kv)
	if stored+dl.buffer.layers != dl.stateID() {
		return fmt.Sprintf("persistent state id %d + %d buffered layers != disk layer id %d", stored, dl.buffer.layers, dl.stateID())
	}
	var (
		accounts = map[common.Hash][]byte{}
		slots    = map[[2]common.Hash][]byte{}
		nodes    = map[common.Hash]map[string][]byte{}
	)
	putNode := func(owner common.Hash, path string, blob []byte) {
		if len(blob) == 0 {
			delete(nodes[owner], path)
			return
		}
		if nodes[owner] == nil {
			nodes[owner] = map[string][]byte{}
		}
		nodes[owner][path] = blob
	}
	isPath := func(p []byte) bool {
		for _, b := range p {
			if b > 15 {
				return false
			}
		}
		return true
	}
	it := kv.NewIterator(nil, nil)
	for it.Next() {
		k, v := it.Key(), common.CopyBytes(it.Value())
		switch {
		case len(k) == 1+common.HashLength && k[0] == rawdb.SnapshotAccountPrefix[0]:
			accounts[common.BytesToHash(k[1:])] = v
		case len(k) == 1+2*common.HashLength && k[0] == rawdb.SnapshotStoragePrefix[0]:
			slots[[2]common.Hash{common.BytesToHash(k[1:33]), common.BytesToHash(k[33:])}] = v
		default:
			if ok, path := rawdb.ResolveAccountTrieNodeKey(k); ok && isPath(path) {
				putNode(common.Hash{}, string(path), v)
			} else if ok, owner, path := rawdb.ResolveStorageTrieNode(k); ok && isPath(path) {
				putNode(owner, string(path), v)
			}
		}
	}
	it.Release()
	for h, blob := range dl.buffer.states.accountData {
		if len(blob) == 0 {
			delete(accounts, h)
		} else {
			accounts[h] = blob
		}
	}
	for a, sub := range dl.buffer.states.storageData {
		for s, blob := range sub {
			if len(blob) == 0 {
				delete(slots, [2]common.Hash{a, s})
			} else {
				slots[[2]common.Hash{a, s}] = blob
			}
		}
	}
	for path, n := range dl.buffer.nodes.accountNodes {
		putNode(common.Hash{}, path, n.Blob)
	}
	for owner, sub := range dl.buffer.nodes.storageNodes {
		for path, n := range sub {
			putNode(owner, path, n.Blob)
		}
	}
	st := w.State(root)
	if st == nil {
		return fmt.Sprintf("root %x is unknown to the model", root)
	}
	wantSlots := 0
	for _, h := range st.SortedAccounts() {
		acc := st.Accts[h]
		if !bytes.Equal(accounts[h], acc.Slim) {
			return fmt.Sprintf("persistent account %x is %x, model %x", h, accounts[h], acc.Slim)
		}
		for _, s := range st.SortedSlots(h) {
			wantSlots++
			if v := acc.Storage[s]; !bytes.Equal(slots[[2]common.Hash{h, s}], v) {
				return fmt.Sprintf("persistent slot %x/%x is %x, model %x", h, s, slots[[2]common.Hash{h, s}], v)
			}
		}
	}
	if len(accounts) != len(st.Accts) {
		for h := range accounts {
			if st.Accts[h] == nil {
				return fmt.Sprintf("persistent state holds account %x which does not exist at %x", h, root)
			}
		}
	}
	if len(slots) != wantSlots {
		for k, v := range slots {
			if st.SlotBlob(k[0], k[1]) == nil {
				return fmt.Sprintf("persistent state holds slot %x/%x = %x which does not exist at %x", k[0], k[1], v, root)
			}
		}
	}
	ref := w.RefNodes(root)
	owners := map[common.Hash]bool{{}: true}
	for o := range ref.Storage {
		owners[o] = true
	}
	for o := range nodes {
		owners[o] = true
	}
	for owner := range owners {
		want, got := ref.set(owner), nodes[owner]
		for p, b := range want {
			if !bytes.Equal(got[p], b) {
				return fmt.Sprintf("persistent trie node %x/%x is %x, reference %x (trie at %x incomplete)", owner, p, got[p], b, root)
			}
		}
		for p, b := range got {
			if _, ok := want[p]; !ok {
				return fmt.Sprintf("persistent trie node %x/%x = %x does not belong to state %x", owner, p, b, root)
			}
		}
	}
	return pdbVerifyReads(db, w, root)
}

// c20Eval reopens one crash image and evaluates the recovery oracle.
func (r *c20Run) eval(evs []crashkv.Event, im *c20Image) c20Outcome {
	rt := r.rt
	var out c20Outcome
	where := func() string {
		return fmt.Sprintf("crash after event %d (key-value prefix %d of [%d,%d], freezer image mode %d at %q, cuts %s)\n  events:\n    %s",
			im.crash-1, im.n, r.log.LastSync(im.crash), im.crash, im.mode, im.pt.Label, im.pt.CutsString(im.cuts), r.eventWindow(evs, im.crash))
	}
	fail := func(format string, a ...any) { r.fail("%s\n  %s", fmt.Sprintf(format, a...), where()) }

	// what the key-value image holds
	mem := r.log.Materialize(im.n)
	persisted := rawdb.ReadPersistentStateID(mem)
	rkv := types.EmptyRootHash
	if blob := rawdb.ReadAccountTrieNode(mem, nil); len(blob) > 0 {
		rkv = crypto.Keccak256Hash(blob)
	}
	if id, ok := r.rootID[rkv]; !ok || uint64(id) != persisted {
		fail("key-value image holds account trie root %x (model id %d, known %v) with persistent state id %d", rkv, id, ok, persisted)
	}
	jOK, jDisk, jRoot, jID := c20JournalHeader(rawdb.ReadTrieJournal(mem))
	jMatch := jOK && jDisk == rkv && persisted <= jID
	var journal *c20Journal
	for k := range r.journals {
		if r.journals[k].at <= im.n {
			journal = &r.journals[k]
		}
	}
	if jOK && journal == nil {
		fail("VERIF-HARNESS-BUG: key-value image holds a journal the live run did not write before event %d", im.n)
	}
	expectID := persisted
	if jMatch {
		expectID = jID
	}
	// known-finding triggers, recognised from the image and the live history alone
	if jMatch {
		for _, sp := range r.spans {
			if sp.kind == "recover" && sp.begin >= journal.at && sp.begin < im.crash {
				if vs.Known(c20Test, c20KnownStaleJournal) {
					out.skipped = c20KnownStaleJournal
					return out
				}
			}
		}
	}
	// kv-loss-below-history-tail needs power loss: the key-value image lacks writes that
	// had been ISSUED before the crash, among them the flush that raised the persistent
	// state id to the history tail or above. If even the complete key-value log up to
	// the crash point (process kill, nothing lost) holds a persistent state id below
	// the tail of the image, the tail was truncated above the persisted state itself:
	// that is not the known class and the image is evaluated.
	for _, sub := range []string{"state", "trienode"} {
		if tail := recfreezer.ImageTail(im.img, sub); tail > expectID {
			if tail <= rawdb.ReadPersistentStateID(r.log.Materialize(im.crash)) && vs.Known(c20Test, c20KnownLossBelowTail) {
				out.skipped = c20KnownLossBelowTail
				return out
			}
		}
	}

	// materialise and reopen
	dir, err := os.MkdirTemp(c20TempRoot, "c20img")
	if err != nil {
		rt.Fatalf("VERIF-HARNESS-BUG: mkdir: %v", err)
	}
	defer os.RemoveAll(dir)
	if err := im.img.WriteTo(dir); err != nil {
		rt.Fatalf("VERIF-HARNESS-BUG: image: %v", err)
	}
	os.MkdirAll(dir, 0o755)
	var (
		db  *Database
		cfg = r.cfg
	)
	if msg := c20Guard(func() error {
		db = New(&c20Disk{Database: rawdb.NewDatabase(mem), dir: dir}, &cfg, false)
		return nil
	}); msg != "" {
		fail("reopening the crash image failed: %s (key-value image: root %x id %d, journal match %v -> expected disk layer id %d; state history tail in image %d)",
			msg, rkv, persisted, jMatch, expectID, recfreezer.ImageTail(im.img, "state"))
	}
	defer func() { c20Guard(func() error { return db.Close() }) }()

	// 1. the disk layer is the persisted state or the disk layer of a matching journal
	dl := db.tree.bottom()
	R, id := dl.rootHash(), dl.stateID()
	out.diskID = int(id)
	loaded := db.tree.len() > 1 || R != rkv || id != persisted
	out.journalLoaded = loaded
	if loaded {
		if !jMatch {
			fail("layers were restored from a journal that does not match the persistent state: disk layer %x/id %d with %d layers, key-value image has root %x id %d, journal header ok=%v base %x disk layer %x/id %d",
				R, id, db.tree.len(), rkv, persisted, jOK, jDisk, jRoot, jID)
		}
		if R != jRoot || id != jID {
			fail("journal restored disk layer %x/id %d, journal records %x/id %d", R, id, jRoot, jID)
		}
	} else if R != rkv || id != persisted {
		fail("disk layer is %x/id %d, key-value image holds %x/id %d", R, id, rkv, persisted)
	}
	if jMatch {
		if db.tree.get(journal.head) == nil {
			fail("the journal in the key-value image matches the persistent state (%x/id %d) but its head %x was not restored (disk layer %x/id %d, %d layers)",
				rkv, persisted, journal.head, R, id, db.tree.len())
		}
	}
	if mid, ok := r.rootID[R]; !ok || uint64(mid) != id {
		fail("disk layer %x/id %d is not a state the run had reached (model id %d, known %v)", R, id, mid, ok)
	}
	if id < persisted {
		fail("disk layer id %d is below the persisted state id %d of the key-value image", id, persisted)
	}
	// 2. trie complete, flat state equal, both equal to the model
	if d := c20Persistent(db, mem, r.w, R); d != "" {
		fail("after reopen: %s", d)
	}
	tip := R
	if jMatch {
		tip = journal.head
		if d := pdbVerifyReads(db, r.w, tip); d != "" {
			fail("after reopen, at the journaled head: %s", d)
		}
	}
	// 3. history stores aligned with the disk layer and linked along its ancestors
	stores := []struct {
		name string
		s    ethdb.ResettableAncientStore
	}{{"state", db.stateFreezer}}
	if r.cfg.TrienodeHistory >= 0 {
		stores = append(stores, struct {
			name string
			s    ethdb.ResettableAncientStore
		}{"trienode", db.trienodeFreezer})
	}
	var tail uint64
	for _, f := range stores {
		if f.s == nil {
			fail("no %s history store after reopen", f.name)
		}
		head, err := f.s.Ancients()
		if err != nil {
			fail("%s history head: %v", f.name, err)
		}
		t, err := f.s.Tail(rawdb.DefaultHistoryGroup)
		if err != nil {
			fail("%s history tail: %v", f.name, err)
		}
		if head != id {
			fail("%s history store holds %d items, disk layer id is %d (not aligned)", f.name, head, id)
		}
		if t > id {
			fail("%s history tail %d is above the disk layer id %d", f.name, t, id)
		}
		if f.name == "state" {
			tail = t
		}
	}
	anc := r.ancestors(R, int(tail))
	for j := int(id); j > int(tail); j-- {
		h, err := readStateHistory(db.stateFreezer, uint64(j))
		if err != nil {
			fail("state history %d (tail %d, head %d) is unreadable: %v", j, tail, id, err)
		}
		if h.meta.root != anc[j] || h.meta.parent != anc[j-1] {
			fail("state history %d links %x<-%x, the ancestors of the disk layer are %x<-%x", j, h.meta.root, h.meta.parent, anc[j], anc[j-1])
		}
	}
	// histories the live run had written at the crash point but the reopened store dropped
	if want, _ := r.liveHeadAt(im.crash); want > int(id) {
		out.truncated = want - int(id)
	}
	// 4. rollback: the nearest and the oldest recoverable root
	for j := int(id) - 1; j >= int(tail) && j >= int(id)-2; j-- {
		if !db.Recoverable(anc[j]) {
			fail("Recoverable(root of id %d) = false although history %d is retained (tail %d) below disk layer id %d", j, j+1, tail, id)
		}
	}
	if int(tail) < int(id) && !db.Recoverable(anc[int(tail)]) {
		fail("Recoverable(root of id %d) = false for the oldest retained history (tail %d, disk layer id %d)", tail, tail, id)
	}
	if tail > 0 {
		if root, ok := r.ancestors(R, int(tail)-1)[int(tail)-1]; ok && db.Recoverable(root) {
			fail("Recoverable(root of id %d) = true although the history tail is %d", tail-1, tail)
		}
	}
	if db.Recoverable(R) {
		fail("Recoverable(disk layer root) = true")
	}
	floor, _, err := c20RollbackFloor(db)
	if err != nil {
		fail("history tail: %v", err)
	}
	curID := int(id)
	rollback := func(j int) {
		if msg := c20Guard(func() error { return db.Recover(anc[j]) }); msg != "" {
			fail("Recover(root of id %d) failed although Recoverable reported true (disk layer id %d, tail %d): %s", j, curID, tail, msg)
		}
		if d := c20Persistent(db, mem, r.w, anc[j]); d != "" {
			fail("after reopen and Recover(root of id %d): %s", j, d)
		}
		if got := db.tree.bottom().stateID(); got != uint64(j) || db.tree.len() != 1 {
			fail("after reopen and Recover(root of id %d): disk layer id %d, %d layers", j, got, db.tree.len())
		}
		for _, f := range stores {
			if head, _ := f.s.Ancients(); head != uint64(j) {
				fail("after reopen and Recover(root of id %d): %s history head is %d", j, f.name, head)
			}
		}
		curID, tip = j, anc[j]
	}
	if int(floor) < int(id) {
		switch rapid.IntRange(0, 3).Draw(rt, "imageRollback") {
		case 0:
			rollback(int(id) - 1)
			out.recovered = "nearest"
		case 1:
			rollback(int(floor))
			out.recovered = "oldest"
			if floor > tail {
				r.st.Excluded()
				out.recovered = "oldest-above-trienode-tail"
			}
		case 2:
			rollback(int(id) - 1)
			if int(floor) < int(id)-1 {
				rollback(int(floor))
			}
			out.recovered = "nearest+oldest"
		}
	}
	// 5. the history can be continued from the recovered state
	for k, m := 0, rapid.IntRange(1, 2).Draw(rt, "imageExtend"); k < m; k++ {
		tr := r.w.Transition(tip, pdbDrawOps(rt, r.w.State(tip), rapid.IntRange(1, 3).Draw(rt, "nops")), r.w.NextSeq(), rapid.Bool().Draw(rt, "rawKeys"))
		if msg := c20Guard(func() error { return db.Update(tr.Root, tr.Parent, 1000+uint64(k), tr.Nodes, tr.States) }); msg != "" {
			fail("continuing after recovery: Update(%x<-%x): %s", tr.Root, tr.Parent, msg)
		}
		tip = tr.Root
		if d := pdbVerifyReads(db, r.w, tip); d != "" {
			fail("continuing after recovery: %s", d)
		}
	}
	if msg := c20Guard(func() error { return db.Commit(tip, false) }); msg != "" {
		fail("continuing after recovery: Commit(%x): %s", tip, msg)
	}
	if d := c20Persistent(db, mem, r.w, tip); d != "" {
		fail("continuing after recovery, after Commit: %s", d)
	}
	if head, _ := db.stateFreezer.Ancients(); head != db.tree.bottom().stateID() {
		fail("continuing after recovery, after Commit: state history head %d, disk layer id %d", head, db.tree.bottom().stateID())
	}
	return out
}

// liveHeadAt returns the number of state histories the live freezer held at the
// crash point (item count of the observed index file of the meta table).
func (r *c20Run) liveHeadAt(crash int) (int, bool) {
	pt := r.rec.PointAt(crash)
	if pt == nil {
		return 0, false
	}
	idx := pt.State.File("state/history.meta.ridx")
	meta := pt.State.File("state/history.meta.meta")
	if idx == nil || meta == nil || len(idx.Data) < 6 {
		return 0, false
	}
	deleted := int(uint32(idx.Data[2])<<24 | uint32(idx.Data[3])<<16 | uint32(idx.Data[4])<<8 | uint32(idx.Data[5]))
	return deleted + len(idx.Data)/6 - 1, true
}

// ---------------------------------------------------------------- crash point enumeration

type c20PointClass struct {
	inside string // "" or the kind of the operation the point lies strictly inside
	detail string
}

func (r *c20Run) inWindow(i int) bool {
	for _, w := range r.windows {
		if w[0] < i && i <= w[1] {
			return true
		}
	}
	return false
}

func (r *c20Run) classify(evs []crashkv.Event, i int) c20PointClass {
	for _, sp := range r.spans {
		if !(sp.begin < i && i <= sp.end) || sp.kind == "open" {
			continue
		}
		var before, after []string
		for k := sp.begin + 1; k < sp.end; k++ {
			if !c20IsEffect(evs[k]) {
				continue
			}
			name := evs[k].Kind.String()
			if evs[k].Kind == crashkv.Mark {
				name = evs[k].Label
			}
			if k < i {
				before = append(before, name)
			} else {
				after = append(after, name)
			}
		}
		if len(before) == 0 || len(after) == 0 {
			return c20PointClass{}
		}
		pc := c20PointClass{inside: sp.kind}
		has := func(l []string, sub string) bool {
			for _, s := range l {
				if strings.Contains(s, sub) {
					return true
				}
			}
			return false
		}
		switch sp.kind {
		case "update", "commit", "flushwindow":
			if r.inWindow(i) {
				pc.detail = "next-layer-committed-while-flush-in-flight"
			} else if has(before, ":modify") && has(after, "batch") {
				pc.detail = "between-history-write-and-state-flush"
			} else if has(before, "batch") {
				pc.detail = "after-state-flush"
			}
		case "recover":
			if has(before, "batch") && has(after, "truncateHead") {
				pc.detail = "between-state-revert-and-history-truncation"
			}
		case "journal":
			if has(before, "put") && has(after, ":close") {
				pc.detail = "between-journal-write-and-close"
			}
		}
		return pc
	}
	return c20PointClass{}
}

// crashPoints lists the crash indices worth distinguishing: 0 and every index
// directly after an effect (key-value event or freezer operation), except those
// inside the database's own open/repair path.
func (r *c20Run) crashPoints(evs []crashkv.Event) []int {
	inOpen := func(i int) bool {
		for _, sp := range r.spans {
			if sp.kind == "open" && sp.begin < i && i <= sp.end {
				return true
			}
		}
		return false
	}
	pts := []int{}
	for i := 1; i <= len(evs); i++ {
		if c20IsEffect(evs[i-1]) && !inOpen(i) {
			pts = append(pts, i)
		}
	}
	return pts
}

func c20Property(rt *rapid.T, st *vs.S, profile string) {
	r := c20Live(rt, st, profile)
	defer r.closeLive()
	c := st.Case()
	evs := r.log.Events()
	if profile != "" {
		c.Class("profile:" + profile)
	}

	c.Classf("cfg:maxDiffLayers=%d", r.maxLayers)
	c.Classf("cfg:buffer=%d", r.cfg.WriteBufferSize)
	c.Classf("cfg:history=%d", r.cfg.StateHistory)
	if r.cfg.TrienodeHistory >= 0 {
		c.Class("cfg:trienode-history")
	}
	if !r.cfg.NoAsyncFlush {
		c.Class("cfg:async-flush")
	}
	kinds := make([]string, 0, len(r.nOps))
	for k := range r.nOps {
		kinds = append(kinds, k)
	}
	sort.Strings(kinds)
	for _, k := range kinds {
		c.Class("history-has:" + k)
	}

	c.Classf("flush-windows=%d", len(r.windows))
	wk := make([]string, 0, len(r.winStats))
	for k := range r.winStats {
		wk = append(wk, k)
	}
	sort.Strings(wk)
	for _, k := range wk {
		c.Class("window:" + k)
	}

	all := r.crashPoints(evs)
	chosen := all
	budget := 25
	if !vs.Thorough() && len(all) > budget {
		pick := map[int]bool{all[0]: true, all[len(all)-1]: true}
		// crash points inside an owned flush window are always evaluated (at most 12)
		for _, i := range all {
			if len(pick) < 14 && r.inWindow(i) {
				pick[i] = true
			}
		}
		budget = min(len(all), max(budget, len(pick)+15))
		for len(pick) < budget {
			pick[all[rapid.IntRange(0, len(all)-1).Draw(rt, "crashPoint")]] = true
		}
		chosen = chosen[:0:0]
		for i := range pick {
			chosen = append(chosen, i)
		}
		sort.Ints(chosen)
	}
	c.Classf("crash-points:%d+", min(len(all)/20*20, 200))

	// number of key-value effects in Events[:n] (images with equal counts hold the same store)
	kvCount := make([]int, len(evs)+1)
	for i, e := range evs {
		kvCount[i+1] = kvCount[i]
		if e.Kind != crashkv.Mark && e.Kind != crashkv.Sync {
			kvCount[i+1]++
		}
	}
	for _, i := range chosen {
		pt := r.rec.PointAt(i)
		if pt == nil {
			rt.Fatalf("VERIF-HARNESS-BUG: no freezer observation before crash index %d", i)
		}
		lo := r.log.LastSync(i)
		pc := r.classify(evs, i)
		type variant struct{ n, mode int }
		variants := []variant{{i, 0}}
		extra := []variant{{lo, 1}, {i, 1}, {lo, 0}, {-1, 3}, {-1, 2}, {-1, 4}}
		if vs.Thorough() {
			variants = append(variants, extra...)
		} else {
			a := rapid.IntRange(0, len(extra)-1).Draw(rt, "variantA")
			b := rapid.IntRange(0, len(extra)-1).Draw(rt, "variantB")
			variants = append(variants, extra[a])
			if b != a {
				variants = append(variants, extra[b])
			}
		}
		seen := map[string]bool{}
		for _, v := range variants {
			n := v.n
			if n < 0 {
				n = rapid.IntRange(lo, i).Draw(rt, "kvPrefix")
			}
			cuts := pt.Cuts(rt, v.mode)
			img, err := pt.State.Render(cuts)
			if err != nil {
				rt.Fatalf("VERIF-HARNESS-BUG: render: %v", err)
			}
			key := fmt.Sprintf("%d/%x", kvCount[n], img.Digest())
			if seen[key] {
				continue
			}
			seen[key] = true
			im := &c20Image{crash: i, n: n, mode: v.mode, pt: pt, cuts: cuts, img: img}
			out := r.eval(evs, im)
			if out.skipped != "" {
				st.Excluded()
				c.Class("excluded:" + out.skipped)
				continue
			}
			c.Fault()
			lostFreezer := pt.State.StrictCut(cuts) || (v.mode != 0 && v.mode != 4 && pt.Unsynced())
			lostKV := kvCount[n] < kvCount[i]
			nt := pc.inside != "" || lostFreezer
			c.NonTrivial(nt, fmt.Sprintf("%s|%x|%d|%d|%x", r.config(), r.head, i, kvCount[n], img.Digest()))
			c.Classf("image:mode%d", v.mode)
			if pc.inside != "" {
				c.Class("point:inside-" + pc.inside)
				if pc.detail != "" {
					c.Class("point:" + pc.detail)
				}
			} else {
				c.Class("point:operation-boundary")
			}
			if lostFreezer {
				c.Class("image:lost-unsynced-freezer-data")
			}
			if lostKV {
				c.Class("image:lost-unsynced-kv-writes")
			}
			if out.journalLoaded {
				c.Class("recovered:journal-loaded")
			}
			if out.truncated > 0 {
				c.Class("recovered:histories-above-disk-layer-dropped")
			}
			if out.recovered != "" {
				c.Class("rollback:" + out.recovered)
			}
			c.Sample(nt, func() any {
				return map[string]any{"config": r.config(), "ops": r.nOps, "events": len(evs), "crash_after_event": i - 1, "kv_prefix": n,
					"freezer_mode": v.mode, "inside": pc.inside + " " + pc.detail, "disk_id_after_reopen": out.diskID, "journal_loaded": out.journalLoaded}
			})
		}
	}
}

// TestVerifC20Crash runs random pathdb histories and reopens crash images taken at
// the positions of the merged key-value / freezer event log.
func TestVerifC20Crash(t *testing.T) {
	st := vs.New("C20", t)
	c20SetupTemp(t)
	old := log.Root()
	log.SetDefault(log.NewLogger(c20CritHandler{}))
	defer log.SetDefault(old)
	defer func(old int) { maxDiffLayers = old }(maxDiffLayers)
	vs.Check(t, 1, func(rt *rapid.T) { c20Property(rt, st, "") })
}

// TestVerifC20FlushWindow is the same property on the "window" profile: always
// asynchronous flushing, finite history limits, write buffers that aggregate several
// layers, mostly updates; every other Update is armed, so that the commit of the next
// layer is driven while the background flush hangs in its batch write (up to 4
// windows per history, thorough 8). Crash points inside the windows are always
// evaluated. Wall time: a window costs ~30 ms when the next Update has to wait for
// the flush in flight.
func TestVerifC20FlushWindow(t *testing.T) {
	st := vs.New("C20", t)
	c20SetupTemp(t)
	old := log.Root()
	log.SetDefault(log.NewLogger(c20CritHandler{}))
	defer log.SetDefault(old)
	defer func(old int) { maxDiffLayers = old }(maxDiffLayers)
	vs.Check(t, 0.4, func(rt *rapid.T) { c20Property(rt, st, "window") })
}

// ---------------------------------------------------------------- reproductions

// TestVerifC20Repro replays the minimal scenarios written up in notes/C20.md. It is
// skipped unless VERIF_C20_REPRO is set (documentation that runs, not part of the
// check): each sub-test FAILS while the behaviour is present.
func TestVerifC20Repro(t *testing.T) {
	if os.Getenv("VERIF_C20_REPRO") == "" {
		t.Skip("set VERIF_C20_REPRO=1 to run the reproductions")
	}
	old := log.Root()
	log.SetDefault(log.NewLogger(c20CritHandler{}))
	defer log.SetDefault(old)
	defer func(old int) { maxDiffLayers = old }(maxDiffLayers)

	type env struct {
		w     *pdbWorld
		kv    *memorydb.Database
		dir   string
		db    *Database
		roots []common.Hash
		cfg   Config
	}
	open := func(t *testing.T, e *env) string {
		cfg := e.cfg
		return c20Guard(func() error {
			e.db = New(&c20Disk{Database: rawdb.NewDatabase(e.kv), dir: e.dir}, &cfg, false)
			return nil
		})
	}
	start := func(t *testing.T, cfg Config, layers int) *env {
		maxDiffLayers = layers
		e := &env{w: newPdbWorld(), kv: memorydb.New(), dir: t.TempDir(), cfg: cfg}
		e.roots = []common.Hash{types.EmptyRootHash}
		if msg := open(t, e); msg != "" {
			t.Fatalf("open: %s", msg)
		}
		return e
	}
	update := func(t *testing.T, e *env, n int) {
		for i := 0; i < n; i++ {
			head := e.roots[len(e.roots)-1]
			tr := e.w.Transition(head, []pdbOp{{pdbOpCreate, len(e.roots) % pdbNumAddrs, 0, 1}, {pdbOpSetSlot, len(e.roots) % pdbNumAddrs, len(e.roots) % pdbNumSlots, len(e.roots)}}, e.w.NextSeq(), false)
			if err := e.db.Update(tr.Root, tr.Parent, uint64(len(e.roots)), tr.Nodes, tr.States); err != nil {
				t.Fatalf("update: %v", err)
			}
			e.roots = append(e.roots, tr.Root)
		}
	}
	snapshotKV := func(kv *memorydb.Database) *memorydb.Database {
		cp := memorydb.New()
		it := kv.NewIterator(nil, nil)
		for it.Next() {
			cp.Put(it.Key(), it.Value())
		}
		it.Release()
		return cp
	}
	copyDir := func(t *testing.T, src string) string {
		snap, err := crashfs.Snap(src)
		if err != nil {
			t.Fatal(err)
		}
		for n := range snap.Files {
			if strings.HasSuffix(n, "FLOCK") {
				delete(snap.Files, n)
			}
		}
		dst := t.TempDir()
		if err := snap.WriteTo(dst); err != nil {
			t.Fatal(err)
		}
		return dst
	}

	// (b) journal with a non-empty write buffer, reopen, rollback inside the buffer, process kill
	t.Run("StaleJournalAfterRollback", func(t *testing.T) {
		e := start(t, Config{WriteBufferSize: 1 << 20, NoAsyncFlush: true, NoAsyncGeneration: true, TrienodeHistory: -1}, 1)
		update(t, e, 4) // disk layer id 3 (all in the write buffer), one diff layer
		if err := e.db.Journal(e.roots[4]); err != nil {
			t.Fatal(err)
		}
		e.db.Close()
		if msg := open(t, e); msg != "" {
			t.Fatalf("clean reopen: %s", msg)
		}
		t.Logf("reopened: disk layer id %d, buffered %d, persistent id %d", e.db.tree.bottom().stateID(), e.db.tree.bottom().buffer.layers, rawdb.ReadPersistentStateID(e.kv))
		if err := e.db.Recover(e.roots[2]); err != nil {
			t.Fatalf("recover: %v", err)
		}
		// process kill: nothing is lost
		img := &env{kv: snapshotKV(e.kv), dir: copyDir(t, e.dir), cfg: e.cfg}
		e.db.Close()
		if msg := open(t, img); msg != "" {
			t.Fatalf("reopen after process kill following a rollback inside the journaled write buffer: %s", msg)
		}
		img.db.Close()
	})
	// (c) trienode history retains less than the state history; rollback below the trienode tail
	t.Run("RollbackBelowTrienodeTail", func(t *testing.T) {
		e := start(t, Config{WriteBufferSize: 0, NoAsyncFlush: true, NoAsyncGeneration: true, StateHistory: 0, TrienodeHistory: 2}, 1)
		update(t, e, 8)
		st, _ := e.db.stateFreezer.Tail(rawdb.DefaultHistoryGroup)
		tt, _ := e.db.trienodeFreezer.Tail(rawdb.DefaultHistoryGroup)
		t.Logf("disk layer id %d, state history tail %d, trienode history tail %d", e.db.tree.bottom().stateID(), st, tt)
		target := e.roots[1]
		if !e.db.Recoverable(target) {
			t.Skip("not recoverable")
		}
		err := e.db.Recover(target)
		t.Logf("Recover: %v; disk layer id %d", err, e.db.tree.bottom().stateID())
		e.db.Close()
		if msg := open(t, e); msg != "" {
			t.Fatalf("Recoverable said yes, Recover returned %v, clean reopen afterwards: %s", err, msg)
		}
		if err != nil {
			t.Fatalf("Recoverable said yes but Recover failed: %v", err)
		}
	})
	// (a) key-value store loses more flushes than the history limit retains
	t.Run("KVLossBelowHistoryTail", func(t *testing.T) {
		e := start(t, Config{WriteBufferSize: 0, NoAsyncFlush: true, NoAsyncGeneration: true, StateHistory: 2, TrienodeHistory: -1}, 1)
		update(t, e, 3)
		old := snapshotKV(e.kv) // persistent id 2; nothing syncs the key-value store afterwards
		update(t, e, 6)
		e.db.Close() // freezer synced: tail well above 2
		img := &env{kv: old, dir: copyDir(t, e.dir), cfg: e.cfg}
		if msg := open(t, img); msg != "" {
			t.Fatalf("reopen with the key-value store at persistent id %d and the synced history tail above it: %s", rawdb.ReadPersistentStateID(old), msg)
		}
		img.db.Close()
	})
}
