//go:build verif

package pathdb

// C17: rollback restores exactly the historical state.
//
// A linear canonical history from pdbWorld is pushed into a database with a real,
// file-backed state freezer (optionally a trienode freezer, a history limit, small
// write buffers, asynchronous flushing, commits at drawn points). Then, each in a
// fresh copy of the scenario, the database is asked to Recover a drawn target:
// recoverable targets must be restored exactly (effective persistent flat state and
// trie nodes == model / kit/reftrie, ids, truncated histories, readable, extendable),
// non-recoverable ones must be refused without changing anything.

import (
	"bytes"
	"crypto/sha256"
	"encoding/binary"
	"fmt"
	"os"
	"sort"
	"strings"
	"testing"

	"github.com/ethereum/go-ethereum/common"
	"github.com/ethereum/go-ethereum/core/rawdb"
	"github.com/ethereum/go-ethereum/ethdb"
	"pgregory.net/rapid"
	vs "verif.local/kit/stat"
)

// Known finding class (notes/C17.md): stateSet.revertTo stores empty non-nil blobs for
// entries that did not exist before; fastIterator filters tombstones with != nil.
const c17KnownEmptyBlob = "empty-blob-after-buffer-revert"

type c17Step struct {
	ops    []pdbOp
	seq    uint64
	raw    bool
	commit bool
}

type c17Plan struct {
	w         *pdbWorld
	steps     []c17Step
	roots     []common.Hash // roots[i] = state with id i (roots[0] = empty root)
	maxLayers int
	cfg       Config
	sideRoot  common.Hash // a root the world knows but the database never saw
	excluded  int         // iterator entries tolerated because of the listed known finding
}

type c17Inst struct {
	rt    *rapid.T
	p     *c17Plan
	dir   string
	disk  ethdb.Database
	db    *Database
	trace []string
}

func (in *c17Inst) fail(format string, a ...any) {
	in.rt.Fatalf("%s\nconfig: maxDiffLayers=%d buffer=%d noAsyncFlush=%v stateHistory=%d trienodeHistory=%d\nhistory:\n  %s",
		fmt.Sprintf(format, a...), in.p.maxLayers, in.p.cfg.WriteBufferSize, in.p.cfg.NoAsyncFlush, in.p.cfg.StateHistory, in.p.cfg.TrienodeHistory,
		strings.Join(in.trace, "\n  "))
}

func (in *c17Inst) close() {
	in.db.Close()
	in.disk.Close()
	os.RemoveAll(in.dir)
}

// open builds a fresh database and replays the plan.
func (p *c17Plan) open(rt *rapid.T) *c17Inst {
	dir, err := os.MkdirTemp("", "c17-")
	if err != nil {
		rt.Fatalf("VERIF-HARNESS-BUG: tempdir: %v", err)
	}
	disk, err := rawdb.Open(rawdb.NewMemoryDatabase(), rawdb.OpenOptions{Ancient: dir})
	if err != nil {
		rt.Fatalf("VERIF-HARNESS-BUG: rawdb.Open: %v", err)
	}
	cfg := p.cfg
	in := &c17Inst{rt: rt, p: p, dir: dir, disk: disk, db: New(disk, &cfg, false)}
	for i, s := range p.steps {
		tr := p.w.Transition(p.roots[i], s.ops, s.seq, s.raw)
		if tr.Root != p.roots[i+1] {
			rt.Fatalf("VERIF-HARNESS-BUG: replayed transition %d has root %x, planned %x", i+1, tr.Root, p.roots[i+1])
		}
		if err := in.db.Update(tr.Root, tr.Parent, uint64(i+1), tr.Nodes, tr.States); err != nil {
			in.fail("Update #%d (%x<-%x): %v", i+1, tr.Root, tr.Parent, err)
		}
		in.trace = append(in.trace, fmt.Sprintf("#%d update %x %v raw=%v", i+1, tr.Root[:4], s.ops, s.raw))
		if s.commit {
			if err := in.db.Commit(tr.Root, false); err != nil {
				in.fail("Commit #%d (%x): %v", i+1, tr.Root, err)
			}
			in.trace = append(in.trace, fmt.Sprintf("#%d commit", i+1))
		}
	}
	if err := in.db.tree.bottom().waitFlush(); err != nil {
		in.fail("background flush failed: %v", err)
	}
	return in
}

// dump fingerprints the whole key-value store and the freezers' extents.
func (in *c17Inst) dump() string {
	h := sha256.New()
	it := in.disk.NewIterator(nil, nil)
	n := 0
	var l [8]byte
	for it.Next() {
		binary.BigEndian.PutUint32(l[:4], uint32(len(it.Key())))
		binary.BigEndian.PutUint32(l[4:], uint32(len(it.Value())))
		h.Write(l[:])
		h.Write(it.Key())
		h.Write(it.Value())
		n++
	}
	it.Release()
	out := fmt.Sprintf("kv=%d:%x", n, h.Sum(nil)[:12])
	for _, f := range []ethdb.ResettableAncientStore{in.db.stateFreezer, in.db.trienodeFreezer} {
		if f == nil {
			out += " -"
			continue
		}
		head, _ := f.Ancients()
		tail, _ := f.Tail(rawdb.DefaultHistoryGroup)
		out += fmt.Sprintf(" freezer[%d,%d]", tail, head)
	}
	dl := in.db.tree.bottom()
	return out + fmt.Sprintf(" tree=%d bottom=%x/%d buffer=%d", in.db.tree.len(), dl.rootHash(), dl.stateID(), dl.buffer.layers)
}

// verifyPersistent compares the effective persistent state (key-value store overlaid
// with the disk layer's write buffer) with the model state that has id `id`.
func (in *c17Inst) verifyPersistent(id int, when string) {
	root := in.p.roots[id]
	dl := in.db.tree.bottom()
	if err := dl.waitFlush(); err != nil {
		in.fail("%s: flush failed: %v", when, err)
	}
	if dl.rootHash() != root || dl.stateID() != uint64(id) {
		in.fail("%s: disk layer is %x/id %d, expected %x/id %d", when, dl.rootHash(), dl.stateID(), root, id)
	}
	stored := rawdb.ReadPersistentStateID(in.disk)
	if dl.buffer.empty() {
		if stored != uint64(id) {
			in.fail("%s: write buffer empty but persistent state id is %d, expected %d", when, stored, id)
		}
	} else if stored+dl.buffer.layers != uint64(id) {
		in.fail("%s: persistent state id %d + %d buffered layers != %d", when, stored, dl.buffer.layers, id)
	}
	var (
		accounts = map[common.Hash][]byte{}
		slots    = map[[2]common.Hash][]byte{}
		nodes    = map[common.Hash]map[string][]byte{}
	)
	putNode := func(owner common.Hash, path string, blob []byte) {
		if len(blob) == 0 {
			delete(nodes[owner], path)
			return
		}
		if nodes[owner] == nil {
			nodes[owner] = map[string][]byte{}
		}
		nodes[owner][path] = blob
	}
	isPath := func(p []byte) bool {
		for _, b := range p {
			if b > 15 {
				return false
			}
		}
		return true
	}
	it := in.disk.NewIterator(nil, nil)
	for it.Next() {
		k, v := it.Key(), common.CopyBytes(it.Value())
		switch {
		case len(k) == 1+common.HashLength && k[0] == rawdb.SnapshotAccountPrefix[0]:
			accounts[common.BytesToHash(k[1:])] = v
		case len(k) == 1+2*common.HashLength && k[0] == rawdb.SnapshotStoragePrefix[0]:
			slots[[2]common.Hash{common.BytesToHash(k[1:33]), common.BytesToHash(k[33:])}] = v
		default:
			if ok, path := rawdb.ResolveAccountTrieNodeKey(k); ok && isPath(path) {
				putNode(common.Hash{}, string(path), v)
			} else if ok, owner, path := rawdb.ResolveStorageTrieNode(k); ok && isPath(path) {
				putNode(owner, string(path), v)
			}
		}
	}
	it.Release()
	for h, blob := range dl.buffer.states.accountData {
		if len(blob) == 0 {
			delete(accounts, h)
		} else {
			accounts[h] = blob
		}
	}
	for a, sub := range dl.buffer.states.storageData {
		for s, blob := range sub {
			if len(blob) == 0 {
				delete(slots, [2]common.Hash{a, s})
			} else {
				slots[[2]common.Hash{a, s}] = blob
			}
		}
	}
	for path, n := range dl.buffer.nodes.accountNodes {
		putNode(common.Hash{}, path, n.Blob)
	}
	for owner, sub := range dl.buffer.nodes.storageNodes {
		for path, n := range sub {
			putNode(owner, path, n.Blob)
		}
	}
	// flat state == model
	st := in.p.w.State(root)
	wantSlots := 0
	for h, acc := range st.Accts {
		if !bytes.Equal(accounts[h], acc.Slim) {
			in.fail("%s: persistent account %x is %x, model %x", when, h, accounts[h], acc.Slim)
		}
		for s, v := range acc.Storage {
			wantSlots++
			if !bytes.Equal(slots[[2]common.Hash{h, s}], v) {
				in.fail("%s: persistent slot %x/%x is %x, model %x", when, h, s, slots[[2]common.Hash{h, s}], v)
			}
		}
	}
	if len(accounts) != len(st.Accts) {
		for h := range accounts {
			if st.Accts[h] == nil {
				in.fail("%s: persistent state holds account %x which does not exist at %x", when, h, root)
			}
		}
	}
	if len(slots) != wantSlots {
		for k, v := range slots {
			if st.SlotBlob(k[0], k[1]) == nil {
				in.fail("%s: persistent state holds slot %x/%x = %x which does not exist at %x", when, k[0], k[1], v, root)
			}
		}
	}
	// trie nodes == reference node sets: nothing missing, nothing extra
	ref := in.p.w.RefNodes(root)
	owners := map[common.Hash]bool{{}: true}
	for o := range ref.Storage {
		owners[o] = true
	}
	for o := range nodes {
		owners[o] = true
	}
	for owner := range owners {
		want, got := ref.set(owner), nodes[owner]
		for p, b := range want {
			if !bytes.Equal(got[p], b) {
				in.fail("%s: persistent trie node %x/%x is %x, reference %x", when, owner, p, got[p], b)
			}
		}
		for p, b := range got {
			if _, ok := want[p]; !ok {
				in.fail("%s: persistent trie node %x/%x = %x does not belong to state %x", when, owner, p, b, root)
			}
		}
	}
	if d := pdbVerifyReads(in.db, in.p.w, root); d != "" {
		in.fail("%s: %s", when, d)
	}
	in.verifyIterators(root, when)
}

// verifyIterators walks the flat state at the disk root with the merged (fast) and
// the binary iterators, accounts and the storage of every pool account: exactly the
// model's entries, ascending, with the model's (non-empty) values. After a rollback
// that stays inside the write buffer the buffer holds the reverted entries, including
// "did not exist before" markers; none of them may surface as an entry.
func (in *c17Inst) verifyIterators(root common.Hash, when string) {
	st := in.p.w.State(root)
	dl := in.db.tree.bottom()
	type entry struct {
		h common.Hash
		v []byte
	}
	drain := func(it Iterator, val func() []byte, what string) []entry {
		var out []entry
		for it.Next() {
			out = append(out, entry{it.Hash(), common.CopyBytes(val())})
			if len(out) > 1000 {
				in.fail("%s: %s does not terminate", when, what)
			}
		}
		if err := it.Error(); err != nil {
			in.fail("%s: %s failed: %v", when, what, err)
		}
		it.Release()
		return out
	}
	// Known finding (only when listed): after a rollback inside the write buffer the merged
	// (fast) iterators surface the "did not exist before" markers of the reverted transition
	// as entries with an empty value. Exactly those are dropped before the comparison.
	tolerate := func(got []entry, val func(common.Hash) []byte) []entry {
		if !vs.Known("TestVerifC17Rollback", c17KnownEmptyBlob) || dl.buffer.empty() {
			return got
		}
		var out []entry
		for _, e := range got {
			if len(e.v) == 0 && len(val(e.h)) == 0 {
				in.p.excluded++
				continue
			}
			out = append(out, e)
		}
		return out
	}
	compare := func(got []entry, keys []common.Hash, val func(common.Hash) []byte, what string) {
		var render []string
		for _, e := range got {
			render = append(render, fmt.Sprintf("%x=%x", e.h[:4], e.v))
		}
		if len(got) != len(keys) {
			in.fail("%s: %s yields %d entries %v, the model state has %d", when, what, len(got), render, len(keys))
		}
		for i, e := range got {
			if e.h != keys[i] || !bytes.Equal(e.v, val(keys[i])) || len(e.v) == 0 {
				in.fail("%s: %s entry %d is %x=%x, model %x=%x (all: %v)", when, what, i, e.h, e.v, keys[i], val(keys[i]), render)
			}
		}
	}
	accounts := st.SortedAccounts()
	fast, err := in.db.AccountIterator(root, common.Hash{})
	if err != nil {
		in.fail("%s: AccountIterator(%x): %v", when, root, err)
	}
	compare(tolerate(drain(fast, fast.Account, "fast account iterator"), st.AccountBlob), accounts, st.AccountBlob, "fast account iterator")
	bin := dl.newBinaryAccountIterator(common.Hash{})
	compare(drain(bin, bin.Account, "binary account iterator"), accounts, st.AccountBlob, "binary account iterator")
	owners := []common.Hash{pdbAbsentAccount.Hash}
	for _, a := range pdbAddrs {
		owners = append(owners, a.Hash)
	}
	for _, owner := range owners {
		slots := st.SortedSlots(owner)
		val := func(h common.Hash) []byte { return st.SlotBlob(owner, h) }
		sfast, err := in.db.StorageIterator(root, owner, common.Hash{})
		if err != nil {
			in.fail("%s: StorageIterator(%x, %x): %v", when, root, owner, err)
		}
		compare(tolerate(drain(sfast, sfast.Slot, "fast storage iterator"), val), slots, val, fmt.Sprintf("fast storage iterator of %x", owner[:4]))
		sbin := dl.newBinaryStorageIterator(owner, common.Hash{})
		compare(drain(sbin, sbin.Slot, "binary storage iterator"), slots, val, fmt.Sprintf("binary storage iterator of %x", owner[:4]))
	}
}

// audit compares Recoverable for every root of the plan (and some roots outside the
// canonical history) with the model predicate and returns the ids by verdict. With
// a history limit and asynchronous flushing the pruned tail depends on flush timing
// (tail truncation is postponed while the persistent state id lags), so the verdicts
// are taken per instance, never carried over from another replay.
func (in *c17Inst) audit() (recoverable, refused []int) {
	for i := range in.p.roots {
		want := in.recoverableModel(i)
		if got := in.db.Recoverable(in.p.roots[i]); got != want {
			in.fail("Recoverable(root of id %d) = %v, expected %v (disk layer id %d)", i, got, want, in.db.tree.bottom().stateID())
		}
		if want {
			recoverable = append(recoverable, i)
		} else {
			refused = append(refused, i)
		}
	}
	for _, r := range []common.Hash{{}, {0x01}, in.p.sideRoot} {
		if in.db.Recoverable(r) {
			in.fail("Recoverable(%x) = true for a root that is not part of the canonical history", r)
		}
	}
	return recoverable, refused
}

// recoverableModel is the predicate of the design: below the disk layer, history
// id+1 retained, canonical.
func (in *c17Inst) recoverableModel(id int) bool {
	dl := in.db.tree.bottom()
	tail, err := in.db.stateFreezer.Tail(rawdb.DefaultHistoryGroup)
	if err != nil {
		in.fail("freezer tail: %v", err)
	}
	return uint64(id) < dl.stateID() && uint64(id)+1 > tail
}

func c17DrawPlan(rt *rapid.T) *c17Plan {
	p := &c17Plan{w: newPdbWorld()}
	maxN := 40
	if vs.Thorough() {
		maxN = 100
	}
	n := rapid.IntRange(5, maxN).Draw(rt, "transitions")
	if vs.Thorough() && rapid.IntRange(0, 49).Draw(rt, "long") == 0 {
		n = rapid.IntRange(150, 300).Draw(rt, "longTransitions")
	}
	p.maxLayers = rapid.SampledFrom([]int{1, 2, 4, 8, 128}).Draw(rt, "maxDiffLayers")
	p.cfg = Config{
		StateHistory:        rapid.SampledFrom([]uint64{0, 0, 3, 10}).Draw(rt, "stateHistory"),
		TrienodeHistory:     rapid.SampledFrom([]int64{-1, -1, 0}).Draw(rt, "trienodeHistory"),
		FullValueCheckpoint: rapid.SampledFrom([]uint32{0, 8}).Draw(rt, "fullValueCheckpoint"),
		WriteBufferSize:     rapid.SampledFrom([]int{0, 1024, 4096, 64 * 1024}).Draw(rt, "writeBuffer"),
		NoAsyncFlush:        rapid.Bool().Draw(rt, "noAsyncFlush"),
		NoAsyncGeneration:   true,
		TrieCleanSize:       rapid.SampledFrom([]int{0, 64 * 1024}).Draw(rt, "cleanCache"),
	}
	p.cfg.StateCleanSize = p.cfg.TrieCleanSize
	commitEvery := rapid.SampledFrom([]int{0, 0, 7, 20}).Draw(rt, "commitEvery")
	if p.maxLayers == 128 && commitEvery == 0 {
		commitEvery = 9 // otherwise nothing ever reaches the disk layer
	}
	head := p.w.Roots()[0]
	p.roots = []common.Hash{head}
	for i := 0; i < n; i++ {
		s := c17Step{
			ops: pdbDrawOps(rt, p.w.State(head), rapid.IntRange(1, 5).Draw(rt, "nops")),
			seq: p.w.NextSeq(),
			raw: rapid.Bool().Draw(rt, "rawKeys"),
		}
		if commitEvery > 0 {
			s.commit = rapid.IntRange(0, commitEvery-1).Draw(rt, "commit") == 0
		}
		tr := p.w.Transition(head, s.ops, s.seq, s.raw)
		head = tr.Root
		p.steps = append(p.steps, s)
		p.roots = append(p.roots, head)
	}
	// a side root: known to the world, never given to the database
	k := rapid.IntRange(0, n-1).Draw(rt, "sideParent")
	p.sideRoot = p.w.Transition(p.roots[k], []pdbOp{{pdbOpCreate, 0, 0, 1}, {pdbOpModify, 0, 0, 2}}, p.w.NextSeq(), false).Root
	return p
}

func TestVerifC17Rollback(t *testing.T) {
	st := vs.New("C17", t)
	defer func(old int) { maxDiffLayers = old }(maxDiffLayers)
	vs.Check(t, 1, func(rt *rapid.T) {
		c := st.Case()
		p := c17DrawPlan(rt)
		maxDiffLayers = p.maxLayers
		n := len(p.steps)

		// first instance: audit Recoverable for every root, refuse non-recoverable targets
		in := p.open(rt)
		dl := in.db.tree.bottom()
		disk := int(dl.stateID())
		if dl.rootHash() != p.roots[disk] {
			in.fail("disk layer root %x is not the root of state id %d", dl.rootHash(), disk)
		}
		recoverable, refused := in.audit()
		bogus := []common.Hash{{}, {0x01}, p.sideRoot}
		// refused targets: error and nothing changes
		before := in.dump()
		tryRefused := append([]common.Hash{}, bogus...)
		for k := 0; k < 3 && len(refused) > 0; k++ {
			tryRefused = append(tryRefused, p.roots[refused[rapid.IntRange(0, len(refused)-1).Draw(rt, "refusedTarget")]])
		}
		for _, r := range tryRefused {
			c.Fault()
			if err := in.db.Recover(r); err == nil {
				in.fail("Recover(%x) succeeded although the root is not recoverable", r)
			}
			if after := in.dump(); after != before {
				in.fail("refused Recover(%x) changed the database:\n before %s\n after  %s", r, before, after)
			}
		}
		in.close()

		// targets: one step back, the oldest recoverable, and drawn ones in between
		var targets []int
		if len(recoverable) > 0 {
			targets = append(targets, recoverable[len(recoverable)-1], recoverable[0])
			extra := 1
			if vs.Thorough() {
				extra = 2
			}
			for k := 0; k < extra; k++ {
				targets = append(targets, recoverable[rapid.IntRange(0, len(recoverable)-1).Draw(rt, "target")])
			}
		}
		sort.Ints(targets)
		var (
			crossed, destructReverted bool
			anyBuffered               bool
			done                      = map[int]bool{}
		)
		for _, tgt := range targets {
			if done[tgt] {
				continue
			}
			done[tgt] = true
			c.Fault()
			in := p.open(rt)
			if got := int(in.db.tree.bottom().stateID()); got != disk {
				in.fail("VERIF-HARNESS-BUG: replay reached disk id %d, first instance %d", got, disk)
			}
			in.audit()
			bufLayers := int(in.db.tree.bottom().buffer.layers)
			if !in.db.Recoverable(p.roots[tgt]) {
				// pruned in this replay (flush timing): must be refused without any change
				before := in.dump()
				if err := in.db.Recover(p.roots[tgt]); err == nil {
					in.fail("Recover(root of id %d) succeeded although Recoverable reported false", tgt)
				}
				if after := in.dump(); after != before {
					in.fail("refused Recover(#%d) changed the database:\n before %s\n after  %s", tgt, before, after)
				}
				in.close()
				continue
			}
			anyBuffered = anyBuffered || bufLayers > 0
			if err := in.db.Recover(p.roots[tgt]); err != nil {
				in.fail("Recover(root of id %d) failed although Recoverable reported true: %v", tgt, err)
			}
			in.trace = append(in.trace, fmt.Sprintf("recover -> #%d", tgt))
			if got := in.db.tree.len(); got != 1 {
				in.fail("after Recover the layer tree holds %d layers, expected only the disk layer", got)
			}
			in.verifyPersistent(tgt, fmt.Sprintf("after Recover(#%d)", tgt))
			// histories above the target are gone, the retained ones below are intact
			for _, f := range []struct {
				name string
				s    ethdb.ResettableAncientStore
			}{{"state", in.db.stateFreezer}, {"trienode", in.db.trienodeFreezer}} {
				if f.s == nil {
					continue
				}
				if head, err := f.s.Ancients(); err != nil || head != uint64(tgt) {
					in.fail("after Recover(#%d) the %s history head is %d (err %v)", tgt, f.name, head, err)
				}
			}
			tail, _ := in.db.stateFreezer.Tail(rawdb.DefaultHistoryGroup)
			for j := int(tail) + 1; j <= tgt; j++ {
				h, err := readStateHistory(in.db.stateFreezer, uint64(j))
				if err != nil {
					in.fail("after Recover(#%d) state history %d is unreadable: %v", tgt, j, err)
				}
				if h.meta.root != p.roots[j] || h.meta.parent != p.roots[j-1] {
					in.fail("after Recover(#%d) state history %d links %x<-%x, expected %x<-%x", tgt, j, h.meta.root, h.meta.parent, p.roots[j], p.roots[j-1])
				}
			}
			// every root above the target is gone, deeper ones stay recoverable as before
			for i := tgt; i <= n; i++ {
				if in.db.Recoverable(p.roots[i]) {
					in.fail("after Recover(#%d) the root of id %d is reported recoverable", tgt, i)
				}
			}
			// re-extend from the recovered state
			head, id := p.roots[tgt], tgt
			saved := p.roots
			p.roots = append(append([]common.Hash{}, p.roots[:tgt+1]...))
			for k, m := 0, rapid.IntRange(1, 3).Draw(rt, "extend"); k < m; k++ {
				tr := p.w.Transition(head, pdbDrawOps(rt, p.w.State(head), rapid.IntRange(1, 4).Draw(rt, "nops")), p.w.NextSeq(), rapid.Bool().Draw(rt, "rawKeys"))
				if err := in.db.Update(tr.Root, tr.Parent, uint64(id+1), tr.Nodes, tr.States); err != nil {
					in.fail("Update on the recovered state #%d failed: %v", tgt, err)
				}
				in.trace = append(in.trace, fmt.Sprintf("re-extend %x %v", tr.Root[:4], tr.Ops))
				head, id = tr.Root, id+1
				p.roots = append(p.roots, head)
				if d := pdbVerifyReads(in.db, p.w, head); d != "" {
					in.fail("after re-extending the recovered state #%d: %s", tgt, d)
				}
			}
			if err := in.db.Commit(head, false); err != nil {
				in.fail("Commit after re-extending the recovered state #%d failed: %v", tgt, err)
			}
			in.verifyPersistent(id, fmt.Sprintf("after Recover(#%d), re-extension and commit", tgt))
			p.roots = saved
			in.close()

			if bufLayers > 0 && bufLayers < disk-tgt {
				crossed = true
			}
			for j := tgt + 1; j <= disk; j++ {
				// rebuild cheaply: the transition's destruct list tells whether a destruct is reverted
				if tr := p.w.Transition(p.roots[j-1], p.steps[j-1].ops, p.steps[j-1].seq, p.steps[j-1].raw); len(tr.Destructed) > 0 {
					destructReverted = true
				}
			}
		}

		nt := crossed || destructReverted
		if p.excluded > 0 {
			st.Excluded()
			c.Class("known-empty-blob-entries-dropped")
		}
		c.NonTrivial(nt, fmt.Sprintf("%d/%d/%d/%v/%x", p.maxLayers, p.cfg.WriteBufferSize, p.cfg.StateHistory, targets, p.roots[n]))
		c.Classf("history=%d", p.cfg.StateHistory)
		c.Classf("buffer=%d", p.cfg.WriteBufferSize)
		if p.cfg.TrienodeHistory >= 0 {
			c.Class("trienode-history")
		}
		switch {
		case len(targets) == 0:
			c.Class("no-recoverable-root")
		case crossed:
			c.Class("rollback-crosses-buffer-boundary")
		case anyBuffered:
			c.Class("rollback-inside-buffer")
		default:
			c.Class("rollback-on-disk")
		}
		if destructReverted {
			c.Class("reverts-destruct")
		}
		if len(refused) > 0 && refused[0] < disk {
			c.Class("pruned-tail-refused")
		}
		c.Sample(nt, func() any {
			return map[string]any{"transitions": n, "disk_id": disk, "targets": targets,
				"recoverable": len(recoverable), "config": fmt.Sprintf("maxDiffLayers=%d %+v", p.maxLayers, p.cfg)}
		})
	})
}
