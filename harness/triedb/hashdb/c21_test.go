//go:build verif

package hashdb

// C21: the hash-scheme node database never drops a node that is reachable from a
// root which is still referenced (or was committed), collects everything that is
// reachable only from fully dereferenced roots, and reports a memory size that
// matches its cached contents. The reachable node sets come from the independent
// reference trie construction in kit/reftrie, not from geth's trie package.

import (
	"bytes"
	"fmt"
	"sort"
	"strings"
	"testing"

	"github.com/ethereum/go-ethereum/common"
	"github.com/ethereum/go-ethereum/core/rawdb"
	"github.com/ethereum/go-ethereum/core/types"
	"github.com/ethereum/go-ethereum/ethdb"
	"github.com/ethereum/go-ethereum/rlp"
	"github.com/ethereum/go-ethereum/trie"
	"github.com/ethereum/go-ethereum/trie/trienode"
	"github.com/holiman/uint256"
	"pgregory.net/rapid"
	"verif.local/kit/refrlp"
	"verif.local/kit/reftrie"
	vs "verif.local/kit/stat"
)

// ---- disk wrapper: records what the node database writes and, with k > 1, makes
// its batches report a k-fold ValueSize so that the "batch reached
// ethdb.IdealBatchSize, write it out and start over" branches of Commit and Cap
// are taken every few nodes instead of once per 100 KiB (the states here are a
// few KiB). Contents and semantics of the store are unchanged. ----

type c21Rec struct {
	written map[common.Hash]struct{} // node keys written to disk since the last reset
	flushes int                      // non-empty batch writes since the last reset
}

func (r *c21Rec) reset() { r.written, r.flushes = map[common.Hash]struct{}{}, 0 }

type c21Batch struct {
	ethdb.Batch
	k       int
	rec     *c21Rec
	pending []common.Hash
}

func (b *c21Batch) Put(key, value []byte) error {
	if len(key) == common.HashLength {
		b.pending = append(b.pending, common.BytesToHash(key))
	}
	return b.Batch.Put(key, value)
}
func (b *c21Batch) ValueSize() int { return b.Batch.ValueSize() * b.k }
func (b *c21Batch) Write() error {
	if err := b.Batch.Write(); err != nil {
		return err
	}
	if len(b.pending) > 0 {
		b.rec.flushes++
	}
	for _, h := range b.pending {
		b.rec.written[h] = struct{}{}
	}
	return nil
}
func (b *c21Batch) Reset() {
	b.pending = b.pending[:0]
	b.Batch.Reset()
}

type c21Disk struct {
	ethdb.Database
	k   int
	rec *c21Rec
}

func (d c21Disk) NewBatch() ethdb.Batch {
	return &c21Batch{Batch: d.Database.NewBatch(), k: d.k, rec: d.rec}
}
func (d c21Disk) NewBatchWithSize(size int) ethdb.Batch {
	return &c21Batch{Batch: d.Database.NewBatchWithSize(size), k: d.k, rec: d.rec}
}

type c21Acct struct {
	nonce   uint64
	storage map[string][]byte // 32-byte slot key -> non-empty value
}

type c21World map[string]*c21Acct // 32-byte account key -> account

func (w c21World) clone() c21World {
	out := c21World{}
	for k, a := range w {
		na := &c21Acct{nonce: a.nonce, storage: map[string][]byte{}}
		for sk, sv := range a.storage {
			na.storage[sk] = sv
		}
		out[k] = na
	}
	return out
}

func c21Key(b0, b1, last byte) string {
	k := make([]byte, 32)
	k[0], k[1] = b0, b1
	for i := 2; i < 31; i++ {
		k[i] = 0x33
	}
	k[31] = last
	return string(k)
}

var (
	// keys with one-nibble, two-nibble and 62-nibble shared prefixes
	c21AcctKeys = []string{
		c21Key(0x00, 0x00, 1), c21Key(0x00, 0x10, 1), c21Key(0x01, 0x00, 1), c21Key(0x10, 0x00, 1),
		c21Key(0x11, 0x00, 1), c21Key(0x11, 0x00, 2), c21Key(0xf0, 0x00, 1), c21Key(0xff, 0xff, 1),
	}
	c21SlotKeys = []string{
		c21Key(0x00, 0x00, 7), c21Key(0x08, 0x00, 7), c21Key(0x80, 0x00, 7), c21Key(0x80, 0x00, 8), c21Key(0x8f, 0x01, 7), c21Key(0xee, 0x00, 7),
	}
	c21Values = [][]byte{{1}, {2}, {0x7f}, {0x81, 0x80}, bytes.Repeat([]byte{0xab}, 20), bytes.Repeat([]byte{0xcd}, 32)}
)

func c21StorageID(st map[string][]byte) string {
	keys := make([]string, 0, len(st))
	for k := range st {
		keys = append(keys, k)
	}
	sort.Strings(keys)
	var sb strings.Builder
	for _, k := range keys {
		sb.WriteString(k)
		sb.WriteByte(byte(len(st[k])))
		sb.Write(st[k])
	}
	return sb.String()
}

// c21Version is one world state with its reference node set (hash -> blob).
type c21Version struct {
	world c21World
	root  common.Hash
	nodes map[common.Hash][]byte
	seq   int
}

type c21Machine struct {
	rt         *rapid.T // source of draws (nil in the scripted scenario)
	ft         c21Fataler
	db         *Database
	versions   map[common.Hash]*c21Version
	order      []common.Hash // creation order of distinct roots
	refs       map[common.Hash]int
	committed  map[common.Hash]bool
	storCache  map[string]*reftrie.Result
	capFlushed map[common.Hash]bool
	parents    map[common.Hash]map[common.Hash]struct{} // child -> nodes referring to it (any version)
	indexed    map[common.Hash]bool
	block      uint64
	trace      []string
	orphans    int // cached unreachable nodes whose referrer was persisted (known-finding class)

	rec      *c21Rec
	inflate  int                 // factor by which the disk batches overstate their size (1 = plain)
	stepNo   int                 // number of completed steps
	stale    map[common.Hash]int // node the database itself wrote to disk in step N and has kept cached ever since
	splitCmt bool                // a Commit went out in several batches
	splitCap bool                // a Cap went out in several batches

	knownOrphan bool   // vs.Known(c21TestName, c21OrphanClass): tolerate exactly that class
	excluded    func() // counts one excluded case in the statistics
	excludedYet bool

	sharedDeref   bool // a root was dereferenced while sharing a node with another live root
	capThenCommit bool // a commit needed a node that an earlier Cap had evicted
	gcHappened    bool
	extShared     bool // one storage trie referenced from several account leaves
	reinjected    bool // a node evicted to disk was inserted again
}

type c21Fataler interface {
	Fatalf(string, ...any)
}

const (
	c21TestName    = "TestVerifC21Machine"
	c21OrphanClass = "orphan-child-of-persisted-parent"
)

func c21New(ft c21Fataler, rt *rapid.T, st *vs.S, inflate int) *c21Machine {
	rec := &c21Rec{}
	rec.reset()
	return &c21Machine{
		rt: rt, ft: ft, db: New(c21Disk{Database: rawdb.NewMemoryDatabase(), k: inflate, rec: rec}, nil),
		rec: rec, inflate: inflate, stale: map[common.Hash]int{},
		versions: map[common.Hash]*c21Version{}, refs: map[common.Hash]int{}, committed: map[common.Hash]bool{},
		storCache: map[string]*reftrie.Result{}, capFlushed: map[common.Hash]bool{},
		parents: map[common.Hash]map[common.Hash]struct{}{}, indexed: map[common.Hash]bool{},
		knownOrphan: vs.Known(c21TestName, c21OrphanClass), excluded: st.Excluded,
	}
}

func (m *c21Machine) fatalf(format string, a ...any) {
	m.ft.Fatalf("%s\ntrace: %s", fmt.Sprintf(format, a...), strings.Join(m.trace, " "))
}

func c21AccountRLP(nonce uint64, root common.Hash) []byte {
	enc, err := rlp.EncodeToBytes(&types.StateAccount{
		Nonce:    nonce,
		Balance:  uint256.NewInt(nonce * 7),
		Root:     root,
		CodeHash: types.EmptyCodeHash.Bytes(),
	})
	if err != nil {
		panic(err)
	}
	return enc
}

// reference builds the reference node set of a world.
func (m *c21Machine) reference(w c21World) (common.Hash, map[common.Hash][]byte, map[string]common.Hash) {
	nodes := map[common.Hash][]byte{}
	sroots := map[string]common.Hash{}
	akv := map[string][]byte{}
	for k, a := range w {
		sroot := common.Hash(reftrie.EmptyRoot)
		if len(a.storage) > 0 {
			id := c21StorageID(a.storage)
			res := m.storCache[id]
			if res == nil {
				res = reftrie.Build(a.storage)
				m.storCache[id] = res
			}
			sroot = common.Hash(res.Root)
			for h, blob := range res.ByHash {
				nodes[common.Hash(h)] = blob
			}
		}
		sroots[k] = sroot
		akv[k] = c21AccountRLP(a.nonce, sroot)
	}
	res := reftrie.Build(akv)
	for h, blob := range res.ByHash {
		nodes[common.Hash(h)] = blob
	}
	return common.Hash(res.Root), nodes, sroots
}

func (m *c21Machine) live(root common.Hash) bool {
	return m.refs[root] > 0 || m.committed[root]
}

func (m *c21Machine) liveRoots() []common.Hash {
	var out []common.Hash
	for _, r := range m.order {
		if m.live(r) {
			out = append(out, r)
		}
	}
	return out
}

func (m *c21Machine) referencedRoots() []common.Hash {
	var out []common.Hash
	for _, r := range m.order {
		if m.refs[r] > 0 {
			out = append(out, r)
		}
	}
	return out
}

// mutate draws a few world edits.
func (m *c21Machine) mutate(w c21World) (c21World, string) {
	rt := m.rt
	nw := w.clone()
	var notes []string
	n := rapid.IntRange(1, 4).Draw(rt, "edits")
	for i := 0; i < n; i++ {
		keys := make([]string, 0, len(nw))
		for k := range nw {
			keys = append(keys, k)
		}
		sort.Strings(keys)
		pick := func(label string) string { return keys[rapid.IntRange(0, len(keys)-1).Draw(rt, label)] }
		op := rapid.SampledFrom([]string{"nonce", "add", "del", "slot", "slot", "slot", "delslot", "copy", "copy", "clear"}).Draw(rt, "edit")
		if len(keys) == 0 {
			op = "add"
		}
		switch op {
		case "nonce":
			nw[pick("acct")].nonce++
		case "add":
			k := c21AcctKeys[rapid.IntRange(0, len(c21AcctKeys)-1).Draw(rt, "newAcct")]
			if _, ok := nw[k]; !ok {
				nw[k] = &c21Acct{nonce: uint64(rapid.IntRange(0, 2).Draw(rt, "nonce")), storage: map[string][]byte{}}
			} else {
				nw[k].nonce++
			}
		case "del":
			if len(keys) > 1 {
				delete(nw, pick("acct"))
			}
		case "slot":
			a := nw[pick("acct")]
			sk := c21SlotKeys[rapid.IntRange(0, len(c21SlotKeys)-1).Draw(rt, "slot")]
			a.storage[sk] = c21Values[rapid.IntRange(0, len(c21Values)-1).Draw(rt, "val")]
		case "delslot":
			a := nw[pick("acct")]
			sks := make([]string, 0, len(a.storage))
			for sk := range a.storage {
				sks = append(sks, sk)
			}
			sort.Strings(sks)
			if len(sks) > 0 {
				delete(a.storage, sks[rapid.IntRange(0, len(sks)-1).Draw(rt, "slotIdx")])
			}
		case "copy":
			from, to := nw[pick("from")], nw[pick("to")]
			if from != to {
				to.storage = map[string][]byte{}
				for sk, sv := range from.storage {
					to.storage[sk] = sv
				}
			}
		case "clear":
			nw[pick("acct")].storage = map[string][]byte{}
		}
		notes = append(notes, op)
	}
	return nw, strings.Join(notes, ",")
}

// genesis draws a starting world: several accounts, some of which share one of two
// storage templates (same storage trie under several account leaves).
func (m *c21Machine) genesis() c21World {
	rt := m.rt
	w := c21World{}
	templates := make([]map[string][]byte, 2)
	for i := range templates {
		templates[i] = map[string][]byte{}
		for j, n := 0, rapid.IntRange(1, 4).Draw(rt, "tmplSlots"); j < n; j++ {
			sk := c21SlotKeys[rapid.IntRange(0, len(c21SlotKeys)-1).Draw(rt, "slot")]
			templates[i][sk] = c21Values[rapid.IntRange(0, len(c21Values)-1).Draw(rt, "val")]
		}
	}
	n := rapid.IntRange(2, 6).Draw(rt, "accounts")
	for i := 0; i < n; i++ {
		k := c21AcctKeys[rapid.IntRange(0, len(c21AcctKeys)-1).Draw(rt, "newAcct")]
		a := &c21Acct{nonce: uint64(rapid.IntRange(0, 2).Draw(rt, "nonce")), storage: map[string][]byte{}}
		if t := rapid.IntRange(0, 3).Draw(rt, "tmpl"); t < 2 {
			for sk, sv := range templates[t] {
				a.storage[sk] = sv
			}
		} else if t == 2 {
			sk := c21SlotKeys[rapid.IntRange(0, len(c21SlotKeys)-1).Draw(rt, "slot")]
			a.storage[sk] = c21Values[rapid.IntRange(0, len(c21Values)-1).Draw(rt, "val")]
		}
		w[k] = a
	}
	return w
}

// opUpdate derives a new version from a live parent (or from the empty state, or
// by returning to the content of an earlier version) and feeds the resulting dirty
// node sets to the database exactly as core/state does: storage tries first, the
// account trie with leaf collection last, then a root reference.
func (m *c21Machine) opUpdate() {
	rt := m.rt
	var (
		parentRoot  = types.EmptyRootHash
		parentWorld = c21World{}
	)
	lives := m.liveRoots()
	if len(lives) > 0 {
		// prefer recent versions, allow forks from any live one
		idx := len(lives) - 1
		if rapid.IntRange(0, 3).Draw(rt, "fork") == 0 {
			idx = rapid.IntRange(0, len(lives)-1).Draw(rt, "parentIdx")
		}
		parentRoot = lives[idx]
		parentWorld = m.versions[parentRoot].world
	}
	var (
		nw   c21World
		note string
	)
	if len(lives) == 0 {
		nw, note = m.genesis(), "genesis"
	} else if len(m.order) > 1 && rapid.IntRange(0, 5).Draw(rt, "revert") == 0 {
		// return to the content of an earlier version (live or not): re-creates its nodes
		old := m.versions[m.order[rapid.IntRange(0, len(m.order)-1).Draw(rt, "revertTo")]]
		nw, note = old.world.clone(), fmt.Sprintf("revert->v%d", old.seq)
	} else {
		nw, note = m.mutate(parentWorld)
	}
	m.applyUpdate(parentRoot, parentWorld, nw, note)
}

// applyUpdate performs the transition parentWorld -> nw on top of parentRoot.
func (m *c21Machine) applyUpdate(parentRoot common.Hash, parentWorld, nw c21World, note string) {
	wantRoot, nodes, sroots := m.reference(nw)
	_, _, parentSroots := m.reference(parentWorld)

	merged := trienode.NewMergedNodeSet()
	at, err := trie.New(trie.StateTrieID(parentRoot), m.db)
	if err != nil {
		m.fatalf("open account trie at live root %x: %v", parentRoot, err)
	}
	keys := map[string]struct{}{}
	for k := range parentWorld {
		keys[k] = struct{}{}
	}
	for k := range nw {
		keys[k] = struct{}{}
	}
	sorted := make([]string, 0, len(keys))
	for k := range keys {
		sorted = append(sorted, k)
	}
	sort.Strings(sorted)
	for _, k := range sorted {
		oa, na := parentWorld[k], nw[k]
		if na == nil {
			if err := at.Delete([]byte(k)); err != nil {
				m.fatalf("account delete: %v", err)
			}
			continue
		}
		oldStorage := map[string][]byte{}
		oldSroot := types.EmptyRootHash
		if oa != nil {
			oldStorage, oldSroot = oa.storage, parentSroots[k]
		}
		if c21StorageID(oldStorage) != c21StorageID(na.storage) {
			st, err := trie.New(trie.StorageTrieID(parentRoot, common.BytesToHash([]byte(k)), oldSroot), m.db)
			if err != nil {
				m.fatalf("open storage trie %x of live root %x: %v", oldSroot, parentRoot, err)
			}
			sks := map[string]struct{}{}
			for sk := range oldStorage {
				sks[sk] = struct{}{}
			}
			for sk := range na.storage {
				sks[sk] = struct{}{}
			}
			ssorted := make([]string, 0, len(sks))
			for sk := range sks {
				ssorted = append(ssorted, sk)
			}
			sort.Strings(ssorted)
			for _, sk := range ssorted {
				nv, ok := na.storage[sk]
				if !ok {
					err = st.Delete([]byte(sk))
				} else if !bytes.Equal(nv, oldStorage[sk]) {
					err = st.Update([]byte(sk), nv)
				}
				if err != nil {
					m.fatalf("storage update under live root %x: %v", parentRoot, err)
				}
			}
			sroot, set := st.Commit(false)
			if sroot != sroots[k] {
				m.ft.Fatalf("VERIF-HARNESS-BUG: storage root from geth's trie %x differs from the reference %x (C06 territory)", sroot, sroots[k])
			}
			if set != nil {
				if err := merged.Merge(set); err != nil {
					m.fatalf("merge: %v", err)
				}
			}
		} else if oa != nil && oa.nonce == na.nonce {
			continue // unchanged account
		}
		if err := at.Update([]byte(k), c21AccountRLP(na.nonce, sroots[k])); err != nil {
			m.fatalf("account update under live root %x: %v", parentRoot, err)
		}
	}
	root, set := at.Commit(true)
	if root != wantRoot {
		m.ft.Fatalf("VERIF-HARNESS-BUG: account root from geth's trie %x differs from the reference %x (C06 territory)", root, wantRoot)
	}
	if set != nil {
		if err := merged.Merge(set); err != nil {
			m.fatalf("merge: %v", err)
		}
	}
	for _, s := range merged.Sets {
		for _, n := range s.Nodes {
			if !n.IsDeleted() && m.capFlushed[n.Hash] {
				if _, cached := m.db.dirties[n.Hash]; !cached {
					m.reinjected = true
				}
			}
		}
	}
	m.block++
	if err := m.db.Update(root, parentRoot, m.block, merged); err != nil {
		m.fatalf("Update: %v", err)
	}
	v := m.versions[root]
	if v == nil {
		v = &c21Version{world: nw, root: root, nodes: nodes, seq: len(m.order)}
		m.versions[root] = v
		m.order = append(m.order, root)
		m.indexParents(nodes)
	}
	// the chain keeps every new state alive with a meta-root reference
	m.doReference(root)
	// sharing statistics: one storage root under several account leaves
	cnt := map[common.Hash]int{}
	for k, r := range sroots {
		if r != types.EmptyRootHash && len(nw[k].storage) > 0 {
			cnt[r]++
			if cnt[r] > 1 {
				m.extShared = true
			}
		}
	}
	m.trace = append(m.trace, fmt.Sprintf("U[v%d<-%x %s]", v.seq, parentRoot[:2], note))
}

func (m *c21Machine) doReference(root common.Hash) {
	_, cached := m.db.dirties[root]
	m.db.Reference(root, common.Hash{})
	if cached {
		m.refs[root]++
	}
	// A root which already lives on disk is skipped by Reference (documented); it
	// is readable forever and needs no count.
	if !cached && root != types.EmptyRootHash {
		m.committed[root] = m.committed[root] || m.onDisk(root)
	}
}

func (m *c21Machine) onDisk(h common.Hash) bool {
	return len(rawdb.ReadLegacyTrieNode(m.db.diskdb, h)) > 0
}

func (m *c21Machine) opReference() {
	roots := m.referencedRoots()
	if len(roots) == 0 {
		return
	}
	r := roots[rapid.IntRange(0, len(roots)-1).Draw(m.rt, "refRoot")]
	m.doReference(r)
	m.trace = append(m.trace, fmt.Sprintf("R[v%d]", m.versions[r].seq))
}

func (m *c21Machine) opDereference() {
	roots := m.referencedRoots()
	if len(roots) == 0 {
		return
	}
	// like the chain's trie gc: mostly the oldest referenced root
	idx := 0
	if rapid.IntRange(0, 2).Draw(m.rt, "derefAny") == 0 {
		idx = rapid.IntRange(0, len(roots)-1).Draw(m.rt, "derefRoot")
	}
	r := roots[idx]
	times := 1
	if rapid.IntRange(0, 2).Draw(m.rt, "derefAll") == 0 {
		times = m.refs[r]
	}
	m.derefRoot(r, times)
}

func (m *c21Machine) derefRoot(r common.Hash, times int) {
	if m.refs[r] == times {
		for _, o := range m.referencedRoots() {
			if o == r {
				continue
			}
			for h := range m.versions[r].nodes {
				if _, ok := m.versions[o].nodes[h]; ok {
					m.sharedDeref = true
					break
				}
			}
		}
	}
	before := len(m.db.dirties)
	for i := 0; i < times; i++ {
		m.db.Dereference(r)
		m.refs[r]--
	}
	if len(m.db.dirties) < before {
		m.gcHappened = true
	}
	m.trace = append(m.trace, fmt.Sprintf("D[v%d x%d]", m.versions[r].seq, times))
}

func (m *c21Machine) opCap() {
	_, size := m.db.Size()
	limit := []common.StorageSize{0, 1, size / 4, size / 2, size - 1, size, size * 2}[rapid.IntRange(0, 6).Draw(m.rt, "capLimit")]
	m.capTo(limit)
}

func (m *c21Machine) capTo(limit common.StorageSize) {
	_, size := m.db.Size()
	before := map[common.Hash]struct{}{}
	for h := range m.db.dirties {
		before[h] = struct{}{}
	}
	if err := m.db.Cap(limit); err != nil {
		m.fatalf("Cap(%v): %v", limit, err)
	}
	flushed := 0
	for h := range before {
		if _, ok := m.db.dirties[h]; !ok {
			m.capFlushed[h] = true
			flushed++
			if !m.onDisk(h) {
				m.fatalf("Cap(%v) evicted node %x from memory without persisting it", limit, h)
			}
		}
	}
	if m.rec.flushes > 1 {
		m.splitCap = true
	}
	if _, after := m.db.Size(); after > limit && len(m.db.dirties) > 0 {
		m.fatalf("Cap(%v) left %v in memory with %d nodes still cached", limit, after, len(m.db.dirties))
	}
	m.trace = append(m.trace, fmt.Sprintf("C[%d/%d flushed=%d batches=%d]", int(limit), int(size), flushed, m.rec.flushes))
}

func (m *c21Machine) opCommit() {
	roots := m.referencedRoots()
	if len(roots) == 0 {
		return
	}
	m.commitRoot(roots[rapid.IntRange(0, len(roots)-1).Draw(m.rt, "commitRoot")])
}

func (m *c21Machine) commitRoot(r common.Hash) {
	for h := range m.versions[r].nodes {
		if m.capFlushed[h] {
			if _, cached := m.db.dirties[h]; !cached {
				m.capThenCommit = true
				break
			}
		}
	}
	if err := m.db.Commit(r, false); err != nil {
		m.fatalf("Commit(v%d): %v", m.versions[r].seq, err)
	}
	m.committed[r] = true
	if m.rec.flushes > 1 {
		m.splitCmt = true
	}
	for h, blob := range m.versions[r].nodes {
		if got := rawdb.ReadLegacyTrieNode(m.db.diskdb, h); !bytes.Equal(got, blob) {
			m.fatalf("Commit(v%d): node %x not persisted correctly (got %d bytes)", m.versions[r].seq, h, len(got))
		}
	}
	m.trace = append(m.trace, fmt.Sprintf("K[v%d batches=%d]", m.versions[r].seq, m.rec.flushes))
}

// c21Children extracts, with the reference RLP decoder, the hashes a node blob
// refers to: child nodes of branch/extension nodes (through embedded nodes) and,
// for account leaves, the storage root (hashdb's "external" child).
func c21Children(blob []byte) []common.Hash {
	it, err := refrlp.Decode(blob)
	if err != nil {
		return nil
	}
	var out []common.Hash
	var walk func(it refrlp.Item)
	ref := func(c refrlp.Item) {
		if c.IsList {
			walk(c)
		} else if len(c.Str) == 32 {
			out = append(out, common.BytesToHash(c.Str))
		}
	}
	walk = func(it refrlp.Item) {
		if !it.IsList {
			return
		}
		switch len(it.List) {
		case 17:
			for i := 0; i < 16; i++ {
				ref(it.List[i])
			}
		case 2:
			key := it.List[0].Str
			if len(key) > 0 && key[0]&0x20 != 0 { // leaf
				acc, err := refrlp.Decode(it.List[1].Str)
				if err == nil && acc.IsList && len(acc.List) == 4 && len(acc.List[2].Str) == 32 {
					if root := common.BytesToHash(acc.List[2].Str); root != types.EmptyRootHash {
						out = append(out, root)
					}
				}
			} else {
				ref(it.List[1])
			}
		}
	}
	walk(it)
	return out
}

func (m *c21Machine) indexParents(nodes map[common.Hash][]byte) {
	for h, blob := range nodes {
		if m.indexed[h] {
			continue
		}
		m.indexed[h] = true
		for _, c := range c21Children(blob) {
			if m.parents[c] == nil {
				m.parents[c] = map[common.Hash]struct{}{}
			}
			m.parents[c][h] = struct{}{}
		}
	}
}

// unexplainedOrphans returns the cached nodes that are unreachable from every
// referenced root and cannot be attributed to persistence: reference counts are
// only maintained between cached nodes, so once a parent has been written to disk
// (Cap, Commit) a child that stays cached, or is inserted again, is no longer
// collectable through that parent. Such a node is tolerated if one of its parents
// is on disk, or is itself a tolerated orphan that still holds a count on it. With
// nothing on disk this is exactly "no unreachable node stays cached".
//
// The tolerance never extends to a node which the database itself wrote to disk
// (Cap, Commit) and did not uncache in that same step (m.stale): the class is about
// nodes that legitimately stay cached (or are inserted again) while a REFERRER is
// persisted; a node that is persisted itself leaves the cache in the same call on
// the unchanged tree, so its lingering after the last dereference has no such excuse.
func (m *c21Machine) unexplainedOrphans(reachable map[common.Hash]struct{}) (bad []common.Hash, tolerated int) {
	orphans := map[common.Hash]bool{}
	for h := range m.db.dirties {
		if _, ok := reachable[h]; !ok {
			orphans[h] = false
		}
	}
	if len(orphans) == 0 {
		return nil, 0
	}
	for changed := true; changed; {
		changed = false
		for h, ok := range orphans {
			if ok {
				continue
			}
			if _, stale := m.stale[h]; stale {
				continue
			}
			for p := range m.parents[h] {
				if explained, isOrphan := orphans[p]; (isOrphan && explained) || m.onDisk(p) {
					orphans[h], changed = true, true
					break
				}
			}
		}
	}
	for h, ok := range orphans {
		if ok {
			tolerated++
		} else {
			bad = append(bad, h)
		}
	}
	sort.Slice(bad, func(i, j int) bool { return bytes.Compare(bad[i][:], bad[j][:]) < 0 })
	return bad, tolerated
}

// firstOrphan returns the smallest cached hash that no referenced root reaches.
func (m *c21Machine) firstOrphan(reachable map[common.Hash]struct{}) common.Hash {
	var hs []common.Hash
	for h := range m.db.dirties {
		if _, ok := reachable[h]; !ok {
			hs = append(hs, h)
		}
	}
	sort.Slice(hs, func(i, j int) bool { return bytes.Compare(hs[i][:], hs[j][:]) < 0 })
	return hs[0]
}

// explain lists the nodes that refer to h and where they are now.
func (m *c21Machine) explain(h common.Hash) string {
	var sb strings.Builder
	var ps []common.Hash
	for p := range m.parents[h] {
		ps = append(ps, p)
	}
	sort.Slice(ps, func(i, j int) bool { return bytes.Compare(ps[i][:], ps[j][:]) < 0 })
	for _, ph := range ps {
		n, cached := m.db.dirties[ph]
		par := -1
		if cached {
			par = int(n.parents)
		}
		fmt.Fprintf(&sb, "  parent %x: cached=%v parents=%d onDisk=%v capFlushed=%v\n", ph[:4], cached, par, m.onDisk(ph), m.capFlushed[ph])
	}
	fmt.Fprintf(&sb, "  node itself: onDisk=%v capFlushed=%v", m.onDisk(h), m.capFlushed[h])
	return sb.String()
}

// check evaluates the invariants after a step.
func (m *c21Machine) check() {
	db := m.db
	// bookkeeping: which nodes did the database write to disk in this step and keep
	// cached nevertheless, and which of the earlier ones have left the cache since
	m.stepNo++
	for h := range m.stale {
		if _, cached := db.dirties[h]; !cached {
			delete(m.stale, h)
		}
	}
	for h := range m.rec.written {
		if _, cached := db.dirties[h]; cached {
			if _, ok := m.stale[h]; !ok {
				m.stale[h] = m.stepNo
			}
		}
	}
	m.rec.reset()
	// (1) everything reachable from a referenced or committed root is readable
	reachable := map[common.Hash]struct{}{}
	for _, r := range m.order {
		v := m.versions[r]
		if m.refs[r] > 0 {
			for h := range v.nodes {
				reachable[h] = struct{}{}
			}
		}
		if !m.live(r) {
			continue
		}
		reader, err := db.NodeReader(r)
		if err != nil {
			m.fatalf("state v%d (refs=%d committed=%v) unavailable: %v", v.seq, m.refs[r], m.committed[r], err)
		}
		for h, blob := range v.nodes {
			got, _ := reader.Node(common.Hash{}, nil, h)
			if !bytes.Equal(got, blob) {
				_, cached := db.dirties[h]
				m.fatalf("node %x of live state v%d (refs=%d committed=%v) is not readable: got %d bytes, want %d (cached=%v, on disk=%v)",
					h, v.seq, m.refs[r], m.committed[r], len(got), len(blob), cached, m.onDisk(h))
			}
		}
	}
	// (2) nothing reachable only from removed roots stays cached
	bad, tolerated := m.unexplainedOrphans(reachable)
	if len(bad) > 0 {
		h := bad[0]
		owner := "no version"
		for _, r := range m.order {
			if _, ok := m.versions[r].nodes[h]; ok {
				owner = fmt.Sprintf("v%d(refs=%d)", m.versions[r].seq, m.refs[r])
				break
			}
		}
		if at, stale := m.stale[h]; stale {
			m.fatalf("garbage: node %x (parents=%d, of %s) is cached and unreachable from every referenced root; the database wrote it to disk itself in step %d (batch size factor %d) without uncaching it and it has been cached ever since, so no dereference collected it (%d such nodes)\n%s",
				h, db.dirties[h].parents, owner, at, m.inflate, len(bad), m.explain(h))
		}
		m.fatalf("garbage: node %x (parents=%d, of %s) is cached, unreachable from every referenced root, and none of the nodes referring to it was ever persisted (%d such nodes)\n%s",
			h, db.dirties[h].parents, owner, len(bad), m.explain(h))
	}
	if tolerated > 0 {
		// Known-finding class: the statement forbids these nodes too; they are only
		// tolerated while known_findings.json lists the class for this test.
		if !m.knownOrphan {
			h := m.firstOrphan(reachable)
			m.fatalf("garbage [class %s]: node %x (parents=%d) stays cached although no referenced root reaches it; a node referring to it was written to disk (Cap/Commit) without releasing its count, so no dereference can collect it (%d such nodes)\n%s",
				c21OrphanClass, h, db.dirties[h].parents, tolerated, m.explain(h))
		}
		if !m.excludedYet {
			m.excludedYet = true
			m.excluded()
		}
		if tolerated > m.orphans {
			m.orphans = tolerated
		}
	}
	// (3) reported size matches the cached contents
	var want common.StorageSize
	for _, n := range db.dirties {
		want += common.StorageSize(common.HashLength + len(n.node) + cachedNodeSize + len(n.external)*common.HashLength)
	}
	if _, got := db.Size(); got != want {
		m.fatalf("Size()=%v but the cached contents amount to %v (%d nodes)", got, want, len(db.dirties))
	}
	// (4) the flush list is a doubly linked list over exactly the cached nodes
	if len(db.dirties) == 0 {
		if db.oldest != (common.Hash{}) {
			m.fatalf("flush list head %x with empty cache", db.oldest)
		}
		return
	}
	seen := map[common.Hash]struct{}{}
	var prev common.Hash
	for cur := db.oldest; cur != (common.Hash{}); {
		n, ok := db.dirties[cur]
		if !ok {
			m.fatalf("flush list reaches %x which is not cached", cur)
		}
		if _, dup := seen[cur]; dup {
			m.fatalf("flush list cycles at %x", cur)
		}
		seen[cur] = struct{}{}
		// The head's back link is never read by the database (it may be stale after
		// the cache ran empty); every other back link is.
		if cur != db.oldest && n.flushPrev != prev {
			m.fatalf("flush list back link of %x is %x, want %x", cur, n.flushPrev, prev)
		}
		prev, cur = cur, n.flushNext
	}
	if len(seen) != len(db.dirties) {
		m.fatalf("flush list covers %d of %d cached nodes", len(seen), len(db.dirties))
	}
	if prev != db.newest {
		m.fatalf("flush list tail is %x but newest=%x", prev, db.newest)
	}
}

func TestVerifC21Machine(t *testing.T) {
	st := vs.New("C21", t)
	c21OrphanScenario(t, st)
	vs.Check(t, 1, func(rt *rapid.T) {
		c := st.Case()
		// 2 in 5 histories on a plain store (one batch per Cap/Commit); the others on a
		// store whose batches overstate their size so that Cap and Commit write out
		// and restart their batch every ~8, ~3 or every single node
		inflate := rapid.SampledFrom([]int{1, 1, 100, 300, 2000}).Draw(rt, "batchSizeFactor")
		m := c21New(rt, rt, st, inflate)
		maxSteps := 28
		if vs.Thorough() {
			maxSteps = 45
		}
		steps := rapid.IntRange(6, maxSteps).Draw(rt, "steps")
		counts := map[string]int{}
		for i := 0; i < steps; i++ {
			op := rapid.SampledFrom([]string{"update", "update", "update", "update", "update", "reference", "deref", "deref", "deref", "cap", "commit"}).Draw(rt, "op")
			if len(m.liveRoots()) == 0 {
				op = "update"
			} else if op == "deref" && len(m.referencedRoots()) <= 1 && rapid.IntRange(0, 2).Draw(rt, "keepLast") != 0 {
				op = "update"
			}
			switch op {
			case "update":
				m.opUpdate()
			case "reference":
				m.opReference()
			case "deref":
				m.opDereference()
			case "cap":
				m.opCap()
			case "commit":
				m.opCommit()
			}
			counts[op]++
			m.check()
		}
		nt := m.sharedDeref || m.capThenCommit
		c.NonTrivial(nt, strings.Join(m.trace, " "))
		if m.sharedDeref {
			c.Class("deref of root sharing nodes with a live root")
		}
		if m.capThenCommit {
			c.Class("commit after cap evicted one of its nodes")
		}
		if m.gcHappened {
			c.Class("gc removed nodes")
		}
		if m.extShared {
			c.Class("storage trie shared by several accounts")
		}
		if m.reinjected {
			c.Class("evicted node inserted again")
		}
		if m.orphans > 0 {
			c.Class(c21OrphanClass)
		}
		if m.splitCmt {
			c.Class("commit written in several batches")
		}
		if m.splitCap {
			c.Class("cap written in several batches")
		}
		c.Classf("batch size factor %d", inflate)
		for _, op := range []string{"cap", "commit", "reference"} {
			if counts[op] > 0 {
				c.Class("has " + op)
			}
		}
		c.Classf("versions=%d", len(m.order)/4*4)
		c.Sample(nt, func() any {
			return map[string]any{"ops": m.trace, "versions": len(m.order), "cached_nodes_at_end": len(m.db.dirties), "batch_size_factor": inflate}
		})
	})
}

// c21OrphanScenario is the minimal scripted history of the known-finding class
// "orphan-child-of-persisted-parent" (one account A with one storage slot):
//
//	U v0 = {A: nonce 0, slot=1}   K v0          (everything on disk, cache empty)
//	U v1 = v0 + nonce             (new account leaf L1 = root; storage root S is on disk, so reference(S, L1) is skipped)
//	U v2 = v1 + slot=2            (new storage S2, new leaf L2)
//	U v1 again = v2 + slot=1      (L1 is still cached and is not inserted again; S is inserted anew and now
//	                               reference(S, L1) counts L1 as its parent)
//	Cap(size-1)                   (evicts exactly the oldest node L1 to disk; S keeps parents=1)
//	D v0, D v1 x2, D v2           (L1 is no longer cached, so nothing ever releases S; v0 and v1 were the only
//	                               states containing S and both have lost all their references)
//
// It runs with the same invariants after every step, so it fails with the class
// label unless the class is listed as known, and it is counted as excluded then.
func c21OrphanScenario(t *testing.T, st *vs.S) {
	c := st.Case()
	m := c21New(t, nil, st, 1)
	a, slot := c21AcctKeys[0], c21SlotKeys[0]
	world := func(nonce uint64, val []byte) c21World {
		return c21World{a: &c21Acct{nonce: nonce, storage: map[string][]byte{slot: val}}}
	}
	w0, w1, w2 := world(0, c21Values[0]), world(1, c21Values[0]), world(1, c21Values[1])
	step := func(f func()) { f(); m.check() }
	step(func() { m.applyUpdate(types.EmptyRootHash, c21World{}, w0, "scripted v0") })
	r0 := m.order[0]
	step(func() { m.commitRoot(r0) })
	step(func() { m.applyUpdate(r0, w0, w1, "scripted nonce") })
	r1 := m.order[1]
	step(func() { m.applyUpdate(r1, w1, w2, "scripted slot=2") })
	r2 := m.order[2]
	step(func() { m.applyUpdate(r2, w2, w1.clone(), "scripted back to v1") })
	if m.refs[r1] != 2 {
		t.Fatalf("VERIF-HARNESS-BUG: scripted scenario expected 2 references on v1, model has %d", m.refs[r1])
	}
	_, size := m.db.Size()
	step(func() { m.capTo(size - 1) })
	step(func() { m.derefRoot(r0, 1) }) // v0 shares S; it was committed, its reference is released too
	step(func() { m.derefRoot(r1, 2) })
	step(func() { m.derefRoot(r2, 1) })
	c.Class("scripted " + c21OrphanClass)
	if m.orphans > 0 {
		c.Class(c21OrphanClass)
	} else {
		st.Note("scripted scenario for %s left no orphan: the known finding no longer reproduces", c21OrphanClass)
	}
	c.NonTrivial(true, "scripted:"+strings.Join(m.trace, " "))
	c.Sample(true, func() any { return map[string]any{"ops": m.trace, "scripted": true, "orphans": m.orphans} })
}
