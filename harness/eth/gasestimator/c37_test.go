//go:build verif

package gasestimator

// C37: gas estimates are sufficient.
//
// Statement: for any call whose execution succeeds at the allowance cap, the estimated
// gas limit lets the call succeed; with zero tolerated error and a gas-monotone
// program, one unit less makes it fail; the estimate never exceeds the caller's funds,
// the gas cap or the applicable per-transaction cap.
//
// Oracle (all observations are made by the harness' own re-execution, c37Env.exec,
// which assembles the EVM exactly like an eth_call does):
//
//	cap  := the allowance cap recomputed here in big integers from the header gas
//	        limit / the caller's gas argument, the EIP-7825 cap (Osaka, not Amsterdam),
//	        floor((balance - value - blob fees) / feeCap) and the gas cap
//	okCap := exec(cap) succeeds
//	(A) okCap            => Estimate returns no error
//	(B) Estimate = g,nil => exec(g) succeeds                         (sufficiency)
//	(C) Estimate = g,nil => g <= cap, and g*feeCap + value (+ blob fees) <= balance,
//	                        g <= gasCap (if set), g <= 2^24 under Osaka (caps)
//	(D) Estimate = g,nil, ErrorRatio == 0, case labelled strictly gas-monotone
//	                     => exec(g-1) fails                         (minimality)
//
// "Strictly gas-monotone" is decided per case, not per program text: no GAS opcode
// (generator flag) AND the run at the cap shows that a failing inner frame cannot be
// survived: either no inner frame ran code at all (trace check), or the program was
// built by c37Nest, where every caller reverts when its callee fails. Without that
// second condition "one unit less fails" is simply false for the EVM: a caller that
// ignores a callee's out-of-gas keeps 1/64 and may finish (see notes/C37.md).

import (
	"context"
	"encoding/hex"
	"errors"
	"fmt"
	"hash/fnv"
	"math/big"
	"testing"

	"github.com/ethereum/go-ethereum/common"
	"github.com/ethereum/go-ethereum/consensus"
	"github.com/ethereum/go-ethereum/consensus/beacon"
	"github.com/ethereum/go-ethereum/consensus/ethash"
	"github.com/ethereum/go-ethereum/core"
	"github.com/ethereum/go-ethereum/core/state"
	"github.com/ethereum/go-ethereum/core/tracing"
	"github.com/ethereum/go-ethereum/core/types"
	"github.com/ethereum/go-ethereum/core/vm"
	"github.com/ethereum/go-ethereum/internal/verifx/evmx"
	"github.com/ethereum/go-ethereum/params"
	"github.com/holiman/uint256"
	"pgregory.net/rapid"
	ep "verif.local/kit/evmprog"
	vs "verif.local/kit/stat"
)

// ---- environment -------------------------------------------------------------------

type c37Chain struct {
	cfg    *params.ChainConfig
	engine consensus.Engine
}

func (c *c37Chain) Config() *params.ChainConfig                 { return c.cfg }
func (c *c37Chain) CurrentHeader() *types.Header                { return nil }
func (c *c37Chain) GetHeader(common.Hash, uint64) *types.Header { return nil }
func (c *c37Chain) GetHeaderByNumber(uint64) *types.Header      { return nil }
func (c *c37Chain) GetHeaderByHash(common.Hash) *types.Header   { return nil }
func (c *c37Chain) Engine() consensus.Engine                    { return c.engine }

var c37Forks = []ep.Fork{ep.Cancun, ep.Prague, ep.Osaka, ep.Amsterdam}

func c37Config(f ep.Fork) *params.ChainConfig {
	c := evmx.ChainConfig(f)
	bs := *params.DefaultBlobSchedule
	c.BlobScheduleConfig = &bs
	return c
}

type c37Env struct {
	fork   ep.Fork
	cfg    *params.ChainConfig
	chain  *c37Chain
	header *types.Header
	state  *state.StateDB // pre-state; only ever copied
	rules  params.Rules
}

func c37NewEnv(f ep.Fork, gasLimit uint64, baseFee uint64) *c37Env {
	cfg := c37Config(f)
	zero := uint64(0)
	h := &types.Header{
		ParentHash: common.Hash{1},
		Number:     big.NewInt(100),
		Time:       1_000_000,
		GasLimit:   gasLimit,
		Difficulty: new(big.Int),
		Coinbase:   evmx.Coinbase,
		BaseFee:    new(big.Int).SetUint64(baseFee),
		MixDigest:  common.Hash{7},
	}
	h.ExcessBlobGas, h.BlobGasUsed = &zero, &zero
	if f >= ep.Amsterdam {
		slot := uint64(12345)
		h.SlotNumber = &slot
	}
	e := &c37Env{fork: f, cfg: cfg, header: h}
	e.chain = &c37Chain{cfg: cfg, engine: beacon.New(ethash.NewFaker())}
	e.rules = cfg.Rules(h.Number, true, h.Time)
	return e
}

// c37Trace summarises one execution's frame structure.
type c37Trace struct {
	inner     int  // frames entered at depth > 0 (any kind, incl. SELFDESTRUCT pseudo frames)
	innerCode int  // ... whose failure could depend on gas: code, precompile, creation
	gasOp     bool // GAS executed
	steps     int
}

func (e *c37Env) hooks(tr *c37Trace, st *state.StateDB) *tracing.Hooks {
	pre := map[common.Address]bool{}
	for _, a := range vm.ActivePrecompiles(e.rules) {
		pre[a] = true
	}
	return &tracing.Hooks{
		OnEnter: func(depth int, typ byte, from, to common.Address, input []byte, gas uint64, value *big.Int) {
			if depth == 0 {
				return
			}
			tr.inner++
			switch vm.OpCode(typ) {
			case vm.SELFDESTRUCT:
				return
			case vm.CREATE, vm.CREATE2:
				tr.innerCode++
				return
			}
			if pre[to] || st.GetCodeSize(to) > 0 {
				tr.innerCode++
			}
		},
		OnOpcode: func(pc uint64, op byte, gas, cost uint64, scope tracing.OpContext, rData []byte, depth int, err error) {
			tr.steps++
			if vm.OpCode(op) == vm.GAS {
				tr.gasOp = true
			}
		},
	}
}

// exec re-executes the call with the given gas limit on a copy of the pre-state, the
// way an eth_call / eth_estimateGas execution is set up (fee checks relaxed for zero
// prices). ok == the call was applied and its top frame did not fail.
func (e *c37Env) exec(m *core.Message, gas uint64, tr *c37Trace) (ok bool, res *core.ExecutionResult, err error) {
	msg := *m
	msg.GasLimit = gas
	bctx := core.NewEVMBlockContext(e.header, e.chain, nil)
	if msg.GasPrice.Sign() == 0 {
		bctx.BaseFee = new(big.Int)
	}
	if msg.BlobGasFeeCap != nil && msg.BlobGasFeeCap.BitLen() == 0 {
		bctx.BlobBaseFee = new(big.Int)
	}
	st := e.state.Copy()
	vmc := vm.Config{NoBaseFee: true}
	if tr != nil {
		vmc.Tracer = e.hooks(tr, st)
	}
	evm := vm.NewEVM(bctx, st, e.cfg, vmc)
	defer evm.Release()
	res, err = core.ApplyMessage(evm, &msg, nil)
	if dberr := st.Error(); dberr != nil {
		return false, nil, dberr
	}
	if err != nil {
		return false, nil, err
	}
	return !res.Failed(), res, nil
}

// ---- the call ----------------------------------------------------------------------

type c37Call struct {
	to       *common.Address
	value    *uint256.Int
	data     []byte
	gasArg   uint64
	legacy   bool
	feeCap   *uint256.Int // legacy: the gas price
	tip      *uint256.Int
	al       types.AccessList
	blobs    []common.Hash
	blobCap  *uint256.Int
	gasCap   uint64
	errRatio float64
}

// message mirrors internal/ethapi TransactionArgs.ToMessage(baseFee, skipNonce=true).
func (c *c37Call) message(baseFee *big.Int) *core.Message {
	var gasPrice, feeCap, tip *uint256.Int
	if c.legacy {
		gasPrice = c.feeCap.Clone()
		feeCap, tip = gasPrice, gasPrice
	} else {
		feeCap, tip = c.feeCap.Clone(), c.tip.Clone()
		gasPrice = new(uint256.Int)
		if feeCap.BitLen() > 0 || tip.BitLen() > 0 {
			gasPrice.Add(tip, uint256.MustFromBig(baseFee))
			if gasPrice.Cmp(feeCap) > 0 {
				gasPrice = feeCap
			}
		}
	}
	m := &core.Message{
		From:                  evmx.Origin,
		To:                    c.to,
		Value:                 c.value.Clone(),
		GasLimit:              c.gasArg,
		GasPrice:              gasPrice,
		GasFeeCap:             feeCap,
		GasTipCap:             tip,
		Data:                  c.data,
		AccessList:            c.al,
		SkipNonceChecks:       true,
		SkipTransactionChecks: true,
	}
	if c.blobs != nil {
		m.BlobHashes = c.blobs
		m.BlobGasFeeCap = c.blobCap.Clone()
	}
	return m
}

func (c *c37Call) blobFees() *big.Int {
	if len(c.blobs) == 0 {
		return new(big.Int)
	}
	f := new(big.Int).SetUint64(uint64(len(c.blobs)) * params.BlobTxBlobGasPerBlob)
	return f.Mul(f, c.blobCap.ToBig())
}

// allowanceCap recomputes the highest gas limit the estimation may use, in big ints.
func (c *c37Call) allowanceCap(e *c37Env, balance *big.Int) uint64 {
	hi := new(big.Int).SetUint64(e.header.GasLimit)
	if c.gasArg >= 21000 {
		hi.SetUint64(c.gasArg)
	}
	if e.fork == ep.Osaka { // EIP-7825; Amsterdam lifts the per-transaction limit again
		if lim := big.NewInt(1 << 24); hi.Cmp(lim) > 0 {
			hi.Set(lim)
		}
	}
	if c.feeCap.Sign() != 0 {
		avail := new(big.Int).Sub(balance, c.value.ToBig())
		avail.Sub(avail, c.blobFees())
		if avail.Sign() <= 0 {
			return 0
		}
		if allow := avail.Div(avail, c.feeCap.ToBig()); hi.Cmp(allow) > 0 {
			hi.Set(allow)
		}
	}
	if c.gasCap != 0 {
		if gc := new(big.Int).SetUint64(c.gasCap); hi.Cmp(gc) > 0 {
			hi.Set(gc)
		}
	}
	return hi.Uint64()
}

// ---- verdict -----------------------------------------------------------------------

type c37Outcome struct {
	mutatedState bool
	cap, est     uint64
	okCap        bool
	estErr       error
	peakAtEst    uint64
	usedAtCap    uint64
	tr           c37Trace
	belowOK      bool // exec(est-1) succeeded (only evaluated when an estimate exists)
	ratio        float64
	capErr       string
}

// c37Judge runs the estimator and the oracle. strict: the caller vouches that the
// program has no gas introspection; the frame condition is checked here unless
// propagating (c37Nest programs, every caller reverts on callee failure).
func c37Judge(fail func(format string, args ...any), e *c37Env, c *c37Call, noGasIntrospection, propagating bool) c37Outcome {
	var out c37Outcome
	balance := e.state.GetBalance(evmx.Origin).ToBig()
	out.cap = c.allowanceCap(e, balance)
	out.ratio = c.errRatio

	msg := c.message(e.header.BaseFee)
	okCap, resCap, errCap := e.exec(msg, out.cap, &out.tr)
	out.okCap = okCap
	if errCap != nil {
		out.capErr = errCap.Error()
	} else if resCap != nil {
		out.usedAtCap = resCap.UsedGas
		if resCap.Err != nil {
			out.capErr = "vm:" + evmx.ErrClass(resCap.Err)
		}
	}

	// Estimate gets its own copy of the pre-state, as the RPC layer hands it a throw-away state:
	// whatever Estimate does to that object can only show through its own results.
	opts := &Options{Config: e.cfg, Chain: e.chain, Header: e.header, State: e.state.Copy(), ErrorRatio: c.errRatio}
	emsg := c.message(e.header.BaseFee)
	est, _, err := Estimate(context.Background(), emsg, opts, c.gasCap)
	out.est, out.estErr = est, err
	if emsg.GasLimit != c.gasArg {
		fail("Estimate left call.GasLimit = %d, was %d", emsg.GasLimit, c.gasArg)
	}
	if got := e.state.GetBalance(evmx.Origin).ToBig(); got.Cmp(balance) != 0 {
		// Estimate wrote through a pointer it got from the state (state copies share balance
		// pointers, geth itself never mutates them in place). Not a clause of the property by
		// itself: undo it so that the harness's own executions below see the true pre-state; the
		// effect on Estimate's result is judged by (A)-(E).
		e.state.SetBalance(evmx.Origin, uint256.MustFromBig(balance), tracing.BalanceChangeUnspecified)
		out.mutatedState = true
	}

	// (A)
	if okCap && err != nil {
		fail("(A) call succeeds at the allowance cap %d (used %d) but Estimate failed: %v", out.cap, out.usedAtCap, err)
	}
	if err != nil {
		return out
	}
	// (B)
	okEst, resEst, errEst := e.exec(msg, est, nil)
	if !okEst {
		why := fmt.Sprint(errEst)
		if resEst != nil {
			why = fmt.Sprint(resEst.Err)
		}
		fail("(B) estimate %d is not sufficient: re-execution fails: %s (cap %d, ok at cap %v)", est, why, out.cap, okCap)
	}
	if resEst != nil {
		out.peakAtEst = resEst.MaxUsedGas
	}
	// (C)
	if est > out.cap {
		fail("(C) estimate %d exceeds the allowance cap %d", est, out.cap)
	}
	if c.gasCap != 0 && est > c.gasCap {
		fail("(C) estimate %d exceeds the gas cap %d", est, c.gasCap)
	}
	if e.fork == ep.Osaka && est > 1<<24 {
		fail("(C) estimate %d exceeds the EIP-7825 transaction gas cap", est)
	}
	if c.feeCap.Sign() != 0 {
		need := new(big.Int).Mul(new(big.Int).SetUint64(est), c.feeCap.ToBig())
		need.Add(need, c.value.ToBig())
		need.Add(need, c.blobFees())
		if need.Cmp(balance) > 0 {
			fail("(C) estimate %d costs %v with value, the caller owns %v", est, need, balance)
		}
	}
	// (D)
	if est > 0 {
		okBelow, _, _ := e.exec(msg, est-1, nil)
		out.belowOK = okBelow
		strict := noGasIntrospection && !out.tr.gasOp && (propagating || out.tr.innerCode == 0)
		if okBelow && strict && c.errRatio == 0 && okCap {
			fail("(D) estimate %d is not minimal for a gas-monotone call: %d gas suffices as well (used at cap: %d)", est, est-1, out.usedAtCap)
		}
	}
	return out
}

func (o *c37Outcome) strict(noGasIntrospection, propagating bool) bool {
	return noGasIntrospection && !o.tr.gasOp && (propagating || o.tr.innerCode == 0)
}

// ---- shared draws ------------------------------------------------------------------

func c37U(v uint64) *uint256.Int { return uint256.NewInt(v) }

func c37Pick(rt *rapid.T, label string, w ...int) int {
	total := 0
	for _, x := range w {
		total += x
	}
	r := ep.Uniform(rt, label, total)
	for i, x := range w {
		if r < x {
			return i
		}
		r -= x
	}
	return len(w) - 1
}

func c37Around(rt *rapid.T, label string, p uint64) uint64 {
	switch c37Pick(rt, label, 2, 3, 2, 2, 2, 1, 1, 1) {
	case 0:
		if p > 0 {
			return p - 1
		}
		return 0
	case 1:
		return p
	case 2:
		return p + 1
	case 3:
		return p + p/63
	case 4:
		return (p+2300)*64/63 + 1
	case 5:
		return 2 * p
	case 6:
		return p + uint64(rapid.IntRange(0, 5000).Draw(rt, label+"-d"))
	default:
		return p / 2
	}
}

// drawFees draws (legacy, feeCap, tip) relative to the base fee.
func c37DrawFees(rt *rapid.T, c *c37Call, baseFee uint64, classes func(string)) {
	switch c37Pick(rt, "fee-class", 30, 17, 22, 15, 10, 3, 3) {
	case 0:
		c.feeCap, c.tip = c37U(0), c37U(0)
		classes("fee:zero")
	case 1:
		c.legacy = true
		c.feeCap = c37U(baseFee + uint64(rapid.IntRange(0, 1000).Draw(rt, "price-over")))
		c.tip = c.feeCap
		classes("fee:legacy")
	case 2:
		c.feeCap = c37U(baseFee + uint64(rapid.IntRange(0, 100).Draw(rt, "cap-over")))
		c.tip = c37U(uint64(rapid.IntRange(0, 50).Draw(rt, "tip")))
		if c.tip.Cmp(c.feeCap) > 0 {
			c.tip = c.feeCap.Clone()
		}
		classes("fee:1559")
	case 3:
		c.feeCap = c37U(1_000_000_000_000)
		c.tip = c37U(2_000_000_000)
		classes("fee:1559-large")
	case 4:
		c.feeCap = c37U(baseFee)
		c.tip = c37U(0)
		classes("fee:cap==base")
	case 5: // below the base fee: every execution is rejected
		c.feeCap = c37U(baseFee - 1)
		c.tip = c37U(0)
		classes("fee:cap<base")
	default: // tip above cap: rejected
		c.feeCap = c37U(baseFee)
		c.tip = c37U(baseFee + 1)
		classes("fee:tip>cap")
	}
}

// c37DrawCaps draws gas argument, gas cap and the sender's balance around need (an
// estimate of the gas the call needs, from a scouting run).
func c37DrawCaps(rt *rapid.T, c *c37Call, need uint64, classes func(string)) (balance *uint256.Int) {
	switch c37Pick(rt, "gasarg-class", 45, 5, 15, 8, 10, 5, 12) {
	case 0:
		c.gasArg = 0
		classes("gasarg:unset")
	case 1:
		c.gasArg = []uint64{1, 5000, 20999}[ep.Uniform(rt, "gasarg-small", 3)]
		classes("gasarg:<21000(ignored)")
	case 2:
		c.gasArg = c37Around(rt, "gasarg-tight", need)
		classes("gasarg:tight")
	case 3:
		c.gasArg = 30_000_000
		classes("gasarg:30M")
	case 4:
		c.gasArg = []uint64{1<<24 - 1, 1 << 24, 1<<24 + 1}[ep.Uniform(rt, "gasarg-txcap", 3)]
		classes("gasarg:txcap+-1")
	case 5:
		c.gasArg = 100_000_000
		classes("gasarg:100M")
	default:
		c.gasArg = uint64(rapid.IntRange(21000, 3_000_000).Draw(rt, "gasarg"))
		classes("gasarg:medium")
	}
	switch c37Pick(rt, "gascap-class", 35, 20, 20, 15, 10) {
	case 0:
		c.gasCap = 0
		classes("gascap:none")
	case 1:
		c.gasCap = []uint64{25_000_000, 50_000_000}[ep.Uniform(rt, "gascap-big", 2)]
		classes("gascap:big")
	case 2:
		c.gasCap = c37Around(rt, "gascap-tight", need)
		if c.gasCap < 21000 {
			c.gasCap = 21000 // domain: an RPC gas cap below the cost of a transfer is not a meaningful configuration
		}
		classes("gascap:tight")
	case 3:
		c.gasCap = uint64(rapid.IntRange(21000, 100_000).Draw(rt, "gascap-small"))
		classes("gascap:small")
	default:
		c.gasCap = []uint64{1<<24 - 1, 1 << 24, 1<<24 + 1}[ep.Uniform(rt, "gascap-txcap", 3)]
		classes("gascap:txcap+-1")
	}
	if rapid.IntRange(0, 9).Draw(rt, "error-ratio") < 3 {
		c.errRatio = 0.015
		classes("ratio:0.015")
	} else {
		classes("ratio:0")
	}

	// balance
	val := c.value
	switch c37Pick(rt, "balance-class", 42, 36, 6, 16) {
	case 0:
		classes("balance:ample")
		b, _ := uint256.FromDecimal("1000000000000000000000000000") // 1e27
		return b.Add(b, val)
	case 1:
		classes("balance:tight")
		b := val.Clone()
		b.Add(b, uint256.MustFromBig(c.blobFees()))
		if c.feeCap.Sign() == 0 {
			if !val.IsZero() && rapid.Bool().Draw(rt, "one-short") {
				b.SubUint64(b, 1)
			}
			return b
		}
		k := c37Around(rt, "balance-gas", need)
		b.Add(b, new(uint256.Int).Mul(c.feeCap, c37U(k)))
		if rapid.Bool().Draw(rt, "remainder") { // allowance division must round down
			b.Add(b, new(uint256.Int).SubUint64(c.feeCap, 1))
		}
		return b
	case 2:
		classes("balance:poor")
		if val.IsZero() {
			return c37U(uint64(rapid.IntRange(0, 20999).Draw(rt, "poor")))
		}
		return new(uint256.Int).SubUint64(val, uint64(rapid.IntRange(0, 1).Draw(rt, "poor"))) // == value or value-1
	default:
		classes("balance:medium")
		b := val.Clone()
		k := uint64(rapid.IntRange(21000, 2_000_000).Draw(rt, "balance-gas"))
		fc := c.feeCap
		if fc.Sign() == 0 {
			fc = c37U(1)
		}
		return b.Add(b, new(uint256.Int).Mul(fc, c37U(k)))
	}
}

func c37DrawValue(rt *rapid.T, classes func(string)) *uint256.Int {
	switch c37Pick(rt, "value-class", 50, 15, 25, 10) {
	case 0:
		classes("value:0")
		return c37U(0)
	case 1:
		classes("value:1")
		return c37U(1)
	case 2:
		classes("value:small")
		return c37U(uint64(rapid.IntRange(2, 1000).Draw(rt, "value")))
	default:
		classes("value:1eth")
		return c37U(1_000_000_000_000_000_000)
	}
}

func c37DrawData(rt *rapid.T, classes func(string)) []byte {
	switch c37Pick(rt, "data-class", 35, 40, 25) {
	case 0:
		classes("data:empty")
		return nil
	case 1:
		classes("data:short")
		return rapid.SliceOfN(rapid.Byte(), 1, 68).Draw(rt, "data")
	default: // long, mostly non-zero: the EIP-7623 floor can exceed the execution cost
		classes("data:long")
		n := rapid.IntRange(100, 1200).Draw(rt, "data-len")
		seed := rapid.Uint64().Draw(rt, "data-seed")
		b := make([]byte, n)
		for i := range b {
			seed = seed*6364136223846793005 + 1442695040888963407
			b[i] = byte(seed>>56) | 1
		}
		return b
	}
}

func c37DrawExtras(rt *rapid.T, c *c37Call, w *ep.World, classes func(string)) {
	if c37Pick(rt, "accesslist", 80, 20) == 1 {
		n := 1 + ep.Uniform(rt, "al-n", 3)
		for i := 0; i < n; i++ {
			var a common.Address
			switch ep.Uniform(rt, "al-addr", 3) {
			case 0:
				a = evmx.Addr(ep.ContractAddr(ep.Uniform(rt, "al-c", 4)))
			case 1:
				a = evmx.Addr(ep.EOAAddr)
			default:
				a = common.Address{0xa1, 19: byte(i)}
			}
			t := types.AccessTuple{Address: a}
			for k := ep.Uniform(rt, "al-keys", 3); k > 0; k-- {
				t.StorageKeys = append(t.StorageKeys, common.Hash{31: byte(k - 1)})
			}
			c.al = append(c.al, t)
		}
		classes("accesslist")
	}
	if c.to != nil && c37Pick(rt, "blobs", 90, 10) == 1 {
		n := 1 + ep.Uniform(rt, "blob-n", 3)
		for i := 0; i < n; i++ {
			c.blobs = append(c.blobs, common.Hash{0: 1, 31: byte(i + 1)})
		}
		c.blobCap = c37U([]uint64{0, 1, 1000}[ep.Uniform(rt, "blob-cap", 3)])
		classes("blobs")
	}
}

func c37Desc(e *c37Env, c *c37Call, codes [][]byte, balance *uint256.Int) string {
	h := fnv.New64a()
	fmt.Fprintf(h, "%d|%d|%v|", e.fork, e.header.GasLimit, e.header.BaseFee)
	for _, code := range codes {
		h.Write(code)
		h.Write([]byte{0xff, 0x00, 0xff})
	}
	to := "create"
	if c.to != nil {
		to = c.to.Hex()
	}
	fmt.Fprintf(h, "%s|%v|%x|%d|%v|%v|%v|%v|%v|%v|%d|%v|%v", to, c.value, c.data, c.gasArg, c.legacy, c.feeCap, c.tip, c.al, c.blobs, c.blobCap, c.gasCap, c.errRatio, balance)
	return fmt.Sprintf("%016x", h.Sum64())
}

func c37Render(e *c37Env, c *c37Call, codes [][]byte, balance *uint256.Int, o *c37Outcome) map[string]any {
	m := map[string]any{
		"fork": e.fork.String(), "header_gas_limit": e.header.GasLimit, "base_fee": e.header.BaseFee.String(),
		"value": c.value.String(), "data": hex.EncodeToString(c.data), "gas_arg": c.gasArg, "legacy": c.legacy,
		"fee_cap": c.feeCap.String(), "tip": c.tip.String(), "gas_cap": c.gasCap, "error_ratio": c.errRatio,
		"balance": balance.String(), "access_list_len": len(c.al), "blobs": len(c.blobs),
	}
	if c.to != nil {
		m["to"] = c.to.Hex()
	} else {
		m["to"] = "create"
	}
	var cs []string
	for _, code := range codes {
		cs = append(cs, hex.EncodeToString(code))
	}
	m["codes"] = cs
	if o != nil {
		m["cap"], m["ok_at_cap"], m["cap_err"], m["estimate"] = o.cap, o.okCap, o.capErr, o.est
		m["used_at_cap"], m["peak_at_estimate"], m["below_ok"] = o.usedAtCap, o.peakAtEst, o.belowOK
		if o.estErr != nil {
			m["estimate_err"] = o.estErr.Error()
		}
	}
	return m
}

// c37Scout runs the call once with a rich sender and plenty of gas to learn roughly how
// much gas it needs; the result only steers the choice of tight caps and balances.
func c37Scout(e *c37Env, c *c37Call) uint64 {
	rich := *c
	rich.gasArg, rich.gasCap = 0, 0
	gas := e.header.GasLimit
	if e.fork == ep.Osaka && gas > 1<<24 {
		gas = 1 << 24
	}
	if _, res, err := e.exec(rich.message(e.header.BaseFee), gas, nil); err == nil && res != nil {
		return res.MaxUsedGas
	}
	return 21000 + uint64(len(c.data))*16
}

func c37SetBalance(e *c37Env, b *uint256.Int) {
	st := e.state.Copy()
	st.SetBalance(evmx.Origin, b, tracing.BalanceChangeUnspecified)
	st.Finalise(e.rules)
	e.state = st
}

func c37Classify(c *vs.Case, o *c37Outcome, strict bool) {
	switch {
	case o.okCap:
		c.Class("cap:succeeds")
	default:
		c.Class("cap:fails")
		c.Class("cap-fail:" + c37ErrLabel(o.capErr))
	}
	switch {
	case o.estErr == nil && o.okCap:
		c.Class("estimate:ok")
	case o.estErr == nil:
		c.Class("estimate:ok-though-cap-fails")
	case errors.Is(o.estErr, vm.ErrExecutionReverted):
		c.Class("estimate:revert")
	default:
		c.Class("estimate:error")
	}
	if o.estErr == nil {
		if strict {
			c.Class("strict-monotone")
		}
		switch {
		case o.belowOK && o.ratio > 0:
			c.Class("one-less-also-succeeds:ratio>0")
		case o.belowOK && o.tr.gasOp:
			c.Class("one-less-also-succeeds:GAS-opcode-executed")
		case o.belowOK:
			c.Class("one-less-also-succeeds:inner-frame-failure-survivable")
		}
		if o.est == o.cap {
			c.Class("estimate==cap")
		}
		if o.est > o.peakAtEst {
			c.Class("estimate>gas-used")
		}
	}
	if o.tr.innerCode > 0 {
		c.Class("inner-frames")
	}
}

func c37ErrLabel(s string) string {
	if len(s) > 3 && s[:3] == "vm:" {
		return s
	}
	for _, k := range []string{"intrinsic gas too low", "insufficient funds for gas * price + value", "insufficient funds for transfer",
		"max fee per gas less than block base fee", "max priority fee per gas higher than max fee per gas", "insufficient gas for floor data gas cost",
		"max initcode size exceeded", "max fee per blob gas less than block blob gas fee", "gas limit reached"} {
		for i := 0; i+len(k) <= len(s); i++ {
			if s[i:i+len(k)] == k {
				return k
			}
		}
	}
	if s == "" {
		return "none"
	}
	return "other"
}

// ---- TestVerifC37World: evmprog worlds ------------------------------------------------

func TestVerifC37World(t *testing.T) {
	st := vs.New("C37", t)
	var nOK, nStrict, nCases int
	vs.Check(t, 1, func(rt *rapid.T) {
		c := st.Case()
		classes := func(s string) { c.Class(s) }
		fork := c37Forks[ep.Uniform(rt, "fork", len(c37Forks))]
		c.Class("fork:" + fork.String())
		gasLimit := []uint64{30_000_000, 30_000_000, 8_000_000, 1 << 24, 45_000_000, 100_000_000}[ep.Uniform(rt, "header-gas", 6)]
		baseFee := []uint64{7, 1_000_000_000}[ep.Uniform(rt, "base-fee", 2)]
		e := c37NewEnv(fork, gasLimit, baseFee)

		monotone := c37Pick(rt, "monotone", 65, 35) == 0
		wc := ep.WorldConfig{Fork: fork, MaxContracts: 3, Gen: ep.GenConfig{Monotone: monotone, Bounded: true}}
		if c37Pick(rt, "faulty-terminators", 70, 30) == 0 {
			// most worlds end in STOP/RETURN/REVERT/SELFDESTRUCT so that the call can succeed at all
			wc.Gen.Disable = map[ep.Kind]bool{ep.TInvalid: true, ep.TBadJump: true, ep.TUnderflow: true, ep.TOverflow: true, ep.KInactive: true, ep.KDeep: true}
		}
		w, err := ep.DrawWorld(rt, wc)
		if err != nil {
			rt.Fatalf("VERIF-HARNESS-BUG: evmprog: %v", err)
		}
		if w.Monotone {
			c.Class("program:monotone-flag")
		} else {
			c.Class("program:gas-dependent")
		}
		pre := evmx.Pre{ContractBalance: 1_000_000, EOABalance: 5, Storage: map[int]map[common.Hash]common.Hash{}}
		for i := range w.Contracts {
			if rapid.Bool().Draw(rt, "prestorage") {
				pre.Storage[i] = map[common.Hash]common.Hash{{}: {31: 1}, {31: 1}: {31: 2}}
			}
		}
		rich, _ := uint256.FromDecimal("1000000000000000000000000000000")
		pre.OriginBalance = rich
		e.state = evmx.NewState()
		evmx.Install(e.state, w, pre)

		call := &c37Call{}
		codes := [][]byte{}
		for _, k := range w.Contracts {
			codes = append(codes, k.Code)
		}
		addr := func(a [20]byte) *common.Address { x := evmx.Addr(a); return &x }
		switch c37Pick(rt, "entry", 66, 9, 9, 6, 6, 4) {
		case 0:
			call.to = addr(w.Contracts[0].Addr)
			c.Class("entry:contract")
		case 1:
			c.Class("entry:create")
			if rapid.Bool().Draw(rt, "deployer") {
				call.data = ep.Deployer(w.Contracts[0].Code, true)
			} else {
				call.data = w.Contracts[0].Code
			}
		case 2:
			call.to = addr(ep.EOAAddr)
			c.Class("entry:eoa")
		case 3:
			call.to = addr(ep.MissingAddr)
			c.Class("entry:missing")
		case 4:
			call.to = addr(ep.PrecompileAddr(1 + ep.Uniform(rt, "precompile", 10)))
			c.Class("entry:precompile")
		default:
			o := evmx.Origin
			call.to = &o
			c.Class("entry:self")
		}
		call.value = c37DrawValue(rt, classes)
		if call.to != nil {
			call.data = c37DrawData(rt, classes)
		}
		c37DrawFees(rt, call, baseFee, classes)
		c37DrawExtras(rt, call, w, classes)
		need := c37Scout(e, call)
		balance := c37DrawCaps(rt, call, need, classes)
		c37SetBalance(e, balance)

		o := c37Judge(func(format string, args ...any) {
			rt.Logf("case: %+v", c37Render(e, call, codes, balance, nil))
			rt.Fatalf(format, args...)
		}, e, call, w.Monotone, false)
		strict := o.strict(w.Monotone, false)
		c37Classify(c, &o, strict && call.errRatio == 0)
		nCases++
		if o.estErr == nil && o.okCap {
			nOK++
			if strict && call.errRatio == 0 {
				nStrict++
			}
		}
		nt := o.estErr == nil && o.okCap && o.tr.innerCode > 0 && o.est > o.peakAtEst
		c.NonTrivial(nt, c37Desc(e, call, codes, balance))
		c.Sample(nt, func() any { return c37Render(e, call, codes, balance, &o) })
	})
	if nCases >= 300 && (nOK*100 < nCases*15 || nStrict*100 < nCases*5) {
		t.Fatalf("VERIF-HARNESS-BUG: generator shares too low: %d cases, %d with estimate, %d strict", nCases, nOK, nStrict)
	}
}

// ---- TestVerifC37Nested: call chains that propagate failure ------------------------------

// c37Work is one stack-neutral unit of work repeated n times.
type c37Work struct {
	kind int
	n    uint64
	a, b uint64
}

const (
	c37WSStore = iota
	c37WKeccak
	c37WMStore
	c37WSLoad
	c37WLog
	c37WBalance
	c37WTStore
	c37WExp
	c37NumWork
)

func c37DrawWork(rt *rapid.T, readOnly bool) c37Work {
	w := c37Work{n: uint64(1 + ep.Uniform(rt, "work-n", 6))}
	weights := []int{5, 3, 3, 2, 2, 2, 1, 2}
	if readOnly {
		weights[c37WSStore], weights[c37WLog], weights[c37WTStore] = 0, 0, 0
	}
	w.kind = c37Pick(rt, "work-kind", weights...)
	switch w.kind {
	case c37WSStore, c37WTStore:
		w.a, w.b = uint64(ep.Uniform(rt, "slot", 4)), uint64(ep.Uniform(rt, "sval", 3))
	case c37WKeccak:
		w.a = []uint64{0, 32, 100, 1000, 5000}[ep.Uniform(rt, "keccak-len", 5)]
	case c37WMStore:
		w.a = []uint64{0, 64, 1024, 8192, 40000}[ep.Uniform(rt, "mstore-off", 5)]
	case c37WSLoad:
		w.a = uint64(ep.Uniform(rt, "slot", 6))
	case c37WLog:
		w.a = []uint64{0, 32, 300}[ep.Uniform(rt, "log-len", 3)]
	case c37WBalance:
		w.a = uint64(ep.Uniform(rt, "balance-of", 5))
	case c37WExp:
		w.a = []uint64{3, 1 << 20, 1<<63 + 5}[ep.Uniform(rt, "exp", 3)]
	}
	return w
}

func (w c37Work) emit(a *ep.Asm) {
	a.Loop(w.n, func() {
		switch w.kind {
		case c37WSStore:
			a.PushU(w.b).PushU(w.a).Op(ep.SSTORE)
		case c37WTStore:
			a.PushU(w.b).PushU(w.a).Op(ep.TSTORE)
		case c37WKeccak:
			a.PushU(w.a).PushU(0).Op(ep.KECCAK256, ep.POP)
		case c37WMStore:
			a.PushU(1).PushU(w.a).Op(ep.MSTORE)
		case c37WSLoad:
			a.PushU(w.a).Op(ep.SLOAD, ep.POP)
		case c37WLog:
			a.PushU(7).PushU(w.a).PushU(0).Op(ep.LOG0 + 1)
		case c37WBalance:
			a.PushAddr([20]byte{0xba, 19: byte(w.a)}).Op(ep.BALANCE, ep.POP)
		case c37WExp:
			a.PushU(w.a).PushU(3).Op(ep.EXP, ep.POP)
		}
	})
}

type c37Level struct {
	pre, post []c37Work
	op        byte   // call opcode towards the next level (unused at the leaf)
	gasClass  int    // 0 all, 1 2^64-1, 2 fixed large, 3 fixed small
	gasFixed  uint64 //
	value     uint64 // CALL / CALLCODE only
	swallow   bool   // do NOT propagate the callee's failure (makes the case non-strict)
	failKind  int    // how failure is propagated: 0 REVERT(0,0), 1 INVALID, 2 bubble return data
	term      int    // 0 STOP, 1 RETURN(0,32), 2 REVERT(0,4) (leaf only), 3 INVALID (leaf only)
}

func (l *c37Level) assemble(next *[20]byte) ([]byte, error) {
	a := ep.NewAsm(true)
	for _, w := range l.pre {
		w.emit(a)
	}
	if next != nil {
		lFail := a.NewLabel()
		a.PushU(32).PushU(0).PushU(36).PushU(0) // outLen outOff inLen inOff
		if l.op == ep.CALL || l.op == ep.CALLCODE {
			a.PushU(l.value)
		}
		a.PushAddr(*next)
		switch l.gasClass {
		case 0:
			a.PushN(bytesOf(0xff, 32))
		case 1:
			a.PushN(bytesOf(0xff, 8))
		default:
			a.PushU(l.gasFixed)
		}
		a.Op(l.op)
		if l.swallow {
			a.Op(ep.POP)
		} else {
			a.Op(ep.ISZERO).Jumpi(lFail)
		}
		for _, w := range l.post {
			w.emit(a)
		}
		l.emitTerm(a)
		if !l.swallow {
			a.SetDepth(0)
			a.Bind(lFail)
			switch l.failKind {
			case 0:
				a.PushU(0).PushU(0).Op(ep.REVERT)
			case 1:
				a.Op(ep.INVALID)
			default:
				a.Op(ep.RETURNDATASIZE).PushU(0).PushU(0).Op(ep.RETURNDATACOPY)
				a.Op(ep.RETURNDATASIZE).PushU(0).Op(ep.REVERT)
			}
		}
	} else {
		l.emitTerm(a)
	}
	return a.Bytes()
}

func (l *c37Level) emitTerm(a *ep.Asm) {
	switch l.term {
	case 0:
		a.Op(ep.STOP)
	case 1:
		a.PushU(32).PushU(0).Op(ep.RETURN)
	case 2:
		a.PushU(4).PushU(0).Op(ep.REVERT)
	default:
		a.Op(ep.INVALID)
	}
}

func bytesOf(b byte, n int) []byte {
	out := make([]byte, n)
	for i := range out {
		out[i] = b
	}
	return out
}

func TestVerifC37Nested(t *testing.T) {
	st := vs.New("C37", t)
	var nCases, nNT int
	vs.Check(t, 1, func(rt *rapid.T) {
		c := st.Case()
		classes := func(s string) { c.Class(s) }
		fork := c37Forks[ep.Uniform(rt, "fork", len(c37Forks))]
		c.Class("fork:" + fork.String())
		baseFee := []uint64{7, 1_000_000_000}[ep.Uniform(rt, "base-fee", 2)]
		gasLimit := []uint64{30_000_000, 1 << 24, 60_000_000}[ep.Uniform(rt, "header-gas", 3)]
		e := c37NewEnv(fork, gasLimit, baseFee)

		depth := 1 + c37Pick(rt, "depth", 10, 45, 30, 15) // 1..4 contracts
		c.Classf("depth:%d", depth)
		levels := make([]*c37Level, depth)
		readOnly := false
		propagating := true
		for i := range levels {
			l := &c37Level{}
			for k := ep.Uniform(rt, "npre", 3); k > 0; k-- {
				l.pre = append(l.pre, c37DrawWork(rt, readOnly))
			}
			if i < depth-1 {
				l.op = []byte{ep.CALL, ep.CALL, ep.CALL, ep.STATICCALL, ep.DELEGATECALL, ep.CALLCODE}[ep.Uniform(rt, "call-op", 6)]
				l.gasClass = c37Pick(rt, "call-gas", 60, 10, 20, 10)
				switch l.gasClass {
				case 2:
					l.gasFixed = []uint64{300_000, 5_000_000}[ep.Uniform(rt, "gas-large", 2)]
				case 3:
					l.gasFixed = uint64(rapid.IntRange(100, 50_000).Draw(rt, "gas-small"))
				}
				if (l.op == ep.CALL || l.op == ep.CALLCODE) && !readOnly && ep.Uniform(rt, "call-value", 4) == 0 {
					l.value = 1
				}
				l.swallow = ep.Uniform(rt, "swallow", 8) == 0
				if l.swallow {
					propagating = false
				}
				l.failKind = ep.Uniform(rt, "fail-kind", 3)
				for k := ep.Uniform(rt, "npost", 3); k > 0; k-- {
					l.post = append(l.post, c37DrawWork(rt, readOnly))
				}
				l.term = ep.Uniform(rt, "term", 2)
			} else {
				l.term = c37Pick(rt, "leaf-term", 45, 45, 6, 4)
			}
			levels[i] = l
			if l.op == ep.STATICCALL {
				readOnly = true
			}
		}
		var codes [][]byte
		w := &ep.World{Fork: fork}
		for i, l := range levels {
			var next *[20]byte
			if i < depth-1 {
				n := ep.ContractAddr(i + 1)
				next = &n
			}
			code, err := l.assemble(next)
			if err != nil {
				rt.Fatalf("VERIF-HARNESS-BUG: assemble level %d: %v", i, err)
			}
			codes = append(codes, code)
			w.Contracts = append(w.Contracts, &ep.Contract{Addr: ep.ContractAddr(i), Code: code})
		}
		if propagating {
			c.Class("chain:propagating")
		} else {
			c.Class("chain:swallows-failure")
		}
		pre := evmx.Pre{ContractBalance: 1_000, EOABalance: 5, Storage: map[int]map[common.Hash]common.Hash{}}
		for i := range levels {
			m := map[common.Hash]common.Hash{}
			for s := 0; s < 4; s++ {
				if rapid.Bool().Draw(rt, "prestorage") {
					m[common.Hash{31: byte(s)}] = common.Hash{31: byte(1 + s%2)}
				}
			}
			pre.Storage[i] = m
		}
		rich, _ := uint256.FromDecimal("1000000000000000000000000000000")
		pre.OriginBalance = rich
		e.state = evmx.NewState()
		evmx.Install(e.state, w, pre)

		call := &c37Call{}
		to := evmx.Addr(ep.ContractAddr(0))
		call.to = &to
		call.value = c37DrawValue(rt, classes)
		call.data = c37DrawData(rt, classes)
		c37DrawFees(rt, call, baseFee, classes)
		c37DrawExtras(rt, call, w, classes)
		need := c37Scout(e, call)
		balance := c37DrawCaps(rt, call, need, classes)
		c37SetBalance(e, balance)

		o := c37Judge(func(format string, args ...any) {
			rt.Logf("case: %+v", c37Render(e, call, codes, balance, nil))
			rt.Fatalf(format, args...)
		}, e, call, true, propagating)
		strict := o.strict(true, propagating) && call.errRatio == 0
		c37Classify(c, &o, strict)
		nt := o.estErr == nil && o.okCap && o.tr.innerCode > 0 && o.est > o.peakAtEst
		nCases++
		if nt {
			nNT++
		}
		c.NonTrivial(nt, c37Desc(e, call, codes, balance))
		c.Sample(nt, func() any { return c37Render(e, call, codes, balance, &o) })
	})
	if nCases >= 300 && nNT*100 < nCases*10 {
		t.Fatalf("VERIF-HARNESS-BUG: generator: only %d of %d cases have an estimate above the gas used", nNT, nCases)
	}
}

// ---- TestVerifC37Transfers: the plain-transfer matrix, enumerated ------------------------

func TestVerifC37Transfers(t *testing.T) {
	vs.OnlyShard0(t)
	st := vs.New("C37", t)
	targets := []struct {
		name string
		addr common.Address
	}{
		{"eoa", evmx.Addr(ep.EOAAddr)},
		{"missing", evmx.Addr(ep.MissingAddr)},
		{"self", evmx.Origin},
		{"identity-precompile", evmx.Addr(ep.PrecompileAddr(4))},
		{"contract-stop", evmx.Addr(ep.ContractAddr(0))},
	}
	n := 0
	for _, fork := range c37Forks {
		for _, tg := range targets {
			for _, value := range []uint64{0, 1} {
				for _, fee := range []uint64{0, 7} {
					for _, withAL := range []bool{false, true} {
						for _, gasCap := range []uint64{0, 21000, 50_000_000} {
							for _, tight := range []bool{false, true} {
								c := st.Case()
								e := c37NewEnv(fork, 30_000_000, 7)
								w := &ep.World{Fork: fork, Contracts: []*ep.Contract{{Addr: ep.ContractAddr(0), Code: []byte{ep.STOP}}}}
								call := &c37Call{value: c37U(value), feeCap: c37U(fee), tip: c37U(0), gasCap: gasCap}
								to := tg.addr
								call.to = &to
								if withAL {
									call.al = types.AccessList{{Address: common.Address{0xa1}, StorageKeys: []common.Hash{{}}}}
								}
								balance, _ := uint256.FromDecimal("1000000000000000000")
								if tight {
									balance = c37U(value + fee*21000)
								}
								e.state = evmx.NewState()
								evmx.Install(e.state, w, evmx.Pre{ContractBalance: 1, EOABalance: 5, OriginBalance: balance})
								desc := fmt.Sprintf("%s/%s/v%d/fee%d/al%v/cap%d/tight%v", fork, tg.name, value, fee, withAL, gasCap, tight)
								o := c37Judge(func(format string, args ...any) {
									t.Logf("case %s: %+v", desc, c37Render(e, call, nil, balance, nil))
									t.Fatalf(format, args...)
								}, e, call, true, true)
								c.Class("fork:" + fork.String())
								c.Class("target:" + tg.name)
								c37Classify(c, &o, true)
								c.NonTrivial(o.estErr == nil, desc)
								c.Sample(o.estErr == nil, func() any { return c37Render(e, call, nil, balance, &o) })
								n++
							}
						}
					}
				}
			}
		}
	}
	st.Exhaustive(fmt.Sprintf("plain transfers without calldata: %d combinations of fork x target x value x fee x access list x gas cap x balance", n))
}
