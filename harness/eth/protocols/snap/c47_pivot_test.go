//go:build verif

package snap

// C47, second sentence of the statement — snap/2 with a MOVING pivot: a generated target
// state, a short chain of later blocks whose block-level changes are drawn (balance /
// nonce / code / storage writes, new accounts and contracts, drained accounts, emptied
// storage, read-only touches), block access lists derived from exactly those changes, and
// 1..3 of the later blocks used as pivots. Sync cycles are cancelled after a drawn number
// of served requests (also in the middle of the catch-up) and resumed against the same or
// a later pivot, by the same or a fresh syncer; scripted peers serve state and access
// lists (honest, truncated, refused, dropped, corrupted, replayed, semantically altered).
//
// Oracle: every write reaching the database is a value of some honest block state for
// that key (write barrier); when Sync returns nil the flat state, code and trie are
// exactly those of the pivot it completed against, for the accounts fetched before the
// moves (rolled forward by access lists) and for those fetched after; a Sync that fails
// although an honest peer was always available is reported together with the difference
// between the flat state and the pivot's state. Stalls are never a verdict.

import (
	"bytes"
	"encoding/binary"
	"encoding/json"
	"flag"
	"fmt"
	"math/big"
	"sort"
	"strconv"
	"strings"
	"sync"
	"sync/atomic"
	"testing"
	"time"

	"github.com/ethereum/go-ethereum/common"
	"github.com/ethereum/go-ethereum/core/rawdb"
	"github.com/ethereum/go-ethereum/core/types"
	"github.com/ethereum/go-ethereum/core/types/bal"
	"github.com/ethereum/go-ethereum/crypto"
	"github.com/ethereum/go-ethereum/ethdb"
	"github.com/ethereum/go-ethereum/ethdb/memorydb"
	"github.com/ethereum/go-ethereum/rlp"
	"github.com/ethereum/go-ethereum/triedb"
	"pgregory.net/rapid"
	"verif.local/kit/refrlp"
	"verif.local/kit/reftrie"
	vs "verif.local/kit/stat"
)

// ---------------------------------------------------------------------------
// evolving model

// c47pAcc is an account with a known address (the only kind a block access list can
// touch: the syncer derives the account hash from the address).
type c47pAcc struct {
	addr    common.Address
	hash    common.Hash
	nonce   uint64
	balance *big.Int
	code    []byte
	st      *c47Storage                 // immutable version, replaced on change
	raws    map[common.Hash]common.Hash // slot hash -> raw slot key
	alive   bool
}

// c47pHist is everything an honest state ever held for one account hash.
type c47pHist struct {
	triples map[string]bool // nonce|balance|codehash
	roots   map[common.Hash]bool
	sts     []*c47Storage
}

type c47pWorld struct {
	scheme   string
	r        *c47Rand
	fillers  []*c47Account // accounts keyed by hash only (never touched by a block)
	addrs    []*c47pAcc    // creation order, including drained ones
	byHash   map[common.Hash]*c47pAcc
	hist     map[common.Hash]*c47pHist
	codes    map[common.Hash][]byte // union over all blocks
	codePool [][]byte
	slotSeq  uint64
}

func c47pKeccak(b []byte) common.Hash { return common.Hash(reftrie.Keccak256(b)) }

func c47pTrim(b []byte) []byte {
	for len(b) > 0 && b[0] == 0 {
		b = b[1:]
	}
	return b
}

func (w *c47pWorld) randBytes(n int) []byte {
	out := make([]byte, n)
	for i := range out {
		out[i] = byte(w.r.next())
	}
	return out
}

// randVal is a non-zero storage value (big-endian, no leading zero).
func (w *c47pWorld) randVal() []byte {
	n := 1 + w.r.intn(32)
	if w.r.intn(3) == 0 {
		n = 1
	}
	v := w.randBytes(n)
	v[0] |= 1
	return v
}

func (w *c47pWorld) randBalance() *big.Int {
	switch w.r.intn(4) {
	case 0:
		return new(big.Int).SetUint64(1 + w.r.next()%1000)
	case 1:
		b := w.randBytes(1 + w.r.intn(32))
		b[0] |= 1
		return new(big.Int).SetBytes(b)
	default:
		return new(big.Int).SetUint64(w.r.next() | 1)
	}
}

// delegation is an EIP-7702 delegation designator (0xef0100 || address), the code of a
// delegated EOA; the only code that a later block can replace or clear.
func (w *c47pWorld) delegation() []byte {
	return append([]byte{0xef, 0x01, 0x00}, w.randBytes(20)...)
}

func (w *c47pWorld) newRawSlot() common.Hash {
	w.slotSeq++
	if w.r.intn(4) == 0 {
		return common.BytesToHash(w.randBytes(32))
	}
	return common.BigToHash(new(big.Int).SetUint64(w.slotSeq))
}

func c47pMkStorage(m map[common.Hash][]byte) *c47Storage {
	if len(m) == 0 {
		return nil
	}
	st := &c47Storage{}
	for k := range m {
		st.keys = append(st.keys, k)
	}
	sort.Slice(st.keys, func(i, j int) bool { return bytes.Compare(st.keys[i][:], st.keys[j][:]) < 0 })
	kvm := make(map[string][]byte, len(m))
	for _, k := range st.keys {
		v := m[k]
		st.vals = append(st.vals, v)
		kvm[string(k[:])] = v
		st.elems = append(st.elems, &kv{common.CopyBytes(k[:]), v})
	}
	st.ref = reftrie.Build(kvm)
	return st
}

func c47pStorageMap(st *c47Storage) map[common.Hash][]byte {
	m := map[common.Hash][]byte{}
	if st != nil {
		for i, k := range st.keys {
			m[k] = st.vals[i]
		}
	}
	return m
}

func (w *c47pWorld) record(h common.Hash, nonce uint64, balance *big.Int, code []byte, st *c47Storage) {
	hi := w.hist[h]
	if hi == nil {
		hi = &c47pHist{triples: map[string]bool{}, roots: map[common.Hash]bool{common.Hash(reftrie.EmptyRoot): true}}
		w.hist[h] = hi
	}
	hi.triples[fmt.Sprintf("%d|%s|%x", nonce, balance.String(), c47pKeccak(code))] = true
	if len(code) > 0 {
		w.codes[c47pKeccak(code)] = code
	}
	if st != nil {
		hi.roots[st.ref.Root] = true
		for _, old := range hi.sts {
			if old == st {
				return
			}
		}
		hi.sts = append(hi.sts, st)
	}
}

func (w *c47pWorld) recordAcc(a *c47pAcc) {
	if a.alive {
		w.record(a.hash, a.nonce, a.balance, a.code, a.st)
	}
}

func (w *c47pWorld) newAddr() (common.Address, common.Hash) {
	for {
		addr := common.BytesToAddress(w.randBytes(20))
		h := c47pKeccak(addr[:])
		if _, dup := w.byHash[h]; !dup && h != (common.Hash{}) {
			return addr, h
		}
	}
}

// c47pGround is a raw slot key whose hash starts with at least 10 zero bits. A contract
// holding a run of such slots (any contract can: the slot keys are the caller's choice)
// has a dense start of its storage trie; a byte-capped first reply that ends inside the
// run makes the syncer extrapolate a huge trie and split the contract into 2..16
// storage chunks (estimateRemainingSlots >= 2*maxRequestSize/64), which the uniformly
// spread slots of a small state practically never achieve.
type c47pGround struct{ raw, hash common.Hash }

var (
	c47pPoolOnce sync.Once
	c47pPool     []c47pGround // ascending by hash
)

func c47pGroundPool() []c47pGround {
	c47pPoolOnce.Do(func() {
		var raw common.Hash
		raw[26] = 1 // 2^40 + i: apart from the sequential raw keys of newRawSlot
		for i := uint32(0); i < 1<<19; i++ {
			binary.BigEndian.PutUint32(raw[28:], i)
			if h := crypto.Keccak256Hash(raw[:]); h[0] == 0 && h[1]&0xc0 == 0 {
				c47pPool = append(c47pPool, c47pGround{raw, h})
			}
		}
		sort.Slice(c47pPool, func(i, j int) bool { return bytes.Compare(c47pPool[i].hash[:], c47pPool[j].hash[:]) < 0 })
	})
	return c47pPool
}

// c47pCluster: n slots of the contract have hashes with `bits` leading zero bits (0 = none).
type c47pCluster struct{ n, bits int }

func (w *c47pWorld) addAcc(nonce uint64, balance *big.Int, code []byte, slots int, cl ...c47pCluster) *c47pAcc {
	addr, h := w.newAddr()
	a := &c47pAcc{addr: addr, hash: h, nonce: nonce, balance: balance, code: code, raws: map[common.Hash]common.Hash{}, alive: true}
	if slots > 0 {
		m := map[common.Hash][]byte{}
		if len(cl) > 0 && cl[0].n > 0 {
			pool := c47pGroundPool()
			var bound common.Hash // first hash with fewer leading zero bits
			bound[cl[0].bits/8] = 0x80 >> uint(cl[0].bits%8)
			avail := sort.Search(len(pool), func(i int) bool { return bytes.Compare(pool[i].hash[:], bound[:]) >= 0 })
			for tries := 0; tries < 4*cl[0].n && len(m) < cl[0].n && len(m) < avail; tries++ {
				g := pool[w.r.intn(avail)]
				if c47pKeccak(g.raw[:]) != g.hash {
					panic("VERIF-HARNESS-BUG: ground slot pool: hash mismatch between geth's keccak and the reference")
				}
				if _, dup := m[g.hash]; !dup {
					m[g.hash] = refrlp.EncodeString(w.randVal())
					a.raws[g.hash] = g.raw
				}
			}
			slots += len(m)
		}
		for len(m) < slots {
			raw := w.newRawSlot()
			sh := c47pKeccak(raw[:])
			m[sh] = refrlp.EncodeString(w.randVal())
			a.raws[sh] = raw
		}
		a.st = c47pMkStorage(m)
	}
	w.addrs = append(w.addrs, a)
	w.byHash[h] = a
	return a
}

// assemble snapshots the current model as a servable state.
func (w *c47pWorld) assemble() (*c47State, error) {
	var accts []*c47Account
	for _, f := range w.fillers {
		cp := *f
		accts = append(accts, &cp)
	}
	for _, a := range w.addrs {
		if a.alive {
			accts = append(accts, &c47Account{hash: a.hash, nonce: a.nonce, balance: new(big.Int).Set(a.balance), code: a.code, st: a.st})
		}
	}
	sort.Slice(accts, func(i, j int) bool { return bytes.Compare(accts[i].hash[:], accts[j].hash[:]) < 0 })
	return c47Assemble(w.scheme, accts)
}

// ---------------------------------------------------------------------------
// block access lists (own encoder over kit/refrlp; EIP-7928 layout)

type c47pChange struct {
	idx uint32
	val []byte // number: big-endian; code: the code
}

type c47pBalAcc struct {
	addr   common.Address
	writes map[common.Hash][]c47pChange // raw slot key -> per-tx post values
	reads  []common.Hash
	bals   []c47pChange
	nonces []c47pChange
	codes  []c47pChange
}

func c47pNum(b []byte) refrlp.Item { return refrlp.Item{Str: append([]byte{}, c47pTrim(b)...)} }

func c47pChanges(cs []c47pChange, code bool) refrlp.Item {
	var items []refrlp.Item
	for _, ch := range cs {
		if code {
			items = append(items, refrlp.L(refrlp.Uint(uint64(ch.idx)), refrlp.S(ch.val)))
		} else {
			items = append(items, refrlp.L(refrlp.Uint(uint64(ch.idx)), c47pNum(ch.val)))
		}
	}
	return refrlp.L(items...)
}

func c47pEncodeBAL(accs []*c47pBalAcc) []byte {
	accs = append([]*c47pBalAcc{}, accs...)
	sort.Slice(accs, func(i, j int) bool { return bytes.Compare(accs[i].addr[:], accs[j].addr[:]) < 0 })
	var items []refrlp.Item
	for _, a := range accs {
		var wk []common.Hash
		for k := range a.writes {
			wk = append(wk, k)
		}
		sort.Slice(wk, func(i, j int) bool { return bytes.Compare(wk[i][:], wk[j][:]) < 0 })
		var writes []refrlp.Item
		for _, k := range wk {
			writes = append(writes, refrlp.L(c47pNum(k[:]), c47pChanges(a.writes[k], false)))
		}
		rk := append([]common.Hash{}, a.reads...)
		sort.Slice(rk, func(i, j int) bool { return bytes.Compare(rk[i][:], rk[j][:]) < 0 })
		var reads []refrlp.Item
		for _, k := range rk {
			reads = append(reads, c47pNum(k[:]))
		}
		items = append(items, refrlp.L(refrlp.S(a.addr[:]), refrlp.L(writes...), refrlp.L(reads...),
			c47pChanges(a.bals, false), c47pChanges(a.nonces, false), c47pChanges(a.codes, true)))
	}
	return refrlp.Encode(refrlp.L(items...))
}

func c47pCopyBAL(accs []*c47pBalAcc) []*c47pBalAcc {
	var out []*c47pBalAcc
	for _, a := range accs {
		cp := &c47pBalAcc{addr: a.addr, writes: map[common.Hash][]c47pChange{}, reads: append([]common.Hash{}, a.reads...),
			bals: append([]c47pChange{}, a.bals...), nonces: append([]c47pChange{}, a.nonces...), codes: append([]c47pChange{}, a.codes...)}
		for k, v := range a.writes {
			cp.writes[k] = append([]c47pChange{}, v...)
		}
		out = append(out, cp)
	}
	return out
}

// c47pEvil derives a well-formed access list that differs from the honest one in
// content (so its hash is not the one committed to by the header).
func c47pEvil(accs []*c47pBalAcc, r *c47Rand) []byte {
	cp := c47pCopyBAL(accs)
	sort.Slice(cp, func(i, j int) bool { return bytes.Compare(cp[i].addr[:], cp[j].addr[:]) < 0 })
	bump := func(b []byte) []byte {
		v := new(big.Int).SetBytes(b)
		return v.Add(v, big.NewInt(1)).Bytes()
	}
	switch a := cp[r.intn(len(cp))]; r.intn(5) {
	case 0: // an account entry removed
		if len(cp) > 1 {
			cp = cp[1:]
			break
		}
		fallthrough
	case 1: // an attacker-chosen balance
		if n := len(a.bals); n > 0 {
			a.bals[n-1].val = bump(a.bals[n-1].val)
		} else {
			a.bals = []c47pChange{{idx: 1, val: []byte{0x0d, 0xea, 0xdb, 0xee, 0xf0}}}
		}
	case 2: // an attacker-chosen slot value
		var wk []common.Hash
		for k := range a.writes {
			wk = append(wk, k)
		}
		if len(wk) == 0 {
			a.writes[common.BigToHash(big.NewInt(1))] = []c47pChange{{idx: 1, val: []byte{0xba, 0xd0}}}
			break
		}
		sort.Slice(wk, func(i, j int) bool { return bytes.Compare(wk[i][:], wk[j][:]) < 0 })
		k := wk[r.intn(len(wk))]
		n := len(a.writes[k])
		a.writes[k][n-1].val = bump(a.writes[k][n-1].val)
	case 3: // an extra account credited
		var addr common.Address
		addr[0], addr[19] = 0xee, byte(r.next())
		cp = append(cp, &c47pBalAcc{addr: addr, writes: map[common.Hash][]c47pChange{}, bals: []c47pChange{{idx: 1, val: []byte{0x01, 0x00}}}})
	default: // nonce
		if n := len(a.nonces); n > 0 {
			a.nonces[n-1].val = bump(a.nonces[n-1].val)
		} else {
			a.nonces = []c47pChange{{idx: 1, val: []byte{0x07}}}
		}
	}
	return c47pEncodeBAL(cp)
}

// ---------------------------------------------------------------------------
// blocks

const (
	opBalance = iota
	opTxSend
	opSstore
	opWipe
	opNewEOA
	opNewContract
	opDrain
	opSetCode
	opRead
	opEphemeral
	opCount
)

// storage writes are what the fetched / not-yet-fetched partition is about: more of them
var c47pOpWeights = []int{opBalance, opBalance, opTxSend, opTxSend, opSstore, opSstore, opSstore, opSstore, opWipe, opNewEOA,
	opNewContract, opNewContract, opDrain, opSetCode, opSetCode, opSetCode, opRead, opEphemeral}

var c47pOpNames = []string{"balance", "txsend", "sstore", "wipe", "neweoa", "newcontract", "drain", "setcode", "read", "ephemeral"}

type c47pBlock struct {
	header  *types.Header
	hash    common.Hash
	raw     []byte // honest access list
	evil    []byte // well-formed, different content
	changed []common.Hash
	cleared []common.Hash // accounts whose code went from non-empty to empty in this block
	desc    string
}

func (w *c47pWorld) pick(used map[common.Hash]bool, pred func(*c47pAcc) bool) *c47pAcc {
	var cand []*c47pAcc
	for _, a := range w.addrs {
		if a.alive && !used[a.hash] && pred(a) {
			cand = append(cand, a)
		}
	}
	if len(cand) == 0 {
		return nil
	}
	a := cand[w.r.intn(len(cand))]
	used[a.hash] = true
	return a
}

// idxs returns n ascending transaction indexes.
func (w *c47pWorld) idxs(n int) []uint32 {
	out := make([]uint32, n)
	cur := uint32(0)
	for i := range out {
		cur += 1 + uint32(w.r.intn(2))
		out[i] = cur
	}
	return out
}

// balanceChanges makes 1..3 per-transaction post balances ending at final.
func (w *c47pWorld) balanceChanges(final *big.Int) []c47pChange {
	n := 1
	if w.r.intn(3) == 0 {
		n = 2 + w.r.intn(2)
	}
	var out []c47pChange
	for i, idx := range w.idxs(n) {
		v := final
		if i < n-1 {
			v = w.randBalance() // an intermediate value that is never a block state
		}
		out = append(out, c47pChange{idx: idx, val: v.Bytes()})
	}
	return out
}

// genBlock applies the drawn operations to the model and returns the access list that
// describes exactly those changes.
func (w *c47pWorld) genBlock(kinds []int) ([]*c47pBalAcc, []common.Hash, []common.Hash, string) {
	var (
		used    = map[common.Hash]bool{}
		entries []*c47pBalAcc
		changed []common.Hash
		cleared []common.Hash
		desc    []string
	)
	entry := func(addr common.Address) *c47pBalAcc {
		e := &c47pBalAcc{addr: addr, writes: map[common.Hash][]c47pChange{}}
		entries = append(entries, e)
		return e
	}
	for _, kind := range kinds {
		switch kind {
		case opBalance:
			a := w.pick(used, func(*c47pAcc) bool { return true })
			if a == nil {
				continue
			}
			nb := w.randBalance()
			if (a.nonce > 0 || len(a.code) > 0) && w.r.intn(5) == 0 {
				nb = new(big.Int)
			}
			a.balance = nb
			entry(a.addr).bals = w.balanceChanges(nb)
			changed = append(changed, a.hash)
		case opTxSend:
			a := w.pick(used, func(a *c47pAcc) bool { return len(a.code) == 0 || len(a.code) == 23 })
			if a == nil {
				continue
			}
			n := 1 + w.r.intn(3)
			e := entry(a.addr)
			for _, idx := range w.idxs(n) {
				a.nonce++
				e.nonces = append(e.nonces, c47pChange{idx: idx, val: new(big.Int).SetUint64(a.nonce).Bytes()})
			}
			a.balance = w.randBalance()
			e.bals = w.balanceChanges(a.balance)
			changed = append(changed, a.hash)
		case opSstore:
			a := w.pick(used, func(a *c47pAcc) bool { return len(a.code) > 0 && len(a.code) != 23 })
			if a == nil {
				continue
			}
			e := entry(a.addr)
			m := c47pStorageMap(a.st)
			var existing []common.Hash
			if a.st != nil {
				existing = append(existing, a.st.keys...)
			}
			touched := map[common.Hash]bool{}
			n := 1 + w.r.intn(8)
			if w.r.intn(6) == 0 {
				n = 20 + w.r.intn(60)
			}
			for i := 0; i < n; i++ {
				var (
					sh    common.Hash
					raw   common.Hash
					final []byte
				)
				switch mode := w.r.intn(6); {
				case mode <= 1 && len(existing) > 0: // overwrite
					sh = existing[w.r.intn(len(existing))]
					raw, final = a.raws[sh], w.randVal()
				case mode == 2 && len(existing) > 0: // delete
					sh = existing[w.r.intn(len(existing))]
					raw = a.raws[sh]
				case mode == 3: // written and cleared again within the block
					raw = w.newRawSlot()
					sh = c47pKeccak(raw[:])
				default: // new slot
					raw = w.newRawSlot()
					sh = c47pKeccak(raw[:])
					final = w.randVal()
				}
				if touched[sh] {
					continue
				}
				touched[sh] = true
				k := 1
				if final == nil && m[sh] == nil {
					k = 2 // needs a non-zero intermediate write to be a write at all
				} else if w.r.intn(3) == 0 {
					k = 2 + w.r.intn(2)
				}
				var cs []c47pChange
				for j, idx := range w.idxs(k) {
					v := final
					if j < k-1 {
						v = w.randVal()
					}
					cs = append(cs, c47pChange{idx: idx, val: v})
				}
				e.writes[raw] = cs
				if final == nil {
					delete(m, sh)
					delete(a.raws, sh)
				} else {
					m[sh] = refrlp.EncodeString(final)
					a.raws[sh] = raw
				}
			}
			// a few slots only read (untouched ones: they keep their raw key)
			for i, nr := 0, w.r.intn(3); i < nr && len(existing) > 0; i++ {
				sh := existing[w.r.intn(len(existing))]
				if !touched[sh] {
					touched[sh] = true
					e.reads = append(e.reads, a.raws[sh])
				}
			}
			a.st = c47pMkStorage(m)
			changed = append(changed, a.hash)
		case opWipe:
			a := w.pick(used, func(a *c47pAcc) bool { return a.st != nil && len(a.st.keys) <= 300 })
			if a == nil {
				continue
			}
			e := entry(a.addr)
			idx := w.idxs(1)[0]
			for _, sh := range a.st.keys {
				e.writes[a.raws[sh]] = []c47pChange{{idx: idx}}
			}
			a.st, a.raws = nil, map[common.Hash]common.Hash{}
			changed = append(changed, a.hash)
		case opNewEOA:
			a := w.addAcc(0, w.randBalance(), nil, 0)
			used[a.hash] = true
			entry(a.addr).bals = w.balanceChanges(a.balance)
			changed = append(changed, a.hash)
		case opNewContract:
			var code []byte
			if w.r.intn(2) == 0 {
				code = w.codePool[w.r.intn(len(w.codePool))]
			} else {
				code = w.randBytes(24 + w.r.intn(600))
			}
			bal := new(big.Int)
			if w.r.intn(2) == 0 {
				bal = w.randBalance()
			}
			slots := w.r.intn(12)
			if w.r.intn(5) == 0 {
				slots = 40 + w.r.intn(160)
			}
			a := w.addAcc(1, bal, code, slots)
			used[a.hash] = true
			e := entry(a.addr)
			idx := w.idxs(1)[0]
			e.nonces = []c47pChange{{idx: idx, val: []byte{1}}}
			e.codes = []c47pChange{{idx: idx, val: code}}
			if bal.Sign() > 0 {
				e.bals = []c47pChange{{idx: idx, val: bal.Bytes()}}
			}
			if a.st != nil {
				for i, sh := range a.st.keys {
					// the stored value is rlp(trimmed value); recover the value
					it, _ := refrlp.Decode(a.st.vals[i])
					e.writes[a.raws[sh]] = []c47pChange{{idx: idx, val: it.Str}}
				}
			}
			changed = append(changed, a.hash)
		case opDrain:
			a := w.pick(used, func(a *c47pAcc) bool { return a.nonce == 0 && len(a.code) == 0 && a.st == nil })
			if a == nil {
				continue
			}
			a.alive = false
			a.balance = new(big.Int)
			entry(a.addr).bals = w.balanceChanges(a.balance)
			changed = append(changed, a.hash)
		case opSetCode:
			var a *c47pAcc
			if w.r.intn(3) > 0 { // mostly an account that is delegated already
				a = w.pick(used, func(a *c47pAcc) bool { return a.st == nil && len(a.code) == 23 })
			}
			if a == nil {
				a = w.pick(used, func(a *c47pAcc) bool { return a.st == nil && (len(a.code) == 0 || len(a.code) == 23) })
			}
			if a == nil {
				continue
			}
			// one code change per authorization (each bumps the nonce); the last one is the
			// block state. A delegation reset is a code change to the EMPTY code.
			e := entry(a.addr)
			had := len(a.code) == 23
			var seq [][]byte
			switch m := w.r.intn(10); {
			case had && m < 5:
				seq = [][]byte{nil} // delegation reset
			case had && m < 7:
				seq = [][]byte{w.delegation(), nil} // re-delegated, then reset
			case had && m < 8:
				seq = [][]byte{nil, w.delegation()} // reset, then delegated again
			case !had && m < 2:
				seq = [][]byte{w.delegation(), nil} // delegated and reset within the block
			default:
				seq = [][]byte{w.delegation()}
			}
			for i, idx := range w.idxs(len(seq)) {
				a.nonce++
				e.codes = append(e.codes, c47pChange{idx: idx, val: seq[i]})
				e.nonces = append(e.nonces, c47pChange{idx: idx, val: new(big.Int).SetUint64(a.nonce).Bytes()})
			}
			a.code = seq[len(seq)-1]
			if had && len(a.code) == 0 {
				cleared = append(cleared, a.hash)
			}
			changed = append(changed, a.hash)
		case opRead:
			if a := w.pick(used, func(*c47pAcc) bool { return true }); a != nil && w.r.intn(3) > 0 {
				e := entry(a.addr)
				if a.st != nil {
					e.reads = []common.Hash{a.raws[a.st.keys[w.r.intn(len(a.st.keys))]]}
				}
			} else {
				addr, _ := w.newAddr() // an address without an account
				entry(addr)
			}
		case opEphemeral:
			addr, _ := w.newAddr()
			ix := w.idxs(2)
			entry(addr).bals = []c47pChange{{idx: ix[0], val: w.randBalance().Bytes()}, {idx: ix[1]}}
		}
		desc = append(desc, c47pOpNames[kind])
	}
	if len(entries) == 0 { // nothing applicable: a plain transfer to a fresh address
		a := w.addAcc(0, w.randBalance(), nil, 0)
		entry(a.addr).bals = w.balanceChanges(a.balance)
		changed = append(changed, a.hash)
		desc = append(desc, "neweoa*")
	}
	for _, h := range changed {
		w.recordAcc(w.byHash[h])
	}
	return entries, changed, cleared, strings.Join(desc, "+")
}

// ---------------------------------------------------------------------------
// chain

type c47pChain struct {
	world   *c47pWorld
	base    uint64
	blocks  []*c47pBlock        // blocks[0] = first pivot (no access list needed)
	pivots  []int               // indexes into blocks, ascending, pivots[0] == 0
	states  map[int]*c47State   // per pivot block index
	byHash  map[common.Hash]int // block hash -> index
	ops     [][]int
	skelton map[int]bool // gap headers available from the skeleton only
}

type c47pShape struct {
	scheme   string
	seed     uint64
	filler   c47Shape
	nEOA0    int // addressable: never sent a transaction (drainable)
	nEOA     int
	nCode    int   // contracts without storage
	nDeleg   int   // EOAs with an EIP-7702 delegation designator as code
	stSizes  []int // contracts with storage
	clusters []c47pCluster // per contract with storage: dense run of slots at the start of the hash space
	gaps     []int // blocks between successive pivots
	window   uint64
	skeleton bool
}

func c47pDrawShape(rt *rapid.T) c47pShape {
	sh := c47pShape{
		scheme:   rapid.SampledFrom([]string{rawdb.HashScheme, rawdb.PathScheme}).Draw(rt, "scheme"),
		seed:     rapid.Uint64().Draw(rt, "seed"),
		nEOA0:    rapid.IntRange(0, 6).Draw(rt, "nEOA0"),
		nEOA:     rapid.IntRange(1, 12).Draw(rt, "nEOA"),
		nCode:    rapid.IntRange(0, 4).Draw(rt, "nCodeOnly"),
		nDeleg:   rapid.IntRange(0, 5).Draw(rt, "nDelegated"),
		window:   rapid.SampledFrom([]uint64{1, 2, 3, catchUpWindow}).Draw(rt, "catchUpWindow"),
		skeleton: rapid.Bool().Draw(rt, "gapHeadersInSkeleton"),
	}
	sh.filler = c47Shape{
		scheme:    sh.scheme,
		seed:      rapid.Uint64().Draw(rt, "fillerSeed"),
		hostile:   rapid.Bool().Draw(rt, "hostileKeys"),
		stShare:   rapid.SampledFrom([]int{0, 20, 60}).Draw(rt, "fillerStorageShare"),
		codeShare: rapid.SampledFrom([]int{0, 30, 90}).Draw(rt, "fillerCodeShare"),
		nAccounts: rapid.SampledFrom([]int{0, 3, 10, 25, 50}).Draw(rt, "nFiller"),
		stSizes:   []int{rapid.SampledFrom([]int{1, 5, 40, 200}).Draw(rt, "fillerTpl")},
	}
	nSt := rapid.IntRange(1, 8).Draw(rt, "nContracts")
	maxBig := 350
	if vs.Thorough() {
		maxBig = 900
	}
	for i := 0; i < nSt; i++ {
		switch rapid.IntRange(0, 5).Draw(rt, fmt.Sprintf("st%d/cls", i)) {
		case 0:
			sh.stSizes = append(sh.stSizes, 1)
		case 1, 2:
			sh.stSizes = append(sh.stSizes, rapid.IntRange(2, 15).Draw(rt, fmt.Sprintf("st%d/few", i)))
		case 3, 4:
			sh.stSizes = append(sh.stSizes, rapid.IntRange(20, 120).Draw(rt, fmt.Sprintf("st%d/mid", i)))
		default:
			sh.stSizes = append(sh.stSizes, rapid.IntRange(150, maxBig).Draw(rt, fmt.Sprintf("st%d/big", i)))
		}
		var cl c47pCluster
		if sh.stSizes[i] >= 2 && rapid.Bool().Draw(rt, fmt.Sprintf("st%d/cluster", i)) {
			cl = c47pCluster{n: rapid.IntRange(8, 40).Draw(rt, fmt.Sprintf("st%d/clusterSlots", i)), bits: rapid.IntRange(11, 15).Draw(rt, fmt.Sprintf("st%d/clusterBits", i))}
		}
		sh.clusters = append(sh.clusters, cl)
	}
	nPiv := rapid.IntRange(1, 3).Draw(rt, "laterPivots")
	for i := 0; i < nPiv; i++ {
		sh.gaps = append(sh.gaps, rapid.SampledFrom([]int{1, 1, 2, 3, 5}).Draw(rt, fmt.Sprintf("gap%d", i)))
	}
	return sh
}

func c47pHeader(num uint64, parent common.Hash, root common.Hash, balHash common.Hash) *types.Header {
	var (
		emptyH common.Hash
		zero   uint64
	)
	return &types.Header{
		ParentHash: parent, Number: new(big.Int).SetUint64(num), Root: root, Difficulty: common.Big0,
		BaseFee: common.Big0, WithdrawalsHash: &emptyH, BlobGasUsed: &zero, ExcessBlobGas: &zero,
		ParentBeaconRoot: &emptyH, RequestsHash: &emptyH, BlockAccessListHash: &balHash,
	}
}

func c47pBuildChain(rt *rapid.T, sh c47pShape) (*c47pChain, error) {
	w := &c47pWorld{scheme: sh.scheme, r: &c47Rand{sh.seed | 1}, byHash: map[common.Hash]*c47pAcc{},
		hist: map[common.Hash]*c47pHist{}, codes: map[common.Hash][]byte{}}
	for _, n := range []int{1, 30, 700, 2500} {
		w.codePool = append(w.codePool, w.randBytes(n))
	}
	w.fillers = c47GenAccounts(sh.filler)
	for _, f := range w.fillers {
		w.record(f.hash, f.nonce, f.balance, f.code, f.st)
	}
	for i := 0; i < sh.nEOA0; i++ {
		w.addAcc(0, w.randBalance(), nil, 0)
	}
	for i := 0; i < sh.nEOA; i++ {
		w.addAcc(1+w.r.next()%50, w.randBalance(), nil, 0)
	}
	for i := 0; i < sh.nCode; i++ {
		w.addAcc(1, new(big.Int).SetUint64(w.r.next()%3), w.codePool[w.r.intn(len(w.codePool))], 0)
	}
	for i := 0; i < sh.nDeleg; i++ {
		w.addAcc(1+w.r.next()%50, w.randBalance(), w.delegation(), 0)
	}
	for i, n := range sh.stSizes {
		w.addAcc(1, new(big.Int).SetUint64(w.r.next()%1000), w.codePool[w.r.intn(len(w.codePool))], n, sh.clusters[i])
	}
	for _, a := range w.addrs {
		w.recordAcc(a)
	}
	ch := &c47pChain{world: w, base: 128 + sh.seed%1000, states: map[int]*c47State{}, byHash: map[common.Hash]int{}, skelton: map[int]bool{}}
	st0, err := w.assemble()
	if err != nil {
		return nil, err
	}
	ch.states[0] = st0
	ch.pivots = []int{0}
	h0 := c47pHeader(ch.base, c47pKeccak([]byte("parent")), st0.root, types.EmptyBlockAccessListHash)
	ch.blocks = []*c47pBlock{{header: h0, hash: h0.Hash(), desc: "base"}}
	ch.ops = [][]int{nil}
	idx := 0
	for p, gap := range sh.gaps {
		for g := 0; g < gap; g++ {
			idx++
			nOps := rapid.IntRange(1, 5).Draw(rt, fmt.Sprintf("blk%d/nOps", idx))
			var kinds []int
			for o := 0; o < nOps; o++ {
				kinds = append(kinds, rapid.SampledFrom(c47pOpWeights).Draw(rt, fmt.Sprintf("blk%d/op%d", idx, o)))
			}
			entries, changed, cleared, desc := w.genBlock(kinds)
			raw := c47pEncodeBAL(entries)
			root := c47pKeccak([]byte(fmt.Sprintf("no state served for block %d", idx)))
			if g == gap-1 {
				st, err := w.assemble()
				if err != nil {
					return nil, err
				}
				ch.states[idx] = st
				ch.pivots = append(ch.pivots, idx)
				root = st.root
			} else if sh.skeleton {
				ch.skelton[idx] = true
			}
			hd := c47pHeader(ch.base+uint64(idx), ch.blocks[idx-1].hash, root, c47pKeccak(raw))
			ch.blocks = append(ch.blocks, &c47pBlock{header: hd, hash: hd.Hash(), raw: raw, evil: c47pEvil(entries, w.r), changed: changed, cleared: cleared,
				desc: fmt.Sprintf("#%d(p%d):%s", idx, p+1, desc)})
			ch.ops = append(ch.ops, kinds)
			// self-check: the access list is well-formed for geth's decoder, canonical and valid
			var b bal.BlockAccessList
			if err := rlp.DecodeBytes(raw, &b); err != nil {
				return nil, fmt.Errorf("generated access list of block %d does not decode: %v", idx, err)
			}
			if b.Hash() != c47pKeccak(raw) {
				return nil, fmt.Errorf("generated access list of block %d is not canonical for geth's encoder", idx)
			}
			if err := b.Validate(60_000_000, 8); err != nil {
				return nil, fmt.Errorf("generated access list of block %d is not valid: %v", idx, err)
			}
			var e bal.BlockAccessList
			if err := rlp.DecodeBytes(ch.blocks[idx].evil, &e); err != nil || e.Hash() == b.Hash() {
				return nil, fmt.Errorf("altered access list of block %d: decode err %v / same hash", idx, err)
			}
		}
	}
	for i, b := range ch.blocks {
		ch.byHash[b.hash] = i
	}
	return ch, nil
}

// install writes the headers the downloader would have before it moves the pivot.
func (ch *c47pChain) install(db ethdb.KeyValueStore) {
	for i, b := range ch.blocks {
		if ch.skelton[i] {
			rawdb.WriteSkeletonHeader(db, b.header)
		} else {
			rawdb.WriteHeader(db, b.header)
		}
		rawdb.WriteCanonicalHash(db, b.hash, b.header.Number.Uint64())
	}
}

func (ch *c47pChain) describe() string {
	var d []string
	for _, b := range ch.blocks[1:] {
		d = append(d, b.desc)
	}
	return strings.Join(d, " ")
}

// ---------------------------------------------------------------------------
// write barrier over the union of honest block states

type c47pDB struct {
	ethdb.KeyValueStore
	base   *c47DB // violation list, notes and the put counter (progress for the watchdog)
	world  *c47pWorld
	scheme string
	// cancel point of the running cycle, in flat account writes (0 = none)
	accPuts, accTarget atomic.Int64
	trigger            atomic.Pointer[func()]
}

// arm makes the n-th flat account write from now on call f (once).
func (d *c47pDB) arm(n int64, f func()) {
	d.accTarget.Store(0)
	d.accPuts.Store(0)
	d.trigger.Store(&f)
	d.accTarget.Store(n)
}

func (d *c47pDB) check(key, val []byte) {
	d.base.puts.Add(1)
	w := d.world
	switch {
	case len(key) == 33 && key[0] == 'a':
		if n := d.accPuts.Add(1); n == d.accTarget.Load() {
			(*d.trigger.Load())()
		}
		h := common.BytesToHash(key[1:])
		hi := w.hist[h]
		if hi == nil {
			d.base.violation("flat account written for %x which exists in no honest block state (value %x)", h, val)
			return
		}
		it, err := refrlp.Decode(val)
		if err != nil || !it.IsList || len(it.List) != 4 {
			d.base.violation("flat account %x written with a malformed body %x", h, val)
			return
		}
		var (
			nonce   = new(big.Int).SetBytes(it.List[0].Str)
			balance = new(big.Int).SetBytes(it.List[1].Str)
			root    = common.Hash(reftrie.EmptyRoot)
			code    = c47pKeccak(nil)
		)
		if len(it.List[2].Str) > 0 {
			root = common.BytesToHash(it.List[2].Str)
		}
		if len(it.List[3].Str) > 0 {
			code = common.BytesToHash(it.List[3].Str)
		}
		if !hi.triples[fmt.Sprintf("%s|%s|%x", nonce.String(), balance.String(), code)] {
			d.base.violation("flat account %x written as nonce=%v balance=%v codehash=%x: no honest block state has these values for it", h, nonce, balance, code)
		} else if !hi.roots[root] {
			d.base.violation("flat account %x written with storage root %x which it has in no honest block state", h, root)
		}
	case len(key) == 65 && key[0] == 'o':
		h := common.BytesToHash(key[1:33])
		slot := common.BytesToHash(key[33:])
		hi := w.hist[h]
		if hi == nil || len(hi.sts) == 0 {
			d.base.violation("flat storage slot written for account %x which has storage in no honest block state", h)
			return
		}
		for _, st := range hi.sts {
			i := sort.Search(len(st.keys), func(i int) bool { return bytes.Compare(st.keys[i][:], slot[:]) >= 0 })
			if i < len(st.keys) && st.keys[i] == slot && bytes.Equal(st.vals[i], val) {
				return
			}
		}
		d.base.violation("flat storage slot %x/%x written as %x: no honest block state has this value there", h, slot, val)
	case len(key) == 33 && key[0] == 'c':
		h := common.BytesToHash(key[1:])
		if c47pKeccak(val) != h {
			d.base.violation("code written under hash %x does not hash to it (%d bytes)", h, len(val))
		} else if _, ok := w.codes[h]; !ok {
			d.base.violation("code %x written but no account of any honest block state uses it", h)
		}
	case d.scheme == rawdb.HashScheme && len(key) == 32:
		if c47pKeccak(val) != common.BytesToHash(key) {
			d.base.violation("trie node written under hash %x does not hash to it (node %x)", key, val)
		}
	}
}

func (d *c47pDB) Put(key, val []byte) error {
	d.check(key, val)
	return d.KeyValueStore.Put(key, val)
}
func (d *c47pDB) NewBatch() ethdb.Batch { return &c47pBatch{Batch: d.KeyValueStore.NewBatch(), db: d} }
func (d *c47pDB) NewBatchWithSize(n int) ethdb.Batch {
	return &c47pBatch{Batch: d.KeyValueStore.NewBatchWithSize(n), db: d}
}

type c47pBatch struct {
	ethdb.Batch
	db *c47pDB
}

func (b *c47pBatch) Put(key, val []byte) error {
	b.db.check(key, val)
	return b.Batch.Put(key, val)
}

// ---------------------------------------------------------------------------
// access list peers

const (
	balHonest = iota
	balTruncate
	balDelay
	// below: only for non-anchor peers
	balEmpty
	balDrop
	balRefuseSome
	balRefuseAll
	balFlip
	balEvil
	balSwap
	balReplay
	balGarbage
	balExtra
	balCount
)

var c47pBalNames = []string{"honest", "truncate", "delay", "empty", "drop", "refusesome", "refuseall", "flip", "evil", "swap", "replay", "garbage", "extra"}

type c47pCounters struct {
	balReqs, balTampered, balRefused, balUndecodable, staleRoot atomic.Int64
}

type c47pPeer struct {
	*c47Peer
	chain  *c47pChain
	cnt    *c47pCounters
	script []int
	pos    atomic.Int32
}

func (p *c47pPeer) onBALs(tp *testPeerV2, id uint64, hashes []common.Hash) error {
	p.run.tick()
	p.cnt.balReqs.Add(1)
	i := int(p.pos.Add(1)) - 1
	bh := balHonest
	if i < len(p.script) {
		bh = p.script[i]
	}
	if bh == balDelay {
		p.perturb(bhDelay)
	} else {
		p.perturb(bhHonest)
	}
	var out []rlp.RawValue
	for _, h := range hashes {
		if bi, ok := p.chain.byHash[h]; ok && bi > 0 {
			out = append(out, p.chain.blocks[bi].raw)
		} else {
			out = append(out, rlp.EmptyString)
		}
	}
	r := p.rand(1 << 20)
	tampered := false
	switch bh {
	case balDrop:
		return nil
	case balEmpty:
		out = nil
	case balTruncate:
		out = out[:1+r%len(out)]
	case balRefuseSome:
		out[r%len(out)] = rlp.EmptyString
		p.cnt.balRefused.Add(1)
	case balRefuseAll:
		for i := range out {
			out[i] = rlp.EmptyString
		}
		p.cnt.balRefused.Add(1)
	case balFlip:
		j := r % len(out)
		out[j] = c47Flip(out[j], r>>8)
		tampered = true
	case balEvil:
		j := r % len(hashes)
		if bi, ok := p.chain.byHash[hashes[j]]; ok && bi > 0 {
			out[j] = p.chain.blocks[bi].evil
			tampered = true
		}
	case balSwap:
		if len(out) > 1 {
			j := r % (len(out) - 1)
			out[j], out[j+1] = out[j+1], out[j]
			tampered = true
		} else if len(p.chain.blocks) > 2 { // the list of a different block
			bi := p.chain.byHash[hashes[0]]
			out[0] = p.chain.blocks[1+bi%(len(p.chain.blocks)-1)].raw
			tampered = !bytes.Equal(out[0], p.chain.blocks[bi].raw)
		}
	case balReplay:
		for j := range out {
			out[j] = p.chain.blocks[1].raw
		}
		tampered = true
	case balGarbage:
		j := r % len(out)
		if r&1 == 0 {
			out[j] = rlp.RawValue{0x83, 'b', 'a', 'l'}
		} else {
			out[j] = rlp.RawValue{0xc3, 0x01, 0x02, 0x03}
		}
		tampered = true
	case balExtra:
		out = append(out, p.chain.blocks[len(p.chain.blocks)-1].raw)
		tampered = true
	}
	if tampered {
		p.cnt.balTampered.Add(1)
		p.run.tampered.Add(1)
	}
	// through the wire decoding, as a real reply: rlp.EncodeToRawList would take the item
	// count from the slice, and a corrupted item with broken framing then makes
	// RawList.Items index out of range, which no received message can do. A message
	// that does not decode is never delivered (the real peer is dropped instead).
	var payload []byte
	for _, it := range out {
		payload = append(payload, it...)
	}
	var list rlp.RawList[rlp.RawValue]
	if err := rlp.DecodeBytes(refrlp.WrapList(payload), &list); err != nil {
		p.cnt.balUndecodable.Add(1)
		return nil
	}
	if err := tp.remote.OnAccessLists(tp, id, list); err != nil {
		p.run.rejected.Add(1)
	}
	return nil
}

func c47pDrawBalScript(rt *rapid.T, label string, anchor bool, drops *int) []int {
	n := rapid.IntRange(1, 6).Draw(rt, label+"/bal/len")
	var out []int
	for i := 0; i < n; i++ {
		var bh int
		if anchor {
			bh = rapid.IntRange(balHonest, balDelay).Draw(rt, fmt.Sprintf("%s/bal/%d", label, i))
		} else {
			bh = rapid.IntRange(balHonest, balCount-1).Draw(rt, fmt.Sprintf("%s/bal/%d", label, i))
			if bh == balDrop {
				if *drops == 0 {
					bh = balEvil
				} else {
					*drops--
				}
			}
		}
		out = append(out, bh)
	}
	return out
}

func c47pBalScriptString(s []int) string {
	var n []string
	for _, b := range s {
		n = append(n, c47pBalNames[b])
	}
	return "bal[" + strings.Join(n, ",") + "]"
}

// c47pNewPeer makes a snap/2 test peer serving the given pivot state and the chain's
// access lists. Requests for a root other than that state's are refused, as a real
// peer would.
func c47pNewPeer(t *testing.T, name string, run *c47Run, pp *c47pPeer) *testPeerV2 {
	tp := c47NewPeerV2(t, name, run, pp.c47Peer)
	want := run.state.root
	acc, sto := tp.accountRequestV2Handler, tp.storageRequestV2Handler
	tp.accountRequestV2Handler = func(p *testPeerV2, id uint64, root, origin, limit common.Hash, cap int) error {
		if root != want {
			pp.cnt.staleRoot.Add(1)
			p.remote.OnAccounts(p, id, nil, nil, nil)
			return nil
		}
		return acc(p, id, root, origin, limit, cap)
	}
	tp.storageRequestV2Handler = func(p *testPeerV2, id uint64, root common.Hash, accounts []common.Hash, origin, limit []byte, max int) error {
		if root != want {
			pp.cnt.staleRoot.Add(1)
			p.remote.OnStorage(p, id, nil, nil, nil)
			return nil
		}
		return sto(p, id, root, accounts, origin, limit, max)
	}
	tp.accessListRequestHandler = func(p *testPeerV2, id uint64, hashes []common.Hash, max int) error {
		return pp.onBALs(p, id, hashes)
	}
	return tp
}

// ---------------------------------------------------------------------------
// comparison with the final pivot

// c47pDiffFlat lists differences between the flat state and the model, ignoring the
// (possibly not yet recomputed) storage roots of the flat accounts.
func c47pDiffFlat(inner ethdb.KeyValueStore, s *c47State, changed map[common.Hash]bool) []string {
	var (
		diffs []string
		seenA = map[common.Hash]bool{}
		seenS = map[common.Hash]int{}
	)
	add := func(format string, a ...any) {
		if len(diffs) < 6 {
			diffs = append(diffs, fmt.Sprintf(format, a...))
		}
	}
	tag := func(h common.Hash) string {
		if changed[h] {
			return " (touched by an access list)"
		}
		return ""
	}
	it := inner.NewIterator(nil, nil)
	defer it.Release()
	for it.Next() {
		key, val := it.Key(), it.Value()
		switch {
		case len(key) == 33 && key[0] == 'a':
			h := common.BytesToHash(key[1:])
			a := s.byHash[h]
			if a == nil {
				add("flat account %x%s is not in the pivot's state", h, tag(h))
				continue
			}
			seenA[h] = true
			got, err := refrlp.Decode(val)
			want, _ := refrlp.Decode(a.slim)
			if err != nil || !got.IsList || len(got.List) != 4 || !bytes.Equal(got.List[0].Str, want.List[0].Str) ||
				!bytes.Equal(got.List[1].Str, want.List[1].Str) || !bytes.Equal(got.List[3].Str, want.List[3].Str) {
				add("flat account %x%s = %x, pivot state has %x", h, tag(h), val, a.slim)
			}
		case len(key) == 65 && key[0] == 'o':
			h := common.BytesToHash(key[1:33])
			slot := common.BytesToHash(key[33:])
			a := s.byHash[h]
			if a == nil || a.st == nil {
				add("flat slot %x/%x%s = %x, the account has no storage in the pivot's state", h, slot, tag(h), val)
				continue
			}
			i := sort.Search(len(a.st.keys), func(i int) bool { return bytes.Compare(a.st.keys[i][:], slot[:]) >= 0 })
			if i == len(a.st.keys) || a.st.keys[i] != slot {
				add("flat slot %x/%x%s = %x does not exist in the pivot's state", h, slot, tag(h), val)
			} else if !bytes.Equal(a.st.vals[i], val) {
				add("flat slot %x/%x%s = %x, pivot state has %x", h, slot, tag(h), val, a.st.vals[i])
			}
			seenS[h]++
		}
	}
	for _, a := range s.accts {
		if !seenA[a.hash] {
			add("account %x%s of the pivot's state is missing from the flat state", a.hash, tag(a.hash))
		} else if a.st != nil && seenS[a.hash] != len(a.st.keys) {
			add("account %x%s has %d flat slots, pivot state has %d", a.hash, tag(a.hash), seenS[a.hash], len(a.st.keys))
		}
	}
	return diffs
}

// c47pCompare: the store holds exactly the final pivot's state. Codes are never deleted
// by the syncer, so codes of earlier honest states may remain; every code of the final
// state must be there and nothing else than honest codes.
func c47pCompare(inner ethdb.KeyValueStore, s *c47State, w *c47pWorld) error {
	stored := map[common.Hash][]byte{}
	it := inner.NewIterator([]byte("c"), nil)
	for it.Next() {
		if key := it.Key(); len(key) == 33 {
			h := common.BytesToHash(key[1:])
			want, ok := w.codes[h]
			if !ok || !bytes.Equal(want, it.Value()) {
				it.Release()
				return fmt.Errorf("stored code %x is not a code of any honest block state", h)
			}
			stored[h] = want
		}
	}
	it.Release()
	for h := range s.codes {
		if _, ok := stored[h]; !ok {
			return fmt.Errorf("code %x of the pivot's state is missing", h)
		}
	}
	cp := *s
	cp.codes = stored
	return c47Compare(inner, &cp)
}

// ---------------------------------------------------------------------------
// the property

var (
	c47pCases, c47pStalls atomic.Int64
)

type c47pStep struct {
	cancelAt    int64 // served requests
	cancelAccts int64 // flat account writes
	cancelChunk int64 // accepted replies to chunked storage requests (whichever comes first)
	move        bool
	fresh       bool
	last        bool // no cancel point
}

func c47pJournal(db ethdb.KeyValueReader) *syncProgressV2 {
	raw := rawdb.ReadSnapshotSyncStatus(db)
	if len(raw) == 0 || raw[0] != syncProgressVersion {
		return nil
	}
	var p syncProgressV2
	if err := json.Unmarshal(raw[1:], &p); err != nil {
		return nil
	}
	return &p
}

// c47pChunkState inspects the suspended large-contract retrievals of a journal: multi =
// a contract split into at least two storage chunks is suspended; later = an open chunk
// is followed by downloaded slots of the same contract (a later chunk has a downloaded
// prefix or is complete), i.e. the journal describes fetched storage behind a hole.
func c47pChunkState(p *syncProgressV2) (multi, later bool) {
	for _, task := range p.Tasks {
		for _, subs := range task.SubTasks {
			for i, sub := range subs {
				if sub.Last != common.MaxHash || i > 0 {
					multi = true
				}
				if i+1 < len(subs) {
					if subs[i+1].Next != incHash(sub.Last) {
						later = true
					}
				} else if sub.Last != common.MaxHash {
					later = true
				}
			}
		}
	}
	return multi, later
}

func c47pFetched(p *syncProgressV2, h common.Hash) bool {
	for _, task := range p.Tasks {
		if bytes.Compare(h[:], task.Last[:]) <= 0 {
			return bytes.Compare(h[:], task.Next[:]) < 0
		}
	}
	return true
}

const c47pMult = 1.0

// c47pCycleBound bounds one Sync cycle. The states are small (a cycle needs well under a
// second of CPU), and a scheduler that keeps serving requests without getting anywhere
// never trips the no-progress rule, so the total bound is what ends a livelock.
const c47pCycleBound = 2 * time.Minute

func TestVerifC47PivotV2(t *testing.T) {
	st := vs.New("C47", t)
	vs.Check(t, c47pMult, func(rt *rapid.T) {
		c := st.Case()
		c47pCases.Add(1)
		sh := c47pDrawShape(rt)
		chain, err := c47pBuildChain(rt, sh)
		if err != nil {
			t.Fatalf("VERIF-HARNESS-BUG: building the chain of states: %v", err)
		}
		world := chain.world

		nPeers := rapid.IntRange(1, 4).Draw(rt, "nPeers")
		drops := 2
		ttl := rapid.SampledFrom([]time.Duration{150 * time.Millisecond, 600 * time.Millisecond, 5 * time.Second}).Draw(rt, "ttl")
		if ttl > time.Second {
			drops = 0
		}
		// the plan: cancel points, pivot moves, fresh syncer or the same one
		var plan []c47pStep
		nSteps := len(sh.gaps) + rapid.IntRange(0, 2).Draw(rt, "extraCycles")
		// cancel points: after a few served requests (lands in the catch-up of a moved cycle),
		// after a share of the requests a complete sync needs at least, or after a share of
		// the accounts has been written (controls the fetched / not yet fetched partition);
		// in addition after a number of accepted storage chunk replies, and every cycle but
		// the last is interrupted when a slow peer (c47Peer.holds) that sits on an early
		// storage chunk of a contract has seen later chunks progress (resume from a journal
		// that describes fetched storage behind an open chunk)
		est := 16 + len(chain.states[0].codes)/4
		for _, a := range chain.states[0].accts {
			if a.st != nil {
				est++
			}
		}
		for i := 0; i < nSteps; i++ {
			s := c47pStep{
				move:  rapid.IntRange(0, 5).Draw(rt, fmt.Sprintf("step%d/move", i)) > 0,
				fresh: rapid.Bool().Draw(rt, fmt.Sprintf("step%d/freshSyncer", i)),
			}
			hi := 85
			if i > 0 {
				hi = 45 // part of the work is already done
			}
			switch rapid.IntRange(0, 5).Draw(rt, fmt.Sprintf("step%d/cancelKind", i)) {
			case 0:
				s.cancelAt = int64(rapid.IntRange(1, 4).Draw(rt, fmt.Sprintf("step%d/cancelEarly", i)))
			case 1, 2:
				s.cancelAt = int64(1 + est*rapid.IntRange(10, hi).Draw(rt, fmt.Sprintf("step%d/cancelPct", i))/100)
			default:
				s.cancelAccts = int64(1 + len(chain.states[0].accts)*rapid.IntRange(10, hi).Draw(rt, fmt.Sprintf("step%d/cancelAcctPct", i))/100)
			}
			// additionally: in the middle of a large-contract retrieval, if there is one
			if rapid.Bool().Draw(rt, fmt.Sprintf("step%d/cancelInChunks", i)) {
				s.cancelChunk = int64(rapid.IntRange(1, 10).Draw(rt, fmt.Sprintf("step%d/cancelChunkReplies", i)))
			}
			plan = append(plan, s)
		}
		plan = append(plan, c47pStep{fresh: rapid.Bool().Draw(rt, "last/freshSyncer"), last: true}) // runs to completion
		// peers of every cycle (drawn up front: draws must not depend on the schedule)
		type peerSet struct {
			peers []*c47pPeer
			desc  string
		}
		cnt := &c47pCounters{}
		var sets []peerSet
		for ci := range plan {
			label := fmt.Sprintf("c%d", ci)
			cps, desc := c47DrawPeers(rt, label, nPeers, false, &drops)
			var ps peerSet
			var ds []string
			for i, cp := range cps {
				pp := &c47pPeer{c47Peer: cp, chain: chain, cnt: cnt, script: c47pDrawBalScript(rt, fmt.Sprintf("%s/p%d", label, i), i == 0, &drops)}
				ps.peers = append(ps.peers, pp)
				ds = append(ds, c47pBalScriptString(pp.script))
			}
			ps.desc = desc + " " + strings.Join(ds, ";")
			sets = append(sets, ps)
		}

		inner := memorydb.New()
		chain.install(inner)
		base := &c47DB{KeyValueStore: inner, notes: map[string]int{}}
		wdb := &c47pDB{KeyValueStore: inner, base: base, world: world, scheme: sh.scheme}
		db := rawdb.NewDatabase(wdb)

		var (
			total    = &c47Run{}
			history  []string
			cur      = 0 // index into chain.pivots
			moves    int
			midCatch int
			fetchedChanged, unfetchedChanged, fetchedSlotAccts int
			fetchedCleared, multiChunk, laterChunk             int
			changedAll                                         = map[common.Hash]bool{}
		)
		report := func(format string, a ...any) {
			rt.Fatalf("%s\n  snap/2 moving pivot: %+v\n  chain: %s\n  cycles: %s\n  served=%d rejected=%d(acc %d sto %d code %d) tampered=%d (access lists %d) chunked-storage-requests=%d access-list-requests=%d db-puts=%d",
				fmt.Sprintf(format, a...), sh, chain.describe(), strings.Join(history, " | "), total.served.Load(), total.rejected.Load(),
				total.rejectedBy[0].Load(), total.rejectedBy[1].Load(), total.rejectedBy[2].Load(), total.tampered.Load(), cnt.balTampered.Load(),
				total.chunked.Load(), cnt.balReqs.Load(), base.puts.Load())
		}
		// barrier reports what the write barrier has seen; cur (optional) is the state of the
		// pivot of the cycle that just ended with the download complete: a wrong storage
		// root written by the trie generator is explained by the flat-state difference
		barrier := func(cur *c47State) {
			base.mu.Lock()
			v := append([]string{}, base.viol...)
			base.mu.Unlock()
			if len(v) > 0 {
				msg := "data that belongs to no honest block state reached the database: " + strings.Join(v, " | ")
				if cur != nil {
					if d := c47pDiffFlat(inner, cur, changedAll); len(d) > 0 {
						msg += "\n  the download phase is complete, but the flat state is not the pivot's state: " + strings.Join(d, "; ")
					}
				}
				report("%s", msg)
			}
		}
		stalled := func(where string) {
			n := c47pStalls.Add(1)
			c.Class("pivot/inconclusive-stall")
			st.Note("moving-pivot stall (%s): %+v cycles: %s", where, sh, strings.Join(history, " | "))
			barrier(nil)
			if n > 3 && n*4 > c47pCases.Load() {
				t.Fatalf("VERIF-INCONCLUSIVE: %d of %d moving-pivot syncs stalled; wall-clock stalls are not a verdict", n, c47pCases.Load())
			}
		}

		var (
			sy       *syncerV2
			regPeers []string
			final    *c47State
		)
		for ci, step := range plan {
			target := chain.blocks[chain.pivots[cur]].header
			state := chain.states[chain.pivots[cur]]
			if sy == nil || step.fresh {
				sy = newSyncerV2(db, sh.scheme) // as after a process restart
				regPeers = nil
			}
			for _, id := range regPeers {
				sy.Unregister(id)
			}
			regPeers = nil
			sy.rates.OverrideTTLLimit = ttl
			sy.catchUpWindow = sh.window
			run := &c47Run{state: state, cancel: make(chan struct{}), cancelAt: step.cancelAt, cancelChunked: step.cancelChunk, holdCancel: !step.last}
			wdb.arm(step.cancelAccts, func() { run.cancelOnce.Do(func() { close(run.cancel) }) })
			for i, pp := range sets[ci].peers {
				p := c47pNewPeer(t, fmt.Sprintf("c%d-peer%d", ci, i), run, pp)
				sy.Register(p)
				p.remote = sy
				regPeers = append(regPeers, p.id)
			}
			history = append(history, fmt.Sprintf("cycle %d: pivot #%d cancelAfter=%dreq/%dacc/%dchunk fresh=%v peers=%s", ci, chain.pivots[cur], step.cancelAt, step.cancelAccts, step.cancelChunk, step.fresh, sets[ci].desc))
			syc := sy
			out := c47Sync(func(cc chan struct{}) error { return syc.Sync(target, cc) }, func() string { return c47DumpSyncerV2(syc) }, run, base, c47pCycleBound)
			total.served.Add(run.served.Load())
			total.rejected.Add(run.rejected.Load())
			total.tampered.Add(run.tampered.Load())
			total.chunked.Add(run.chunked.Load())
			total.multiReqs.Add(run.multiReqs.Load())
			total.held.Add(run.held.Load())
			total.heldReached.Add(run.heldReached.Load())
			total.heldCancel.Add(run.heldCancel.Load())
			for k := 0; k < 4; k++ {
				total.rejectedBy[k].Add(run.rejectedBy[k].Load())
			}
			if out.stalled {
				stalled(fmt.Sprintf("cycle %d", ci))
				return
			}
			if sy.getPhase() >= phaseGenerate {
				barrier(state)
			}
			barrier(nil)
			if out.err == nil {
				final = state
				history = append(history, fmt.Sprintf("cycle %d completed", ci))
				break
			}
			cancelled := out.err == ErrCancelled || out.err == triedb.ErrCancelled
			if !cancelled || step.last {
				// an honest peer (peer 0) was available throughout: the sync has no excuse
				msg := fmt.Sprintf("Sync against pivot #%d failed although peer 0 serves everything honestly: %v", chain.pivots[cur], out.err)
				if d := c47pDiffFlat(inner, state, changedAll); len(d) > 0 && sy.getPhase() >= phaseGenerate {
					msg += "\n  the download phase is complete, but the flat state is not the pivot's state: " + strings.Join(d, "; ")
				}
				report("%s", msg)
			}
			// cancelled: where did it stop?
			j := c47pJournal(inner)
			if j == nil || j.Pivot == nil {
				// nothing persisted (cancelled before anything happened): a fresh start
				history = append(history, "no journal")
			} else if j.Pivot.Hash() != target.Hash() {
				midCatch++
				history = append(history, fmt.Sprintf("cancelled inside catch-up at block #%d", chain.byHash[j.Pivot.Hash()]))
			}
			if j != nil {
				// statistics: what does the next cycle resume from?
				multi, later := c47pChunkState(j)
				if multi {
					multiChunk++
				}
				if later {
					laterChunk++
					history = append(history, "journal: open storage chunk before downloaded slots")
				}
			}
			// the downloader moves the pivot only while it is not frozen
			if frozen := sy.FrozenPivot(); frozen != nil {
				if frozen.Hash() != target.Hash() {
					report("FrozenPivot() = block %v, but the cycle ran against #%d", frozen.Number, chain.pivots[cur])
				}
				history = append(history, "pivot frozen")
				continue
			}
			if step.move && cur < len(chain.pivots)-1 {
				from := 0
				if j != nil && j.Pivot != nil {
					from = chain.byHash[j.Pivot.Hash()]
				}
				cur++
				moves++
				// statistics: which of the accounts changed by the gap blocks were already fetched?
				if j != nil && j.Pivot != nil {
					for bi := from + 1; bi <= chain.pivots[cur]; bi++ {
						for _, h := range chain.blocks[bi].changed {
							changedAll[h] = true
							if c47pFetched(j, h) {
								fetchedChanged++
								if a := world.byHash[h]; a != nil && len(a.raws) > 0 {
									fetchedSlotAccts++
								}
							} else {
								unfetchedChanged++
							}
						}
						for _, h := range chain.blocks[bi].cleared {
							if c47pFetched(j, h) {
								fetchedCleared++
							}
						}
					}
				}
			}
		}
		if final == nil {
			report("the plan ended without a completed sync (last cycle has no cancel point)")
		}
		if err := c47pCompare(inner, final, world); err != nil {
			msg := fmt.Sprintf("Sync returned nil but the database is not the state at the final pivot: %v", err)
			if d := c47pDiffFlat(inner, final, changedAll); len(d) > 0 {
				msg += "\n  flat state differences: " + strings.Join(d, "; ")
			}
			report("%s", msg)
		}
		// (t.Failed() may already be set: rapid re-runs the minimal failing case once more
		// after it has marked the test as failed)
		failedBefore := t.Failed()
		func() {
			defer func() {
				if r := recover(); r != nil {
					report("verifyTrie panicked: %v", r)
				}
			}()
			verifyTrie(sh.scheme, inner, final.root, t)
		}()
		if t.Failed() && !failedBefore {
			report("verifyTrie failed")
		}
		if n := cnt.staleRoot.Load(); n > 0 {
			st.Note("%d requests for a root other than the cycle's pivot root (refused)", n)
		}

		nt := moves > 0 && fetchedChanged > 0 && unfetchedChanged > 0
		c.NonTrivial(nt, fmt.Sprintf("pivot|%+v|%v|%s", sh, plan, strings.Join(history, "|")))
		c.Classf("pivot/scheme/%s", sh.scheme)
		c.Classf("pivot/moves=%d", moves)
		c.Classf("pivot/cancelled-inside-catch-up=%v", midCatch > 0)
		c.Classf("pivot/changed-account-already-fetched=%v", fetchedChanged > 0)
		c.Classf("pivot/changed-contract-storage-already-fetched=%v", fetchedSlotAccts > 0)
		c.Classf("pivot/changed-account-not-yet-fetched=%v", unfetchedChanged > 0)
		c.Classf("pivot/access-list-tampered=%v", cnt.balTampered.Load() > 0)
		c.Classf("pivot/access-list-refused=%v", cnt.balRefused.Load() > 0)
		c.Classf("pivot/chunked-storage=%v", total.chunked.Load() > 0)
		c.Classf("pivot/code-cleared-on-already-fetched-account=%v", fetchedCleared > 0)
		c.Classf("pivot/contract-split-into-several-chunks=%v", total.multiReqs.Load() > 0)
		c.Classf("pivot/slow-peer-held-early-chunk=%v", total.held.Load() > 0)
		c.Classf("pivot/slow-peer-saw-later-chunks-progress=%v", total.heldReached.Load() > 0)
		c.Classf("pivot/interrupted-by-slow-peer=%v", total.heldCancel.Load() > 0)
		c.Classf("pivot/resumed-with-multi-chunk-contract=%v", multiChunk > 0)
		c.Classf("pivot/resumed-with-open-chunk-before-fetched-slots=%v", laterChunk > 0)
		c.Classf("pivot/rejected>0=%v", total.rejected.Load() > 0)
		if moves > 0 {
			seen := map[int]bool{}
			for bi := 1; bi <= chain.pivots[cur]; bi++ {
				for _, k := range chain.ops[bi] {
					if !seen[k] {
						seen[k] = true
						c.Class("pivot/op/" + c47pOpNames[k])
					}
				}
			}
		}
		c.Sample(nt, func() any {
			return map[string]any{"protocol": "snap/2 moving pivot", "shape": fmt.Sprintf("%+v", sh), "chain": chain.describe(), "cycles": history,
				"moves": moves, "changedFetched": fetchedChanged, "changedUnfetched": unfetchedChanged, "accessListRequests": cnt.balReqs.Load(),
				"accessListsTampered": cnt.balTampered.Load(), "served": total.served.Load()}
		})
	})
	if f := flag.Lookup("rapid.checks"); f != nil && !t.Failed() {
		if base, _ := strconv.Atoi(f.Value.String()); int(c47pCases.Load()) < int(float64(base)*c47pMult) {
			t.Fatalf("VERIF-INCONCLUSIVE: only %d of %d moving-pivot syncs were run before the deadline (%d stalled)", c47pCases.Load(), int(float64(base)*c47pMult), c47pStalls.Load())
		}
	}
}
