//go:build verif

package snap

// C48 — snap protocol responses are valid for any request.
//
// A random world state is put into a real BlockChain (genesis alloc + 0..2 empty
// ethash-faker blocks, hash and path scheme) and, independently, into a model built
// with kit/reftrie + kit/refrlp (x/crypto keccak). Requests are sent over the wire
// path (RLP payload -> HandleMessage -> recorded reply payload); every reply is
// decoded and judged against the model and by the client's own verification
// (trie.VerifyRangeProof the way syncer.OnAccounts / OnStorage call it).

import (
	"bytes"
	"fmt"
	"io"
	"math/big"
	"sort"
	"sync"
	"testing"
	"time"

	"github.com/ethereum/go-ethereum/common"
	"github.com/ethereum/go-ethereum/consensus/ethash"
	"github.com/ethereum/go-ethereum/core"
	"github.com/ethereum/go-ethereum/core/rawdb"
	"github.com/ethereum/go-ethereum/core/types"
	"github.com/ethereum/go-ethereum/p2p"
	"github.com/ethereum/go-ethereum/p2p/enode"
	"github.com/ethereum/go-ethereum/params"
	"github.com/ethereum/go-ethereum/rlp"
	"github.com/ethereum/go-ethereum/trie"
	"github.com/ethereum/go-ethereum/trie/trienode"
	"pgregory.net/rapid"
	"verif.local/kit/refrlp"
	"verif.local/kit/reftrie"
	vs "verif.local/kit/stat"
)

type c48T interface {
	Fatalf(string, ...any)
}

// ---------------------------------------------------------------------------
// model

type c48Slot struct {
	Hash common.Hash
	Body []byte // rlp(trimmed value), exactly the trie leaf value / flat-state value
}

type c48Spec struct {
	Addr    common.Address
	Nonce   uint64
	Balance *big.Int
	Code    []byte
	Storage map[common.Hash]common.Hash
}

type c48Acct struct {
	Spec     c48Spec
	Hash     common.Hash
	CodeHash common.Hash
	Slots    []c48Slot
	StRoot   common.Hash
	St       *reftrie.Result
	Slim     []byte
	Full     []byte
}

type c48Model struct {
	Accts  []*c48Acct // ascending by hash
	ByHash map[common.Hash]*c48Acct
	Root   common.Hash
	Trie   *reftrie.Result
}

var (
	c48EmptyRoot     = common.Hash(reftrie.EmptyRoot)
	c48EmptyCodeHash = common.Hash(reftrie.Keccak256(nil))
	c48Reward        = new(big.Int).Mul(big.NewInt(2), new(big.Int).Exp(big.NewInt(10), big.NewInt(18), nil))
)

func c48BuildAcct(sp c48Spec) *c48Acct {
	a := &c48Acct{Spec: sp}
	a.Hash = reftrie.Keccak256(sp.Addr[:])
	a.CodeHash = reftrie.Keccak256(sp.Code)
	kv := map[string][]byte{}
	for k, v := range sp.Storage {
		if v == (common.Hash{}) {
			continue
		}
		h := common.Hash(reftrie.Keccak256(k[:]))
		body := refrlp.EncodeString(bytes.TrimLeft(v[:], "\x00"))
		a.Slots = append(a.Slots, c48Slot{h, body})
		kv[string(h[:])] = body
	}
	sort.Slice(a.Slots, func(i, j int) bool { return bytes.Compare(a.Slots[i].Hash[:], a.Slots[j].Hash[:]) < 0 })
	a.St = reftrie.Build(kv)
	a.StRoot = a.St.Root
	bal := sp.Balance
	if bal == nil {
		bal = new(big.Int)
	}
	slimRoot, slimCode := a.StRoot[:], a.CodeHash[:]
	if a.StRoot == c48EmptyRoot {
		slimRoot = nil
	}
	if a.CodeHash == c48EmptyCodeHash {
		slimCode = nil
	}
	a.Slim = refrlp.Encode(refrlp.L(refrlp.Uint(sp.Nonce), refrlp.BigInt(bal), refrlp.S(slimRoot), refrlp.S(slimCode)))
	a.Full = refrlp.Encode(refrlp.L(refrlp.Uint(sp.Nonce), refrlp.BigInt(bal), refrlp.S(a.StRoot[:]), refrlp.S(a.CodeHash[:])))
	return a
}

// c48BuildModel builds the model of the state after `blocks` empty blocks mined by
// coinbase on top of the genesis allocation specs.
func c48BuildModel(specs []c48Spec, coinbase common.Address, blocks int, cache map[common.Address]*c48Acct) *c48Model {
	m := &c48Model{ByHash: map[common.Hash]*c48Acct{}}
	seenCB := false
	for _, sp := range specs {
		var a *c48Acct
		if sp.Addr == coinbase && blocks > 0 {
			seenCB = true
			sp2 := sp
			sp2.Balance = new(big.Int).Add(c48Bal(sp.Balance), new(big.Int).Mul(c48Reward, big.NewInt(int64(blocks))))
			a = c48BuildAcct(sp2)
		} else if c, ok := cache[sp.Addr]; ok {
			a = c
		} else {
			a = c48BuildAcct(sp)
			cache[sp.Addr] = a
		}
		m.Accts = append(m.Accts, a)
	}
	if blocks > 0 && !seenCB {
		m.Accts = append(m.Accts, c48BuildAcct(c48Spec{Addr: coinbase, Balance: new(big.Int).Mul(c48Reward, big.NewInt(int64(blocks)))}))
	}
	sort.Slice(m.Accts, func(i, j int) bool { return bytes.Compare(m.Accts[i].Hash[:], m.Accts[j].Hash[:]) < 0 })
	kv := map[string][]byte{}
	for _, a := range m.Accts {
		m.ByHash[a.Hash] = a
		kv[string(a.Hash[:])] = a.Full
	}
	m.Trie = reftrie.Build(kv)
	m.Root = m.Trie.Root
	return m
}

func c48Bal(b *big.Int) *big.Int {
	if b == nil {
		return new(big.Int)
	}
	return b
}

// ---------------------------------------------------------------------------
// environment: real chain + models per block

type c48Env struct {
	scheme   string
	chain    *core.BlockChain
	models   []*c48Model // per block number 0..n
	head     *c48Model
	empty    *c48Model
	codes    map[common.Hash][]byte
	codeList []common.Hash // deterministic order
	allHash  []common.Hash // account hashes of the head model, ascending
}

type c48Backend struct{ chain *core.BlockChain }

func (d *c48Backend) Chain() *core.BlockChain       { return d.chain }
func (d *c48Backend) RunPeer(*Peer, Handler) error  { return nil }
func (d *c48Backend) PeerInfo(enode.ID) interface{} { return nil }
func (d *c48Backend) Handle(*Peer, Packet) error    { return nil }

type c48RW struct {
	code    uint64
	data    []byte
	replies []c48Reply
}

type c48Reply struct {
	code uint64
	data []byte
}

func (d *c48RW) ReadMsg() (p2p.Msg, error) {
	return p2p.Msg{Code: d.code, Payload: bytes.NewReader(d.data), ReceivedAt: time.Now(), Size: uint32(len(d.data))}, nil
}

func (d *c48RW) WriteMsg(msg p2p.Msg) error {
	b, err := io.ReadAll(msg.Payload)
	if err != nil {
		return err
	}
	d.replies = append(d.replies, c48Reply{msg.Code, b})
	return nil
}

// c48NewEnv builds the chain and the models. Returns nil and a reason when the
// environment could not be prepared within the (generous) bound.
func c48NewEnv(specs []c48Spec, scheme string, nBlocks int, coinbase common.Address) (*c48Env, error) {
	ga := make(types.GenesisAlloc, len(specs))
	for _, sp := range specs {
		ga[sp.Addr] = types.Account{Balance: c48Bal(sp.Balance), Nonce: sp.Nonce, Code: sp.Code, Storage: sp.Storage}
	}
	gspec := &core.Genesis{Config: params.TestChainConfig, Alloc: ga}
	_, blocks, _ := core.GenerateChainWithGenesis(gspec, ethash.NewFaker(), nBlocks, func(i int, gen *core.BlockGen) {
		gen.SetCoinbase(coinbase)
	})
	options := &core.BlockChainConfig{
		TrieCleanLimit: 0,
		TrieDirtyLimit: 0,
		TrieTimeLimit:  5 * time.Minute,
		NoPrefetch:     true,
		StateScheme:    scheme,
		TxLookupLimit:  -1,
	}
	if scheme == rawdb.HashScheme {
		options.SnapshotLimit = 16
		options.SnapshotWait = true
	}
	bc, err := core.NewBlockChain(rawdb.NewMemoryDatabase(), gspec, ethash.NewFaker(), options)
	if err != nil {
		return nil, fmt.Errorf("VERIF-HARNESS-BUG: NewBlockChain: %v", err)
	}
	if _, err := bc.InsertChain(blocks); err != nil {
		bc.Stop()
		return nil, fmt.Errorf("VERIF-HARNESS-BUG: InsertChain: %v", err)
	}
	if scheme == rawdb.PathScheme {
		deadline := time.Now().Add(5 * time.Minute)
		for !bc.TrieDB().SnapshotCompleted() {
			if time.Now().After(deadline) {
				bc.Stop()
				return nil, fmt.Errorf("VERIF-INCONCLUSIVE: path-scheme flat state generation not complete after 5 minutes")
			}
			time.Sleep(2 * time.Millisecond)
		}
	}
	env := &c48Env{scheme: scheme, chain: bc, codes: map[common.Hash][]byte{}}
	cache := map[common.Address]*c48Acct{}
	for k := 0; k <= nBlocks; k++ {
		m := c48BuildModel(specs, coinbase, k, cache)
		var want common.Hash
		if k == 0 {
			want = bc.Genesis().Root()
		} else {
			want = blocks[k-1].Root()
		}
		if m.Root != want {
			bc.Stop()
			return nil, fmt.Errorf("VERIF-HARNESS-BUG: model root %x != chain root %x at block %d (scheme %s, %d accounts)", m.Root, want, k, scheme, len(specs))
		}
		env.models = append(env.models, m)
	}
	env.head = env.models[nBlocks]
	env.empty = c48BuildModel(nil, common.Address{}, 0, map[common.Address]*c48Acct{})
	for _, a := range env.head.Accts {
		env.allHash = append(env.allHash, a.Hash)
		if len(a.Spec.Code) > 0 {
			if _, ok := env.codes[a.CodeHash]; !ok {
				env.codes[a.CodeHash] = a.Spec.Code
				env.codeList = append(env.codeList, a.CodeHash)
			}
		}
	}
	return env, nil
}

func (e *c48Env) close() { e.chain.Stop() }

const (
	c48Must = iota // head state: must be served
	c48May         // older / empty root: either unavailable (empty reply) or valid
	c48None        // unknown root: reply must be empty
)

func (e *c48Env) lookupRoot(root common.Hash) (*c48Model, int) {
	if root == e.head.Root {
		return e.head, c48Must
	}
	for _, m := range e.models {
		if m.Root == root {
			return m, c48May
		}
	}
	if root == c48EmptyRoot {
		return e.empty, c48May
	}
	return nil, c48None
}

// ---------------------------------------------------------------------------
// wire round trip

type c48Outcome struct {
	err     error
	reply   []byte
	code    uint64
	elapsed time.Duration
}

func c48Send(t c48T, env *c48Env, version uint, code uint64, payload []byte) (out c48Outcome) {
	rw := &c48RW{code: code, data: payload}
	peer := NewFakePeer(version, "verif-c48-peer", rw)
	defer peer.Close()
	func() {
		defer func() {
			if r := recover(); r != nil {
				t.Fatalf("server panicked on message code=%#x payload=%x: %v", code, payload, r)
			}
		}()
		start := time.Now()
		out.err = HandleMessage(&c48Backend{env.chain}, peer)
		out.elapsed = time.Since(start)
	}()
	switch {
	case code%2 == 1 || code > GetAccessListsMsg:
		// a response message (or unknown code): nothing is written back
		if len(rw.replies) != 0 {
			t.Fatalf("message code %#x caused %d replies", code, len(rw.replies))
		}
		return out
	case out.err == nil && len(rw.replies) != 1:
		t.Fatalf("handler returned nil but wrote %d replies (code=%#x payload=%x)", len(rw.replies), code, payload)
	case out.err != nil && len(rw.replies) != 0:
		t.Fatalf("handler returned error %v but wrote %d replies (code=%#x payload=%x)", out.err, len(rw.replies), code, payload)
	}
	if out.err == nil {
		out.reply, out.code = rw.replies[0].data, rw.replies[0].code
	}
	return out
}

// c48WireDecode decodes a request payload the way p2p.Msg.Decode does (one value
// from a size-limited stream; bytes after the first value are not looked at).
func c48WireDecode(payload []byte, val interface{}) error {
	return rlp.NewStream(bytes.NewReader(payload), uint64(len(payload))).Decode(val)
}

func c48Cap(b uint64) uint64 {
	if b > softResponseLimit {
		return softResponseLimit
	}
	return b
}

// c48ToHash is the interpretation of a variable-length origin/limit byte string as a
// 32-byte hash (big-endian left padding; longer strings keep their last 32 bytes).
func c48ToHash(b []byte) common.Hash {
	var h common.Hash
	if len(b) > 32 {
		b = b[len(b)-32:]
	}
	copy(h[32-len(b):], b)
	return h
}

// result of judging one reply, for statistics
type c48Verdict struct {
	kind      string
	class     string
	nontriv   bool
	desc      string
	truncated bool
	diffed    int  // trie node lookups compared with their one-by-one replies
	missHit   bool // trie nodes: a path holding nothing precedes, in the same trie, a served stored node
}

// c48Judge decodes the request (if it decodes the handler must have answered) and
// judges the reply. malformed => only "no panic, reply count consistent" was checked.
func c48Judge(t c48T, env *c48Env, code uint64, payload []byte, out c48Outcome) c48Verdict {
	switch code {
	case GetAccountRangeMsg:
		var req GetAccountRangePacket
		if err := c48WireDecode(payload, &req); err != nil {
			if out.err == nil {
				t.Fatalf("undecodable GetAccountRange %x was answered", payload)
			}
			return c48Verdict{kind: "acc", class: "acc/malformed"}
		}
		if out.err != nil {
			t.Fatalf("well-formed GetAccountRange %+v not answered: %v", req, out.err)
		}
		if out.code != AccountRangeMsg {
			t.Fatalf("GetAccountRange answered with code %#x", out.code)
		}
		var res AccountRangePacket
		if err := rlp.DecodeBytes(out.reply, &res); err != nil {
			t.Fatalf("AccountRange reply does not decode: %v (%x)", err, out.reply)
		}
		return c48JudgeAccounts(t, env, &req, &res)
	case GetStorageRangesMsg:
		var req GetStorageRangesPacket
		if err := c48WireDecode(payload, &req); err != nil {
			if out.err == nil {
				t.Fatalf("undecodable GetStorageRanges %x was answered", payload)
			}
			return c48Verdict{kind: "sto", class: "sto/malformed"}
		}
		if out.err != nil {
			t.Fatalf("well-formed GetStorageRanges %+v not answered: %v", req, out.err)
		}
		if out.code != StorageRangesMsg {
			t.Fatalf("GetStorageRanges answered with code %#x", out.code)
		}
		var res StorageRangesPacket
		if err := rlp.DecodeBytes(out.reply, &res); err != nil {
			t.Fatalf("StorageRanges reply does not decode: %v (%x)", err, out.reply)
		}
		return c48JudgeStorage(t, env, &req, &res)
	case GetByteCodesMsg:
		var req GetByteCodesPacket
		if err := c48WireDecode(payload, &req); err != nil {
			if out.err == nil {
				t.Fatalf("undecodable GetByteCodes %x was answered", payload)
			}
			return c48Verdict{kind: "code", class: "code/malformed"}
		}
		if out.err != nil {
			t.Fatalf("well-formed GetByteCodes not answered: %v", out.err)
		}
		if out.code != ByteCodesMsg {
			t.Fatalf("GetByteCodes answered with code %#x", out.code)
		}
		var res ByteCodesPacket
		if err := rlp.DecodeBytes(out.reply, &res); err != nil {
			t.Fatalf("ByteCodes reply does not decode: %v (%x)", err, out.reply)
		}
		return c48JudgeCodes(t, env, &req, &res)
	case GetTrieNodesMsg:
		var req GetTrieNodesPacket
		if err := c48WireDecode(payload, &req); err != nil {
			if out.err == nil {
				t.Fatalf("undecodable GetTrieNodes %x was answered", payload)
			}
			return c48Verdict{kind: "node", class: "node/malformed"}
		}
		if out.err != nil {
			// the handler is allowed to refuse malformed path sets with an error
			if !c48PathsMalformed(&req) {
				t.Fatalf("well-formed GetTrieNodes not answered: %v (payload %x)", out.err, payload)
			}
			return c48Verdict{kind: "node", class: "node/badpaths-error"}
		}
		if out.code != TrieNodesMsg {
			t.Fatalf("GetTrieNodes answered with code %#x", out.code)
		}
		var res TrieNodesPacket
		if err := rlp.DecodeBytes(out.reply, &res); err != nil {
			t.Fatalf("TrieNodes reply does not decode: %v (%x)", err, out.reply)
		}
		return c48JudgeNodes(t, env, &req, &res, out.elapsed)
	}
	return c48Verdict{kind: "other", class: "other"}
}

// --------------------------------------------------------------------------- accounts

func c48JudgeAccounts(t c48T, env *c48Env, req *GetAccountRangePacket, res *AccountRangePacket) c48Verdict {
	v := c48Verdict{kind: "acc"}
	if res.ID != req.ID {
		t.Fatalf("AccountRange reply id %d != request id %d", res.ID, req.ID)
	}
	model, avail := env.lookupRoot(req.Root)
	empty := len(res.Accounts) == 0 && len(res.Proof) == 0
	if avail == c48None {
		if !empty {
			t.Fatalf("AccountRange for unknown root %x returned %d accounts, %d proof nodes", req.Root, len(res.Accounts), len(res.Proof))
		}
		v.class = "acc/unknown-root"
		return v
	}
	if empty {
		if avail == c48Must && len(model.Accts) > 0 {
			t.Fatalf("AccountRange for the head root %x (origin %x limit %x bytes %d) returned an empty reply", req.Root, req.Origin, req.Limit, req.Bytes)
		}
		v.class = "acc/empty-reply"
		return v
	}
	// model accounts at or after the origin
	first := sort.Search(len(model.Accts), func(i int) bool { return bytes.Compare(model.Accts[i].Hash[:], req.Origin[:]) >= 0 })
	rest := model.Accts[first:]
	if len(res.Accounts) > len(rest) {
		t.Fatalf("AccountRange returned %d accounts, only %d exist at/after origin %x", len(res.Accounts), len(rest), req.Origin)
	}
	var size uint64
	budget := c48Cap(req.Bytes)
	for i, a := range res.Accounts {
		if a.Hash != rest[i].Hash {
			t.Fatalf("AccountRange item %d has hash %x, the model's %d-th account at/after origin %x is %x (not a contiguous prefix)", i, a.Hash, i, req.Origin, rest[i].Hash)
		}
		if !bytes.Equal(a.Body, rest[i].Slim) {
			t.Fatalf("AccountRange item %d (%x) body %x, model slim account %x", i, a.Hash, a.Body, rest[i].Slim)
		}
		if i < len(res.Accounts)-1 {
			if bytes.Compare(a.Hash[:], req.Limit[:]) >= 0 {
				t.Fatalf("AccountRange item %d (%x) is at/after limit %x but is not the last item", i, a.Hash, req.Limit)
			}
			size += uint64(common.HashLength + len(a.Body))
			if size > budget {
				t.Fatalf("AccountRange: first %d of %d items take %d bytes > budget %d", i+1, len(res.Accounts), size, budget)
			}
		}
	}
	if len(res.Proof) > 128 {
		t.Fatalf("AccountRange proof has %d nodes (client rejects > 128)", len(res.Proof))
	}
	// the client's verification, as in syncer.OnAccounts
	hashes, fulls, err := res.Unpack()
	if err != nil {
		t.Fatalf("AccountRange reply does not unpack: %v", err)
	}
	keys := make([][]byte, len(hashes))
	for i, h := range hashes {
		keys[i] = common.CopyBytes(h[:])
		if !bytes.Equal(fulls[i], rest[i].Full) {
			t.Fatalf("AccountRange item %d full account %x, model %x", i, fulls[i], rest[i].Full)
		}
	}
	nodes := make(trienode.ProofList, len(res.Proof))
	for i, n := range res.Proof {
		nodes[i] = n
	}
	cont, err := trie.VerifyRangeProof(req.Root, req.Origin[:], keys, fulls, nodes.Set())
	if err != nil {
		t.Fatalf("AccountRange reply fails the client's range proof verification: %v (root %x origin %x limit %x bytes %d, %d accounts, %d proof nodes)",
			err, req.Root, req.Origin, req.Limit, req.Bytes, len(res.Accounts), len(res.Proof))
	}
	more := len(rest) > len(res.Accounts)
	if cont != more {
		t.Fatalf("AccountRange verification says more=%v, model says %v", cont, more)
	}
	// every proof node is a node of the model trie
	for i, n := range res.Proof {
		if _, ok := model.Trie.ByHash[reftrie.Keccak256(n)]; !ok {
			t.Fatalf("AccountRange proof node %d (%x) is not a node of the state trie", i, n)
		}
	}
	stoppedByLimit := len(res.Accounts) > 0 && bytes.Compare(res.Accounts[len(res.Accounts)-1].Hash[:], req.Limit[:]) >= 0
	v.truncated = more && !stoppedByLimit
	v.nontriv = v.truncated && len(res.Proof) > 0
	switch {
	case v.truncated:
		v.class = "acc/budget-truncated"
	case more:
		v.class = "acc/limit-closed"
	default:
		v.class = "acc/to-end"
	}
	if avail == c48May {
		v.class += "/oldroot"
	}
	v.desc = fmt.Sprintf("acc|%x|%x|%x|%d|%d", req.Root[:4], req.Origin, req.Limit, req.Bytes, len(res.Accounts))
	return v
}

// --------------------------------------------------------------------------- storage

func c48JudgeStorage(t c48T, env *c48Env, req *GetStorageRangesPacket, res *StorageRangesPacket) c48Verdict {
	v := c48Verdict{kind: "sto"}
	if res.ID != req.ID {
		t.Fatalf("StorageRanges reply id %d != request id %d", res.ID, req.ID)
	}
	model, avail := env.lookupRoot(req.Root)
	empty := len(res.Slots) == 0 && len(res.Proof) == 0
	if avail == c48None {
		if !empty {
			t.Fatalf("StorageRanges for unknown root %x returned %d slot sets, %d proof nodes", req.Root, len(res.Slots), len(res.Proof))
		}
		v.class = "sto/unknown-root"
		return v
	}
	if empty {
		// "nothing to say": treated by the client as a refusal, never as data
		v.class = "sto/empty-reply"
		return v
	}
	describe := func() string {
		return fmt.Sprintf("root %x accounts %x origin %x limit %x bytes %d -> %d sets, %d proof nodes", req.Root, req.Accounts, req.Origin, req.Limit, req.Bytes, len(res.Slots), len(res.Proof))
	}
	if len(res.Slots) > len(req.Accounts) {
		t.Fatalf("StorageRanges returned %d slot sets for %d requested accounts (%s)", len(res.Slots), len(req.Accounts), describe())
	}
	if len(res.Proof) > 128 {
		t.Fatalf("StorageRanges proof has %d nodes (client rejects > 128)", len(res.Proof))
	}
	hashes, slots := res.Unpack()
	if len(hashes) == 0 && len(res.Proof) > 0 {
		// proof only: the requested range of the first account is empty (syncer.OnStorage)
		if len(req.Accounts) == 0 {
			t.Fatalf("StorageRanges returned a proof for a request without accounts")
		}
		hashes = append(hashes, []common.Hash{})
		slots = append(slots, [][]byte{})
	}
	var (
		origin common.Hash
		limit  = common.MaxHash
		size   uint64
		total  int
		cont   bool
	)
	if len(req.Origin) > 0 {
		origin = c48ToHash(req.Origin)
	}
	if len(req.Limit) > 0 {
		limit = c48ToHash(req.Limit)
	}
	for _, set := range hashes {
		total += len(set)
	}
	budget := c48Cap(req.Bytes)
	hard := budget + budget/10 + 1
	seen := 0
	lastPartial := false
	for i := range hashes {
		// monotonic (handleStorageRanges)
		for j := 1; j < len(hashes[i]); j++ {
			if bytes.Compare(hashes[i][j-1][:], hashes[i][j][:]) >= 0 {
				t.Fatalf("StorageRanges set %d not strictly ascending at %d (%s)", i, j, describe())
			}
		}
		acct := model.ByHash[req.Accounts[i]]
		var (
			all    []c48Slot
			stRoot = c48EmptyRoot
			from   common.Hash
		)
		if acct != nil {
			all, stRoot = acct.Slots, acct.StRoot
		}
		if i == 0 {
			from = origin
		}
		firstIdx := sort.Search(len(all), func(k int) bool { return bytes.Compare(all[k].Hash[:], from[:]) >= 0 })
		rest := all[firstIdx:]
		if len(hashes[i]) > len(rest) {
			t.Fatalf("StorageRanges set %d has %d slots, account %x has only %d at/after %x (%s)", i, len(hashes[i]), req.Accounts[i], len(rest), from, describe())
		}
		keys := make([][]byte, len(hashes[i]))
		for j, h := range hashes[i] {
			if h != rest[j].Hash || !bytes.Equal(slots[i][j], rest[j].Body) {
				t.Fatalf("StorageRanges set %d item %d = (%x,%x), model slot #%d of account %x at/after %x is (%x,%x): not a contiguous prefix (%s)",
					i, j, h, slots[i][j], j, req.Accounts[i], from, rest[j].Hash, rest[j].Body, describe())
			}
			keys[j] = common.CopyBytes(h[:])
			seen++
			if seen < total {
				size += uint64(common.HashLength + len(slots[i][j]))
				if size > hard {
					t.Fatalf("StorageRanges: first %d of %d slots take %d bytes > budget %d (+10%% slack) (%s)", seen, total, size, budget, describe())
				}
				if i == 0 && j < len(hashes[i])-1 && bytes.Compare(h[:], limit[:]) >= 0 {
					t.Fatalf("StorageRanges set 0 item %d (%x) is at/after limit %x but not the last item (%s)", j, h, limit, describe())
				}
			}
		}
		last := i == len(hashes)-1
		if !last || len(res.Proof) == 0 {
			// no proof for this set: it has to be the complete storage of the account
			if _, err := trie.VerifyRangeProof(stRoot, nil, keys, slots[i], nil); err != nil {
				t.Fatalf("StorageRanges set %d (account %x, %d slots, no proof) is not the account's complete storage: %v (%s)", i, req.Accounts[i], len(keys), err, describe())
			}
			if len(keys) != len(all) {
				t.Fatalf("StorageRanges set %d (account %x) has %d slots without proof, model storage has %d (%s)", i, req.Accounts[i], len(keys), len(all), describe())
			}
		} else {
			nodes := make(trienode.ProofList, len(res.Proof))
			for k, n := range res.Proof {
				nodes[k] = n
			}
			var err error
			cont, err = trie.VerifyRangeProof(stRoot, from[:], keys, slots[i], nodes.Set())
			if err != nil {
				t.Fatalf("StorageRanges last set %d (account %x) fails the client's range proof verification: %v (%s)", i, req.Accounts[i], err, describe())
			}
			if more := len(rest) > len(keys); cont != more {
				t.Fatalf("StorageRanges verification says more=%v, model says %v (%s)", cont, more, describe())
			}
			if acct != nil {
				for k, n := range res.Proof {
					if _, ok := acct.St.ByHash[reftrie.Keccak256(n)]; !ok {
						t.Fatalf("StorageRanges proof node %d (%x) is not a node of the storage trie of %x", k, n, req.Accounts[i])
					}
				}
			}
			lastPartial = len(keys) < len(all)
		}
	}
	v.nontriv = lastPartial && len(res.Proof) > 0
	v.truncated = cont
	switch {
	case lastPartial && cont && origin != (common.Hash{}):
		v.class = "sto/partial-mid"
	case lastPartial && cont:
		v.class = "sto/partial-head"
	case lastPartial:
		v.class = "sto/partial-tail"
	case len(res.Proof) > 0:
		v.class = "sto/complete-with-proof"
	default:
		v.class = "sto/complete"
	}
	if len(hashes) > 1 {
		v.class += "/multi"
	}
	v.desc = fmt.Sprintf("sto|%x|%x|%x|%x|%d|%d", req.Root[:4], req.Accounts, req.Origin, req.Limit, req.Bytes, total)
	return v
}

// --------------------------------------------------------------------------- bytecodes

func c48JudgeCodes(t c48T, env *c48Env, req *GetByteCodesPacket, res *ByteCodesPacket) c48Verdict {
	v := c48Verdict{kind: "code"}
	if res.ID != req.ID {
		t.Fatalf("ByteCodes reply id %d != request id %d", res.ID, req.ID)
	}
	want := req.Hashes
	if len(want) > maxCodeLookups {
		want = want[:maxCodeLookups]
	}
	budget := c48Cap(req.Bytes)
	var size uint64
	j := 0
	for i, code := range res.Codes {
		h := common.Hash(reftrie.Keccak256(code))
		for j < len(want) && want[j] != h {
			j++
		}
		if j == len(want) {
			t.Fatalf("ByteCodes item %d (hash %x, %d bytes) is not among the remaining requested hashes (not an in-order subsequence)", i, h, len(code))
		}
		if h != c48EmptyCodeHash {
			if m, ok := env.codes[h]; !ok || !bytes.Equal(m, code) {
				t.Fatalf("ByteCodes item %d (hash %x) is not a code of the state", i, h)
			}
		}
		j++
		if i < len(res.Codes)-1 {
			size += uint64(len(code))
			if size > budget {
				t.Fatalf("ByteCodes: first %d of %d items take %d bytes > budget %d", i+1, len(res.Codes), size, budget)
			}
		}
	}
	var all uint64
	for _, c := range res.Codes {
		all += uint64(len(c))
	}
	servable := 0
	for _, h := range want {
		if _, ok := env.codes[h]; ok || h == c48EmptyCodeHash {
			servable++
		}
	}
	if all <= budget && len(res.Codes) != servable {
		t.Fatalf("ByteCodes returned %d codes (%d bytes, budget %d) but %d of the requested hashes are servable", len(res.Codes), all, budget, servable)
	}
	v.truncated = len(res.Codes) < servable
	v.nontriv = v.truncated && len(res.Codes) > 0
	switch {
	case v.truncated:
		v.class = "code/budget-truncated"
	case len(res.Codes) == 0:
		v.class = "code/none"
	case len(res.Codes) < len(req.Hashes):
		v.class = "code/some-missing"
	default:
		v.class = "code/all"
	}
	v.desc = fmt.Sprintf("code|%x|%d|%d", c48HashList(req.Hashes), req.Bytes, len(res.Codes))
	return v
}

func c48HashList(hs []common.Hash) []byte {
	var out []byte
	for i, h := range hs {
		if i >= 8 {
			break
		}
		out = append(out, h[:3]...)
	}
	return out
}

// --------------------------------------------------------------------------- trie nodes

// c48CompactToHex decodes a hex-prefix path: flag nibble bit 1 = terminator kept, bit 0
// = odd. wild reports a flag nibble outside the encoding (> 3) or a non-zero padding
// nibble, where no interpretation is specified.
func c48CompactToHex(c []byte) (hex []byte, wild bool) {
	if len(c) == 0 {
		return nil, false
	}
	var nib []byte
	for _, b := range c {
		nib = append(nib, b>>4, b&0x0f)
	}
	flag := nib[0]
	if flag > 3 || (flag&1 == 0 && nib[1] != 0) {
		wild = true
	}
	if flag&1 == 1 {
		hex = append(hex, nib[1:]...)
	} else {
		hex = append(hex, nib[2:]...)
	}
	if flag&2 != 0 {
		hex = append(hex, 16)
	}
	return hex, wild
}

func c48HexToCompact(nib []byte, term bool) []byte {
	f := byte(0)
	if term {
		f = 2
	}
	var out []byte
	if len(nib)%2 == 1 {
		out = append(out, 16*(f+1)+nib[0])
		nib = nib[1:]
	} else {
		out = append(out, 16*f)
	}
	for i := 0; i < len(nib); i += 2 {
		out = append(out, 16*nib[i]+nib[i+1])
	}
	return out
}

// c48PathsMalformed reports whether the raw path list contains something that is not
// a non-empty list of byte strings.
func c48PathsMalformed(req *GetTrieNodesPacket) bool {
	it := req.Paths.ContentIterator()
	for it.Next() {
		k, content, _, err := rlp.Split(it.Value())
		if err != nil || k != rlp.List {
			return true
		}
		n := 0
		for len(content) > 0 {
			k2, _, rest, err := rlp.Split(content)
			if err != nil || k2 == rlp.List {
				return true
			}
			content = rest
			n++
		}
		if n == 0 {
			return true
		}
	}
	return it.Err() != nil
}

type c48Lookup struct {
	want []byte // expected blob, nil = nothing stored at that path
	wild bool   // malformed path: anything that is a node of the trie, or nothing
	tr   *reftrie.Result
	// prone: the lookup may end in a server-side lookup error instead of an answer
	prone bool
	// the raw request items of this lookup, for asking it again on its own
	storage bool
	set     int // index of the path set within the request
	acct    []byte
	path    []byte
}

// c48MaxSingles bounds the number of one-path requests issued per judged batch.
const c48MaxSingles = 96

// c48AskSingle sends the one lookup as a request of its own (same root, full byte
// budget), judges that reply against the model and returns its items: no item (the
// server skipped the path), or exactly one blob (possibly empty).
func c48AskSingle(t c48T, env *c48Env, root common.Hash, l c48Lookup) [][]byte {
	set := refrlp.L(refrlp.S(l.path))
	if l.storage {
		set = refrlp.L(refrlp.S(l.acct), refrlp.S(l.path))
	}
	payload := refrlp.Encode(refrlp.L(refrlp.Uint(1), refrlp.S(root[:]), refrlp.L(set), refrlp.Uint(softResponseLimit)))
	out := c48Send(t, env, SNAP1, GetTrieNodesMsg, payload)
	var req GetTrieNodesPacket
	if err := c48WireDecode(payload, &req); err != nil {
		t.Fatalf("VERIF-HARNESS-BUG: single-path GetTrieNodes does not decode: %v (%x)", err, payload)
	}
	if out.err != nil {
		t.Fatalf("well-formed single-path GetTrieNodes not answered: %v (payload %x)", out.err, payload)
	}
	var res TrieNodesPacket
	if out.code != TrieNodesMsg || rlp.DecodeBytes(out.reply, &res) != nil {
		t.Fatalf("single-path GetTrieNodes answered with code %#x / undecodable reply %x", out.code, out.reply)
	}
	if len(res.Nodes) > 1 {
		t.Fatalf("GetTrieNodes with one path returned %d items (payload %x)", len(res.Nodes), payload)
	}
	c48JudgeNodesOpt(t, env, &req, &res, out.elapsed, false)
	return res.Nodes
}

func c48JudgeNodes(t c48T, env *c48Env, req *GetTrieNodesPacket, res *TrieNodesPacket, elapsed time.Duration) c48Verdict {
	return c48JudgeNodesOpt(t, env, req, res, elapsed, true)
}

// c48JudgeNodesOpt judges a TrieNodes reply against the model; with differential set
// it additionally requires the reply to be what the same paths yield when each is
// requested on its own (a prefix of it when a limit may have cut the batch).
func c48JudgeNodesOpt(t c48T, env *c48Env, req *GetTrieNodesPacket, res *TrieNodesPacket, elapsed time.Duration, differential bool) c48Verdict {
	v := c48Verdict{kind: "node"}
	if res.ID != req.ID {
		t.Fatalf("TrieNodes reply id %d != request id %d", res.ID, req.ID)
	}
	model, avail := env.lookupRoot(req.Root)
	if avail == c48None {
		if len(res.Nodes) != 0 {
			t.Fatalf("TrieNodes for unknown root %x returned %d nodes", req.Root, len(res.Nodes))
		}
		v.class = "node/unknown-root"
		return v
	}
	malformed := c48PathsMalformed(req)
	// flatten the request into lookups, up to the first malformed element
	var lookups []c48Lookup
	uncertain := false
	it := req.Paths.ContentIterator()
	setIdx := -1
outer:
	for it.Next() {
		setIdx++
		k, content, _, err := rlp.Split(it.Value())
		if err != nil || k != rlp.List {
			break
		}
		type item struct {
			list bool
			b    []byte
		}
		var items []item
		for len(content) > 0 {
			k2, c, rest, err := rlp.Split(content)
			if err != nil {
				uncertain = true // invalid RLP inside a path set: how far the server gets is unspecified
				break outer
			}
			items = append(items, item{k2 == rlp.List, c})
			content = rest
		}
		switch len(items) {
		case 0:
			break outer
		case 1:
			if items[0].list {
				break outer
			}
			hex, wild := c48CompactToHex(items[0].b)
			l := c48Lookup{want: model.Trie.Nodes[string(hex)], wild: wild, tr: model.Trie, path: items[0].b}
			l.prone = bytes.IndexByte(hex, 16) >= 0 || (l.want == nil && l.tr.Embedded > 0)
			lookups = append(lookups, l)
		default:
			if items[0].list {
				break outer
			}
			acct := model.ByHash[common.BytesToHash(items[0].b)]
			if acct == nil {
				continue // the server skips the whole set without looking at its paths
			}
			for _, p := range items[1:] {
				if p.list {
					break outer
				}
				hex, wild := c48CompactToHex(p.b)
				l := c48Lookup{want: acct.St.Nodes[string(hex)], wild: wild, tr: acct.St, storage: true, set: setIdx, acct: items[0].b, path: p.b}
				l.prone = bytes.IndexByte(hex, 16) >= 0 || (l.want == nil && l.tr.Embedded > 0)
				lookups = append(lookups, l)
			}
		}
	}
	budget := c48Cap(req.Bytes)
	var size uint64
	j := 0
	filled := 0
	for i, blob := range res.Nodes {
		matched := false
		for j < len(lookups) && !matched {
			l := lookups[j]
			switch {
			case l.wild:
				if len(blob) == 0 {
					matched = true
				} else if _, ok := l.tr.ByHash[reftrie.Keccak256(blob)]; ok {
					matched = true
				}
			case len(blob) == 0:
				matched = l.want == nil
			default:
				matched = l.want != nil && bytes.Equal(l.want, blob)
			}
			j++
		}
		if !matched && uncertain {
			break
		}
		if !matched {
			t.Fatalf("TrieNodes item %d (%d bytes, hash %x) does not correspond, in order, to any requested path (root %x, %d lookups, paths %x)",
				i, len(blob), reftrie.Keccak256(blob), req.Root, len(lookups), req.Paths.Content())
		}
		if len(blob) > 0 {
			filled++
		}
		if i < len(res.Nodes)-1 {
			size += uint64(len(blob))
			if size > budget {
				t.Fatalf("TrieNodes: first %d of %d items take %d bytes > budget %d", i+1, len(res.Nodes), size, budget)
			}
		}
	}
	var all uint64
	for _, b := range res.Nodes {
		all += uint64(len(b))
	}
	// A lookup the server may be unable to serve (it then appends nothing, and gives up
	// the rest of a storage path set): a path carrying the terminator (it addresses a
	// value, not a node), an embedded (not separately stored) node, a malformed path.
	expect, expectMin := 0, 0
	anyProne := false
	shadow := map[int]bool{}
	for _, l := range lookups {
		switch {
		case l.wild:
		case l.want != nil:
			expect++
			if !(l.storage && shadow[l.set]) {
				expectMin++
			}
		}
		if l.wild || l.prone {
			anyProne = true
			if l.storage {
				shadow[l.set] = true
			}
		}
	}
	mayBeCut := all > budget || len(lookups) > 64 || elapsed >= 2*time.Second
	// completeness: unless a limit (bytes, lookups, wall clock) may have cut the reply
	// short, every stored node that was asked for is delivered
	if !malformed && !anyProne && avail == c48Must && !mayBeCut && filled != expect {
		t.Fatalf("TrieNodes returned %d nodes, %d of the requested paths hold a stored node (root %x, bytes %d, paths %x)", filled, expect, req.Root, req.Bytes, req.Paths.Content())
	}
	if !malformed && avail == c48Must && !mayBeCut && filled < expectMin {
		t.Fatalf("TrieNodes returned %d nodes, at least %d of the requested paths hold a stored node that must be served (root %x, bytes %d, paths %x)", filled, expectMin, req.Root, req.Bytes, req.Paths.Content())
	}
	// differential oracle: the batch is served from one cached in-memory trie per
	// request; that must not change any answer: reply == concatenation of the replies
	// to the same paths requested one by one (a prefix of it where a limit cut it)
	if differential && len(lookups) > 1 && len(lookups) <= c48MaxSingles {
		replies := make([][][]byte, len(lookups))
		skipped := false
		for li, l := range lookups {
			replies[li] = c48AskSingle(t, env, req.Root, l)
			skipped = skipped || len(replies[li]) == 0
		}
		// A path the server cannot serve (lookup error) yields no item at all. What that
		// means for the remaining paths of the same storage path set is not specified:
		// both "served" and "dropped with it" are accepted.
		compare := func(dropRest bool) string {
			var single [][]byte
			var from []int
			dropSet := -1
			for li, l := range lookups {
				if dropRest && l.storage && l.set == dropSet {
					continue
				}
				if len(replies[li]) == 0 && l.storage {
					dropSet = l.set
				}
				for _, b := range replies[li] {
					single = append(single, b)
					from = append(from, li)
				}
			}
			for i, blob := range res.Nodes {
				if i >= len(single) {
					if uncertain {
						break
					}
					return fmt.Sprintf("TrieNodes batch returned %d items, the same %d paths requested one by one yield %d (root %x, paths %x)",
						len(res.Nodes), len(lookups), len(single), req.Root, req.Paths.Content())
				}
				if !bytes.Equal(blob, single[i]) {
					l := lookups[from[i]]
					return fmt.Sprintf("TrieNodes batch item %d (%x) differs from the reply to the same path requested alone (%x): lookup %d, storage=%v account %x path %x (root %x, paths %x)",
						i, blob, single[i], from[i], l.storage, l.acct, l.path, req.Root, req.Paths.Content())
				}
			}
			if !malformed && !uncertain && !mayBeCut && len(res.Nodes) != len(single) {
				return fmt.Sprintf("TrieNodes batch returned %d items although no limit was hit, the same %d paths requested one by one yield %d (root %x, bytes %d, paths %x)",
					len(res.Nodes), len(lookups), len(single), req.Root, req.Bytes, req.Paths.Content())
			}
			return ""
		}
		if msg := compare(false); msg != "" && (!skipped || compare(true) != "") {
			t.Fatalf("%s", msg)
		}
		v.diffed = len(lookups)
	}
	missed := map[*reftrie.Result]bool{}
	for i, l := range lookups {
		if i >= len(res.Nodes) {
			break
		}
		if l.want == nil {
			missed[l.tr] = true
		} else if missed[l.tr] {
			v.missHit = true
		}
	}
	v.truncated = filled < expect
	v.nontriv = filled > 0 && (v.truncated || len(lookups) > filled)
	switch {
	case malformed:
		v.class = "node/badpaths-served"
	case v.truncated && !mayBeCut && avail == c48Must:
		v.class = "node/unservable-path-drops-rest"
	case v.truncated:
		v.class = "node/truncated"
	case filled == 0:
		v.class = "node/none"
	case len(lookups) > filled:
		v.class = "node/some-missing"
	default:
		v.class = "node/all"
	}
	v.desc = fmt.Sprintf("node|%x|%x|%d|%d", req.Root[:4], reftrie.Keccak256(req.Paths.Content()), req.Bytes, filled)
	return v
}

// ---------------------------------------------------------------------------
// generators

var c48CodePool = func() [][]byte {
	mk := func(n int, seed byte) []byte {
		b := make([]byte, n)
		for i := range b {
			b[i] = seed + byte(i*7)
		}
		return b
	}
	return [][]byte{mk(1, 0x60), mk(33, 0x11), mk(300, 0x22), mk(700, 0x33), mk(24000, 0x44), mk(5, 0x55)}
}()

func c48GenStorage(rt *rapid.T, label string) map[common.Hash]common.Hash {
	var n int
	switch rapid.IntRange(0, 5).Draw(rt, label+"/cls") {
	case 0:
		n = 1
	case 1, 2:
		n = rapid.IntRange(2, 8).Draw(rt, label+"/few")
	case 3, 4:
		n = rapid.IntRange(20, 120).Draw(rt, label+"/mid")
	default:
		max := 400
		if vs.Thorough() {
			max = 1500
		}
		n = rapid.IntRange(150, max).Draw(rt, label+"/big")
	}
	seed := rapid.Uint64().Draw(rt, label+"/seed")
	small := rapid.Bool().Draw(rt, label+"/smallvals")
	st := make(map[common.Hash]common.Hash, n)
	x := seed | 1
	for i := 0; i < n; i++ {
		var k, v common.Hash
		big.NewInt(int64(i)).FillBytes(k[:])
		x ^= x << 13
		x ^= x >> 7
		x ^= x << 17
		switch {
		case small:
			v[31] = byte(x%255) + 1
		case x%5 == 0:
			v[31] = byte(x>>8) | 1
			v[30] = byte(x >> 16)
		default:
			for b := 0; b < 32; b++ {
				v[b] = byte(x >> (uint(b) % 8 * 8))
			}
			v[0] |= 1
		}
		if x%41 == 0 {
			v = common.Hash{} // zero value: never stored
		}
		st[k] = v
	}
	return st
}

func c48GenSpecs(rt *rapid.T) []c48Spec {
	var n int
	switch rapid.IntRange(0, 9).Draw(rt, "nAcctCls") {
	case 0:
		n = rapid.IntRange(0, 2).Draw(rt, "nAcctTiny")
	case 1, 2, 3:
		n = rapid.IntRange(3, 12).Draw(rt, "nAcctSmall")
	default:
		max := 60
		if vs.Thorough() {
			max = 200
		}
		n = rapid.IntRange(13, max).Draw(rt, "nAcct")
	}
	nTpl := rapid.IntRange(1, 4).Draw(rt, "nStorageTemplates")
	tpls := make([]map[common.Hash]common.Hash, nTpl)
	for i := range tpls {
		tpls[i] = c48GenStorage(rt, fmt.Sprintf("tpl%d", i))
	}
	seed := rapid.Uint64().Draw(rt, "acctSeed")
	kinds := rapid.SliceOfN(rapid.IntRange(0, 9), n, n).Draw(rt, "kinds")
	specs := make([]c48Spec, 0, n)
	seen := map[common.Address]bool{}
	x := seed | 1
	next := func() uint64 {
		x ^= x << 13
		x ^= x >> 7
		x ^= x << 17
		return x
	}
	for i := 0; i < n; i++ {
		var addr common.Address
		for b := 0; b < 20; b += 8 {
			r := next()
			for k := 0; k < 8 && b+k < 20; k++ {
				addr[b+k] = byte(r >> (8 * uint(k)))
			}
		}
		if seen[addr] {
			continue
		}
		seen[addr] = true
		sp := c48Spec{Addr: addr}
		switch kinds[i] {
		case 0: // completely empty account
		case 1, 2, 3: // plain account
			sp.Nonce = next() % 1000
			sp.Balance = new(big.Int).SetUint64(next())
		case 4: // code only
			sp.Code = c48CodePool[next()%uint64(len(c48CodePool))]
			sp.Balance = big.NewInt(int64(next() % 3))
		case 5: // huge balance
			sp.Balance = new(big.Int).Lsh(big.NewInt(int64(next()%1000+1)), 200)
			sp.Nonce = 1
		default: // contract with storage (shared templates) and maybe code
			sp.Storage = tpls[next()%uint64(nTpl)]
			if next()%3 != 0 {
				sp.Code = c48CodePool[next()%uint64(len(c48CodePool))]
			}
			sp.Nonce = 1
			sp.Balance = big.NewInt(int64(next() % 100))
		}
		specs = append(specs, sp)
	}
	return specs
}

func c48AddOne(h common.Hash, delta int) common.Hash {
	v := new(big.Int).SetBytes(h[:])
	v.Add(v, big.NewInt(int64(delta)))
	if v.Sign() < 0 {
		return common.Hash{}
	}
	if v.BitLen() > 256 {
		return common.MaxHash
	}
	var out common.Hash
	v.FillBytes(out[:])
	return out
}

// c48PickHash draws a hash relative to a sorted list of existing ones.
func c48PickHash(rt *rapid.T, existing []common.Hash, label string) common.Hash {
	k := rapid.IntRange(0, 9).Draw(rt, label+"/kind")
	if len(existing) == 0 && k >= 3 && k <= 7 {
		k = 8
	}
	switch k {
	case 0:
		return common.Hash{}
	case 1:
		return common.MaxHash
	case 2:
		var h common.Hash
		h[31] = 1
		return h
	case 3, 4:
		return existing[rapid.IntRange(0, len(existing)-1).Draw(rt, label+"/idx")]
	case 5:
		return c48AddOne(existing[rapid.IntRange(0, len(existing)-1).Draw(rt, label+"/idx")], 1)
	case 6:
		return c48AddOne(existing[rapid.IntRange(0, len(existing)-1).Draw(rt, label+"/idx")], -1)
	case 7:
		// somewhere between two neighbours
		i := rapid.IntRange(0, len(existing)-1).Draw(rt, label+"/idx")
		h := existing[i]
		h[31] ^= 0x55
		h[16] ^= 0x80
		return h
	default:
		var h common.Hash
		copy(h[:], rapid.SliceOfN(rapid.Byte(), 32, 32).Draw(rt, label+"/rnd"))
		return h
	}
}

var c48ByteBudgets = []uint64{0, 1, 100, 500, 2000, 20000, 500 * 1024, 1 << 63, ^uint64(0)}

func c48PickBytes(rt *rapid.T) uint64 {
	if rapid.IntRange(0, 9).Draw(rt, "bytes/cls") == 0 {
		return rapid.Uint64Range(0, 5000).Draw(rt, "bytes/raw")
	}
	return rapid.SampledFrom(c48ByteBudgets).Draw(rt, "bytes")
}

func c48PickRoot(rt *rapid.T, env *c48Env) common.Hash {
	switch k := rapid.IntRange(0, 11).Draw(rt, "root/kind"); {
	case k <= 7:
		return env.head.Root
	case k <= 9:
		return env.models[rapid.IntRange(0, len(env.models)-1).Draw(rt, "root/old")].Root
	case k == 10:
		return c48EmptyRoot
	default:
		var h common.Hash
		copy(h[:], rapid.SliceOfN(rapid.Byte(), 32, 32).Draw(rt, "root/rnd"))
		return h
	}
}

func c48VarBytes(rt *rapid.T, h common.Hash, label string) []byte {
	switch rapid.IntRange(0, 11).Draw(rt, label+"/len") {
	case 0:
		return nil
	case 1:
		return bytes.TrimLeft(h[:], "\x00") // minimal big-endian form
	case 2:
		return h[20:] // short: left padded by the server
	case 3:
		return append([]byte{0xaa, 0xbb}, h[:]...) // long: cropped from the left
	default:
		return h[:]
	}
}

func c48GenAccountReq(rt *rapid.T, env *c48Env) []byte {
	root := c48PickRoot(rt, env)
	m, _ := env.lookupRoot(root)
	hs := env.allHash
	if m != nil && m != env.head {
		hs = nil
		for _, a := range m.Accts {
			hs = append(hs, a.Hash)
		}
	}
	req := &GetAccountRangePacket{
		ID:     rapid.Uint64().Draw(rt, "id"),
		Root:   root,
		Origin: c48PickHash(rt, hs, "origin"),
		Limit:  c48PickHash(rt, hs, "limit"),
		Bytes:  c48PickBytes(rt),
	}
	b, _ := rlp.EncodeToBytes(req)
	return b
}

func c48GenStorageReq(rt *rapid.T, env *c48Env, st *vs.S) []byte {
	root := c48PickRoot(rt, env)
	m, _ := env.lookupRoot(root)
	if m == nil {
		m = env.head
	}
	var withStorage, without []*c48Acct
	for _, a := range m.Accts {
		if len(a.Slots) > 0 {
			withStorage = append(withStorage, a)
		} else {
			without = append(without, a)
		}
	}
	n := rapid.IntRange(0, 6).Draw(rt, "nAccounts")
	if rapid.IntRange(0, 3).Draw(rt, "single") == 0 {
		n = 1
	}
	var accounts []common.Hash
	var firstSlots []common.Hash
	for i := 0; i < n; i++ {
		k := rapid.IntRange(0, 9).Draw(rt, "acct/kind")
		switch {
		case k <= 6 && len(withStorage) > 0:
			a := withStorage[rapid.IntRange(0, len(withStorage)-1).Draw(rt, "acct/idx")]
			accounts = append(accounts, a.Hash)
			if i == 0 {
				for _, s := range a.Slots {
					firstSlots = append(firstSlots, s.Hash)
				}
			}
		case k <= 8 && len(without) > 0:
			accounts = append(accounts, without[rapid.IntRange(0, len(without)-1).Draw(rt, "acct/idx0")].Hash)
		default:
			var h common.Hash
			copy(h[:], rapid.SliceOfN(rapid.Byte(), 32, 32).Draw(rt, "acct/rnd"))
			accounts = append(accounts, h)
		}
	}
	req := &GetStorageRangesPacket{
		ID:       rapid.Uint64().Draw(rt, "id"),
		Root:     root,
		Accounts: accounts,
		Bytes:    c48PickBytes(rt),
	}
	if rapid.IntRange(0, 2).Draw(rt, "useOrigin") > 0 {
		req.Origin = c48VarBytes(rt, c48PickHash(rt, firstSlots, "origin"), "origin")
	}
	if rapid.IntRange(0, 2).Draw(rt, "useLimit") > 0 {
		req.Limit = c48VarBytes(rt, c48PickHash(rt, firstSlots, "limit"), "limit")
	}
	c48AvoidKnown(req, m, st)
	b, _ := rlp.EncodeToBytes(req)
	return b
}

// c48AvoidKnown reshapes a storage request so that it does not hit a behaviour listed
// in known_findings.json (only then; otherwise requests are left as drawn). Both
// triggers need a zero/absent origin (with a non-zero origin the server proves and
// stops after the first account).
func c48AvoidKnown(req *GetStorageRangesPacket, m *c48Model, st *vs.S) {
	if len(req.Origin) > 0 && c48ToHash(req.Origin) != (common.Hash{}) {
		return
	}
	hasStorage := func(h common.Hash) bool {
		a := m.ByHash[h]
		return a != nil && len(a.Slots) > 0
	}
	if vs.Known("TestVerifC48Serve", "storage-empty-set-omitted") {
		// an account without storage (or unknown) followed, anywhere later, by one with
		// storage: its empty slot set is left out of the reply, shifting the later sets
		lastWith := -1
		for i, h := range req.Accounts {
			if hasStorage(h) {
				lastWith = i
			}
		}
		var kept []common.Hash
		changed := false
		for i, h := range req.Accounts {
			if i < lastWith && !hasStorage(h) {
				changed = true
				continue
			}
			kept = append(kept, h)
		}
		if changed {
			req.Accounts = kept
			if st != nil {
				st.Excluded()
			}
		}
	}
	if vs.Known("TestVerifC48Serve", "storage-limit-without-proof") && len(req.Limit) > 0 && len(req.Accounts) > 0 {
		// the first account has slots after the one that closes the range at the limit:
		// the reply stops there but carries no proof
		if a := m.ByHash[req.Accounts[0]]; a != nil {
			limit := c48ToHash(req.Limit)
			k := sort.Search(len(a.Slots), func(i int) bool { return bytes.Compare(a.Slots[i].Hash[:], limit[:]) >= 0 })
			if k < len(a.Slots)-1 {
				req.Limit = nil
				if st != nil {
					st.Excluded()
				}
			}
		}
	}
}

func c48GenCodeReq(rt *rapid.T, env *c48Env) []byte {
	n := rapid.IntRange(0, 12).Draw(rt, "nHashes")
	if rapid.IntRange(0, 29).Draw(rt, "many") == 0 {
		n = maxCodeLookups + rapid.IntRange(0, 50).Draw(rt, "over")
	}
	var hashes []common.Hash
	for i := 0; i < n; i++ {
		k := 9
		if i < 16 {
			k = rapid.IntRange(0, 9).Draw(rt, "code/kind")
		}
		switch {
		case k <= 5 && len(env.codeList) > 0:
			idx := i % len(env.codeList)
			if i < 16 {
				idx = rapid.IntRange(0, len(env.codeList)-1).Draw(rt, "code/idx")
			}
			hashes = append(hashes, env.codeList[idx])
		case k == 6:
			hashes = append(hashes, c48EmptyCodeHash)
		case k == 7 && len(env.allHash) > 0:
			hashes = append(hashes, env.allHash[i%len(env.allHash)]) // a hash that is not a code hash
		default:
			var h common.Hash
			h[0], h[1], h[31] = byte(i), byte(i>>8), 0x77
			hashes = append(hashes, h)
		}
	}
	req := &GetByteCodesPacket{ID: rapid.Uint64().Draw(rt, "id"), Hashes: hashes, Bytes: c48PickBytes(rt)}
	b, _ := rlp.EncodeToBytes(req)
	return b
}

func c48SortedKeys(m map[string][]byte) []string {
	ks := make([]string, 0, len(m))
	for k := range m {
		ks = append(ks, k)
	}
	sort.Strings(ks)
	return ks
}

// c48GenPath draws a compact-encoded path (or malformed bytes) relative to the stored
// node paths of a trie.
func c48GenPath(rt *rapid.T, nodePaths []string, label string) refrlp.Item {
	k := rapid.IntRange(0, 13).Draw(rt, label+"/kind")
	var nib []byte
	if len(nodePaths) > 0 {
		nib = []byte(nodePaths[rapid.IntRange(0, len(nodePaths)-1).Draw(rt, label+"/idx")])
	}
	switch k {
	case 0, 1, 2, 3, 4, 5: // a stored node
		return refrlp.S(c48HexToCompact(nib, false))
	case 6: // one nibble further (child slot, embedded node or nothing)
		return refrlp.S(c48HexToCompact(append(append([]byte{}, nib...), byte(rapid.IntRange(0, 15).Draw(rt, label+"/nib"))), false))
	case 7: // cut short
		if len(nib) > 0 {
			nib = nib[:rapid.IntRange(0, len(nib)-1).Draw(rt, label+"/cut")]
		}
		return refrlp.S(c48HexToCompact(nib, false))
	case 8: // with terminator flag
		return refrlp.S(c48HexToCompact(nib, true))
	case 9: // random nibbles, possibly over-long
		return refrlp.S(c48HexToCompact(rapid.SliceOfN(rapid.ByteRange(0, 15), 0, 70).Draw(rt, label+"/rnd"), rapid.Bool().Draw(rt, label+"/term")))
	case 10: // empty string = root
		return refrlp.S(nil)
	case 11: // raw bytes (malformed flags)
		return refrlp.S(rapid.SliceOfN(rapid.Byte(), 1, 40).Draw(rt, label+"/raw"))
	case 12: // a list where a string is expected
		return refrlp.L(refrlp.S([]byte{1}))
	default: // full 64-nibble key path of nothing
		return refrlp.S(c48HexToCompact(rapid.SliceOfN(rapid.ByteRange(0, 15), 64, 64).Draw(rt, label+"/full"), true))
	}
}

// c48GenFamily draws well-formed compact paths around ONE existing key of a trie, to be
// served from the same per-request trie: the prefixes of the key (stored nodes, and
// positions inside an extension that hold nothing), paths running past the leaf
// (too long, the full key with and without terminator), non-existent or existing
// siblings of those prefixes and garbage extensions below them. Order: longest first,
// shortest first or a drawn permutation; duplicates are possible.
func c48GenFamily(rt *rapid.T, tr *reftrie.Result, key common.Hash, label string) [][]byte {
	var nib []byte
	for _, b := range key {
		nib = append(nib, b>>4, b&0x0f)
	}
	deepest := 0 // position of the deepest stored node on the key's path (normally the leaf)
	var stored []int
	for i := 0; i <= 64; i++ {
		if _, ok := tr.Nodes[string(nib[:i])]; ok {
			deepest = i
			stored = append(stored, i)
		}
	}
	type cand struct {
		nib  []byte
		term bool
	}
	var cands []cand
	add := func(n []byte, term bool) { cands = append(cands, cand{append([]byte{}, n...), term}) }
	for i := 0; i <= deepest; i++ { // every prefix down to the leaf
		add(nib[:i], false)
	}
	for i := deepest + 1; i <= deepest+3 && i <= 64; i++ { // past the leaf, still on the key
		add(nib[:i], false)
	}
	add(nib, false)
	add(nib, true)
	for _, i := range stored { // siblings and children off the key's path
		x := byte(rapid.IntRange(0, 15).Draw(rt, fmt.Sprintf("%s/sib%d", label, i)))
		if i > 0 {
			add(append(append([]byte{}, nib[:i-1]...), x), false)
		}
		if i < 64 {
			add(append(append([]byte{}, nib[:i]...), x), false)
		}
	}
	add(append(append([]byte{}, nib[:deepest]...), rapid.SliceOfN(rapid.ByteRange(0, 15), 1, 5).Draw(rt, label+"/ext")...), rapid.Bool().Draw(rt, label+"/extterm"))
	if deepest > 0 {
		add(nib[:deepest], true)
	}
	// selection
	keep := rapid.IntRange(1, 4).Draw(rt, label+"/keep") // keep each candidate with probability keep/4
	var sel []cand
	for i, c := range cands {
		if keep == 4 || rapid.IntRange(0, 3).Draw(rt, fmt.Sprintf("%s/k%d", label, i)) < keep {
			sel = append(sel, c)
		}
	}
	if len(sel) == 0 {
		sel = append(sel, cands[deepest])
	}
	switch rapid.IntRange(0, 3).Draw(rt, label+"/order") {
	case 0, 1: // longest first
		sort.SliceStable(sel, func(i, j int) bool { return len(sel[i].nib) > len(sel[j].nib) })
	case 2: // shortest first
		sort.SliceStable(sel, func(i, j int) bool { return len(sel[i].nib) < len(sel[j].nib) })
	default:
		perm := rapid.Permutation(sel).Draw(rt, label+"/perm")
		sel = perm
	}
	if len(sel) > 14 {
		sel = sel[:14]
	}
	var out [][]byte
	for _, c := range sel {
		out = append(out, c48HexToCompact(c.nib, c.term))
	}
	return out
}

// c48GenFamilySets draws 1..3 path families (account trie: one single-path set per
// path; storage trie: one path set) for a well-formed request.
func c48GenFamilySets(rt *rapid.T, m *c48Model, withStorage []*c48Acct) []refrlp.Item {
	var sets []refrlp.Item
	total := 0
	nFam := rapid.IntRange(1, 3).Draw(rt, "nFam")
	for f := 0; f < nFam && total < 40; f++ {
		lab := fmt.Sprintf("fam%d", f)
		if len(withStorage) > 0 && rapid.Bool().Draw(rt, lab+"/storage") {
			a := withStorage[rapid.IntRange(0, len(withStorage)-1).Draw(rt, lab+"/aidx")]
			key := a.Slots[rapid.IntRange(0, len(a.Slots)-1).Draw(rt, lab+"/slot")].Hash
			items := []refrlp.Item{refrlp.S(a.Hash[:])}
			for _, p := range c48GenFamily(rt, a.St, key, lab) {
				items = append(items, refrlp.S(p))
				total++
			}
			sets = append(sets, refrlp.L(items...))
		} else {
			key := m.Accts[rapid.IntRange(0, len(m.Accts)-1).Draw(rt, lab+"/acct")].Hash
			for _, p := range c48GenFamily(rt, m.Trie, key, lab) {
				sets = append(sets, refrlp.L(refrlp.S(p)))
				total++
			}
		}
	}
	return sets
}

func c48GenNodesReq(rt *rapid.T, env *c48Env) []byte {
	root := c48PickRoot(rt, env)
	m, _ := env.lookupRoot(root)
	if m == nil {
		m = env.head
	}
	if len(m.Accts) > 0 && rapid.IntRange(0, 9).Draw(rt, "family") < 4 {
		var withStorage []*c48Acct
		for _, a := range m.Accts {
			if len(a.Slots) > 0 {
				withStorage = append(withStorage, a)
			}
		}
		budget := uint64(softResponseLimit)
		if rapid.IntRange(0, 3).Draw(rt, "fam/budget") == 0 {
			budget = c48PickBytes(rt)
		}
		return refrlp.Encode(refrlp.L(
			refrlp.Uint(rapid.Uint64().Draw(rt, "id")),
			refrlp.S(root[:]),
			refrlp.L(c48GenFamilySets(rt, m, withStorage)...),
			refrlp.Uint(budget),
		))
	}
	accPaths := c48SortedKeys(m.Trie.Nodes)
	var withStorage []*c48Acct
	for _, a := range m.Accts {
		if len(a.Slots) > 0 {
			withStorage = append(withStorage, a)
		}
	}
	nSets := rapid.IntRange(0, 8).Draw(rt, "nSets")
	var sets []refrlp.Item
	for i := 0; i < nSets; i++ {
		lab := fmt.Sprintf("set%d", i)
		switch k := rapid.IntRange(0, 11).Draw(rt, lab+"/kind"); {
		case k <= 3: // account trie node
			sets = append(sets, refrlp.L(c48GenPath(rt, accPaths, lab+"/acc")))
		case k <= 8: // storage trie nodes
			var accItem refrlp.Item
			var stPaths []string
			ak := rapid.IntRange(0, 7).Draw(rt, lab+"/acct")
			switch {
			case ak <= 4 && len(withStorage) > 0:
				a := withStorage[rapid.IntRange(0, len(withStorage)-1).Draw(rt, lab+"/aidx")]
				accItem = refrlp.S(a.Hash[:])
				stPaths = c48SortedKeys(a.St.Nodes)
			case ak == 5 && len(m.Accts) > 0:
				a := m.Accts[rapid.IntRange(0, len(m.Accts)-1).Draw(rt, lab+"/aidx2")]
				accItem = refrlp.S(a.Hash[:])
				stPaths = c48SortedKeys(a.St.Nodes)
			case ak == 6:
				accItem = refrlp.S(rapid.SliceOfN(rapid.Byte(), 0, 40).Draw(rt, lab+"/araw"))
			default:
				var h common.Hash
				copy(h[:], rapid.SliceOfN(rapid.Byte(), 32, 32).Draw(rt, lab+"/arnd"))
				accItem = refrlp.S(h[:])
			}
			items := []refrlp.Item{accItem}
			np := rapid.IntRange(1, 6).Draw(rt, lab+"/np")
			for j := 0; j < np; j++ {
				items = append(items, c48GenPath(rt, stPaths, fmt.Sprintf("%s/p%d", lab, j)))
			}
			sets = append(sets, refrlp.L(items...))
		case k == 9: // empty path set
			sets = append(sets, refrlp.L())
		case k == 10: // a string where a list is expected
			sets = append(sets, refrlp.S(rapid.SliceOfN(rapid.Byte(), 0, 5).Draw(rt, lab+"/str")))
		default: // list as account key
			sets = append(sets, refrlp.L(refrlp.L(), refrlp.S([]byte{0})))
		}
	}
	return refrlp.Encode(refrlp.L(
		refrlp.Uint(rapid.Uint64().Draw(rt, "id")),
		refrlp.S(root[:]),
		refrlp.L(sets...),
		refrlp.Uint(c48PickBytes(rt)),
	))
}

// c48Mutate applies a byte-level mutation to a valid encoding.
func c48Mutate(rt *rapid.T, b []byte) []byte {
	out := append([]byte{}, b...)
	switch rapid.IntRange(0, 5).Draw(rt, "mut/kind") {
	case 0:
		if len(out) > 0 {
			out[rapid.IntRange(0, len(out)-1).Draw(rt, "mut/pos")] ^= byte(1 << uint(rapid.IntRange(0, 7).Draw(rt, "mut/bit")))
		}
	case 1:
		if len(out) > 0 {
			out = out[:rapid.IntRange(0, len(out)-1).Draw(rt, "mut/cut")]
		}
	case 2:
		out = append(out, rapid.SliceOfN(rapid.Byte(), 1, 8).Draw(rt, "mut/ext")...)
	case 3:
		if len(out) > 0 {
			p := rapid.IntRange(0, len(out)-1).Draw(rt, "mut/pos")
			out[p] = rapid.Byte().Draw(rt, "mut/val")
		}
	case 4:
		if len(out) > 2 {
			p := rapid.IntRange(1, len(out)-1).Draw(rt, "mut/pos")
			out = append(out[:p], out[p+1:]...)
		}
	default:
		out = rapid.SliceOfN(rapid.Byte(), 0, 64).Draw(rt, "mut/raw")
	}
	return out
}

// ---------------------------------------------------------------------------
// tests

func c48Record(st *vs.S, v c48Verdict, mutated bool, scheme string, payload []byte) {
	c := st.Case()
	cls := v.class
	if mutated {
		cls += "+mut"
	}
	c.Class(cls)
	c.Class("scheme/" + scheme)
	if v.diffed > 0 {
		c.Class("node/diffed-one-by-one")
	}
	if v.missHit {
		c.Class("node/miss-before-hit-same-trie")
	}
	c.NonTrivial(v.nontriv, v.desc)
	c.Sample(v.nontriv, func() any {
		p := payload
		if len(p) > 200 {
			p = p[:200]
		}
		return map[string]any{"class": cls, "scheme": scheme, "request_rlp_prefix": fmt.Sprintf("%x", p), "case": v.desc}
	})
}

// TestVerifC48Serve: random states, random requests of all four kinds, judged
// against the model and the client's verification.
func TestVerifC48Serve(t *testing.T) {
	st := vs.New("C48", t)
	vs.Check(t, 1, func(rt *rapid.T) {
		specs := c48GenSpecs(rt)
		scheme := rapid.SampledFrom([]string{rawdb.HashScheme, rawdb.PathScheme}).Draw(rt, "scheme")
		nBlocks := rapid.IntRange(0, 2).Draw(rt, "nBlocks")
		var coinbase common.Address
		if len(specs) > 0 && rapid.Bool().Draw(rt, "coinbaseExisting") {
			coinbase = specs[rapid.IntRange(0, len(specs)-1).Draw(rt, "coinbaseIdx")].Addr
		} else {
			coinbase = common.Address{0xc0, 0x1b, 0xa5, 0xe0}
		}
		env, err := c48NewEnv(specs, scheme, nBlocks, coinbase)
		if err != nil {
			// harness or environment trouble, not a verdict on the property
			t.Fatalf("%v", err)
		}
		defer env.close()
		nReq := rapid.IntRange(20, 40).Draw(rt, "nReq")
		for i := 0; i < nReq; i++ {
			var (
				code    uint64
				payload []byte
			)
			switch k := rapid.IntRange(0, 9).Draw(rt, "reqKind"); {
			case k <= 2:
				code, payload = GetAccountRangeMsg, c48GenAccountReq(rt, env)
			case k <= 5:
				code, payload = GetStorageRangesMsg, c48GenStorageReq(rt, env, st)
			case k <= 6:
				code, payload = GetByteCodesMsg, c48GenCodeReq(rt, env)
			default:
				code, payload = GetTrieNodesMsg, c48GenNodesReq(rt, env)
			}
			mutated := false
			if rapid.IntRange(0, 9).Draw(rt, "mutate") == 0 {
				payload = c48Mutate(rt, payload)
				mutated = true
				if code == GetStorageRangesMsg {
					// a mutated request may re-create a known trigger: re-apply the gate
					var req GetStorageRangesPacket
					if c48WireDecode(payload, &req) == nil {
						if m, _ := env.lookupRoot(req.Root); m != nil {
							c48AvoidKnown(&req, m, st)
							payload, _ = rlp.EncodeToBytes(&req)
						}
					}
				}
			}
			out := c48Send(rt, env, SNAP1, code, payload)
			v := c48Judge(rt, env, code, payload, out)
			c48Record(st, v, mutated, scheme, payload)
		}
	})
}

// TestVerifC48Dispatch checks the message-code dispatch of both protocol versions: a
// snap/2 peer gets no answer (an error) for GetTrieNodes, a snap/1 peer none for
// GetAccessLists, unknown codes are refused, nothing panics.
func TestVerifC48Dispatch(t *testing.T) {
	st := vs.New("C48", t)
	vs.Check(t, 0.25, func(rt *rapid.T) {
		env := c48FixedEnv(t, rapid.SampledFrom([]string{rawdb.HashScheme, rawdb.PathScheme}).Draw(rt, "scheme"))
		for i := 0; i < 20; i++ {
			version := rapid.SampledFrom([]uint{SNAP1, SNAP2, 0, 65}).Draw(rt, "version")
			code := rapid.Uint64Range(0, 12).Draw(rt, "code")
			var payload []byte
			switch code {
			case GetAccountRangeMsg:
				payload = c48GenAccountReq(rt, env)
			case GetByteCodesMsg:
				payload = c48GenCodeReq(rt, env)
			case GetTrieNodesMsg:
				payload = c48GenNodesReq(rt, env)
			default:
				payload = rapid.SliceOfN(rapid.Byte(), 0, 40).Draw(rt, "raw")
			}
			out := c48Send(rt, env, version, code, payload)
			c := st.Case()
			served := out.err == nil
			switch {
			case version != SNAP1 && version != SNAP2:
				if served {
					rt.Fatalf("message code %d answered for unknown protocol version %d", code, version)
				}
				c.Class("dispatch/bad-version")
			case code == GetTrieNodesMsg && version == SNAP2, code >= GetAccessListsMsg && version == SNAP1, code > AccessListsMsg:
				if served {
					rt.Fatalf("message code %d answered on snap/%d", code, version)
				}
				c.Class("dispatch/not-in-version")
			case code == GetAccountRangeMsg || code == GetByteCodesMsg || (code == GetTrieNodesMsg && version == SNAP1):
				v := c48Judge(rt, env, code, payload, out)
				c.Class("dispatch/" + v.class)
				c.NonTrivial(v.nontriv, v.desc)
			default:
				c.Class("dispatch/other")
			}
		}
	})
}

// fixed environments (one per scheme) for the dispatch test and the native fuzz targets
var (
	c48FixedOnce [2]sync.Once
	c48FixedEnvs [2]*c48Env
	c48FixedErr  [2]error
)

func c48FixedSpecs() []c48Spec {
	var specs []c48Spec
	x := uint64(0x9e3779b97f4a7c15)
	next := func() uint64 {
		x ^= x << 13
		x ^= x >> 7
		x ^= x << 17
		return x
	}
	big1 := map[common.Hash]common.Hash{}
	for i := 0; i < 300; i++ {
		var k, v common.Hash
		big.NewInt(int64(i)).FillBytes(k[:])
		big.NewInt(int64(next()>>1) + 1).FillBytes(v[:])
		big1[k] = v
	}
	small := map[common.Hash]common.Hash{{31: 1}: {31: 7}, {31: 2}: {0: 0xff, 31: 9}}
	for i := 0; i < 40; i++ {
		var addr common.Address
		for b := 0; b < 20; b++ {
			addr[b] = byte(next())
		}
		sp := c48Spec{Addr: addr, Balance: big.NewInt(int64(i)), Nonce: uint64(i % 3)}
		switch i % 5 {
		case 1:
			sp.Storage = small
			sp.Code = c48CodePool[i%len(c48CodePool)]
		case 2:
			sp.Storage = big1
		case 3:
			sp.Code = c48CodePool[(i+1)%len(c48CodePool)]
		}
		specs = append(specs, sp)
	}
	return specs
}

func c48FixedEnv(t testing.TB, scheme string) *c48Env {
	idx := 0
	if scheme == rawdb.PathScheme {
		idx = 1
	}
	c48FixedOnce[idx].Do(func() {
		c48FixedEnvs[idx], c48FixedErr[idx] = c48NewEnv(c48FixedSpecs(), scheme, 2, common.Address{0xc0})
	})
	if c48FixedErr[idx] != nil {
		t.Fatalf("%v", c48FixedErr[idx])
	}
	return c48FixedEnvs[idx]
}

// FuzzVerifC48Wire: first byte selects scheme and message code, the rest is the raw
// RLP payload. Requests that decode are judged by the full oracle.
func FuzzVerifC48Wire(f *testing.F) {
	for _, scheme := range []string{rawdb.HashScheme, rawdb.PathScheme} {
		env := c48FixedEnv(f, scheme)
		sel := byte(0)
		if scheme == rawdb.PathScheme {
			sel = 1
		}
		head := env.head
		a, _ := rlp.EncodeToBytes(&GetAccountRangePacket{ID: 1, Root: head.Root, Origin: common.Hash{}, Limit: common.MaxHash, Bytes: 500})
		f.Add(append([]byte{sel | 0<<1}, a...))
		var big1 *c48Acct
		for _, ac := range head.Accts {
			if len(ac.Slots) > 100 {
				big1 = ac
			}
		}
		s, _ := rlp.EncodeToBytes(&GetStorageRangesPacket{ID: 2, Root: head.Root, Accounts: []common.Hash{big1.Hash, head.Accts[0].Hash}, Origin: big1.Slots[3].Hash[:], Limit: big1.Slots[90].Hash[:], Bytes: 700})
		f.Add(append([]byte{sel | 1<<1}, s...))
		c, _ := rlp.EncodeToBytes(&GetByteCodesPacket{ID: 3, Hashes: append([]common.Hash{c48EmptyCodeHash}, env.codeList...), Bytes: 400})
		f.Add(append([]byte{sel | 2<<1}, c...))
		var sets []refrlp.Item
		for _, p := range c48SortedKeys(head.Trie.Nodes)[:4] {
			sets = append(sets, refrlp.L(refrlp.S(c48HexToCompact([]byte(p), false))))
		}
		stp := c48SortedKeys(big1.St.Nodes)
		sets = append(sets, refrlp.L(refrlp.S(big1.Hash[:]), refrlp.S(c48HexToCompact([]byte(stp[0]), false)), refrlp.S(c48HexToCompact([]byte(stp[5]), false))))
		n := refrlp.Encode(refrlp.L(refrlp.Uint(4), refrlp.S(head.Root[:]), refrlp.L(sets...), refrlp.Uint(1000)))
		f.Add(append([]byte{sel | 3<<1}, n...))
	}
	f.Fuzz(func(t *testing.T, data []byte) {
		if len(data) == 0 {
			return
		}
		scheme := rawdb.HashScheme
		if data[0]&1 == 1 {
			scheme = rawdb.PathScheme
		}
		env := c48FixedEnv(t, scheme)
		code := uint64(data[0]>>1&3) * 2
		payload := data[1:]
		if code == GetStorageRangesMsg {
			var req GetStorageRangesPacket
			if c48WireDecode(payload, &req) == nil {
				if m, _ := env.lookupRoot(req.Root); m != nil {
					c48AvoidKnown(&req, m, nil)
					payload, _ = rlp.EncodeToBytes(&req)
				}
			}
		}
		out := c48Send(t, env, SNAP1, code, payload)
		c48Judge(t, env, code, payload, out)
	})
}
