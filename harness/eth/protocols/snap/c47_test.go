//go:build verif

package snap

// C47 — snap sync (snap/1, with healing) reconstructs exactly the target state.
//
// A random target state (boundary hashes, shared code, shared/large storage) is built
// twice: as geth tries for the package's testPeer helpers to serve from, and with
// kit/reftrie + kit/refrlp as the oracle. 1..4 scripted peers (honest, capped,
// truncating, empty, proof-less, corrupting accounts / slots / bytecodes / healing trie
// nodes, reordering, dropping, delaying) serve a real syncer whose database is wrapped:
// every write is judged when it reaches the store (write barrier), and when Sync
// returns nil the store is compared with the model (flat state, code, trie nodes).
// Wall-clock stalls are never a verdict (VERIF-INCONCLUSIVE).

import (
	"bytes"
	"flag"
	"fmt"
	"math/big"
	"runtime"
	"sort"
	"strconv"
	"strings"
	"sync"
	"sync/atomic"
	"testing"
	"time"

	"github.com/ethereum/go-ethereum/common"
	"github.com/ethereum/go-ethereum/core/rawdb"
	"github.com/ethereum/go-ethereum/core/types"
	"github.com/ethereum/go-ethereum/ethdb"
	"github.com/ethereum/go-ethereum/ethdb/memorydb"
	"github.com/ethereum/go-ethereum/trie"
	"github.com/ethereum/go-ethereum/trie/trienode"
	"github.com/ethereum/go-ethereum/triedb"
	"pgregory.net/rapid"
	"verif.local/kit/refrlp"
	"verif.local/kit/reftrie"
	vs "verif.local/kit/stat"
)

// ---------------------------------------------------------------------------
// target state: model + geth tries

type c47Storage struct {
	keys  []common.Hash // ascending
	vals  [][]byte      // rlp(trimmed value)
	ref   *reftrie.Result
	elems []*kv
}

type c47Account struct {
	hash     common.Hash
	nonce    uint64
	balance  *big.Int
	code     []byte
	codeHash common.Hash
	st       *c47Storage // nil = no storage
	stRoot   common.Hash
	full     []byte
	slim     []byte
}

type c47State struct {
	scheme string
	accts  []*c47Account // ascending by hash
	byHash map[common.Hash]*c47Account
	ref    *reftrie.Result
	root   common.Hash
	codes  map[common.Hash][]byte
	slots  int
	// geth side, for the peers
	accTrie  *trie.Trie
	accElems []*kv
	stTries  map[common.Hash]*trie.Trie
	stElems  map[common.Hash][]*kv
}

type c47Rand struct{ x uint64 }

func (r *c47Rand) next() uint64 {
	r.x ^= r.x << 13
	r.x ^= r.x >> 7
	r.x ^= r.x << 17
	return r.x
}
func (r *c47Rand) intn(n int) int { return int(r.next() % uint64(n)) }

// c47GenKeys makes n distinct 32-byte keys: random ones, range-split borders
// (i*2^252-1, i*2^252), 0x00.., 0xff.., and neighbours sharing long prefixes.
//
// tail is the number of trailing bytes that are never the only difference between two
// keys: account keys use 1, because two account hashes sharing 63 nibbles (a 252-bit
// keccak collision) would put an account leaf at depth 64, a path that the snap
// protocol's path sets and ResolvePath read as "storage root of that account".
func c47GenKeys(r *c47Rand, n int, hostile bool, tail int) []common.Hash {
	seen := map[common.Hash]bool{}
	var out []common.Hash
	add := func(h common.Hash) {
		if !seen[h] && len(out) < n {
			seen[h] = true
			out = append(out, h)
		}
	}
	if hostile {
		add(common.Hash{})
		add(common.MaxHash)
		for tries := 0; tries < n/3+2; tries++ {
			i := r.intn(15) + 1
			var b common.Hash
			b[0] = byte(i << 4)
			if r.intn(2) == 0 {
				add(b) // first of chunk i
			} else {
				v := new(big.Int).Sub(new(big.Int).SetBytes(b[:]), big.NewInt(1))
				var l common.Hash
				v.FillBytes(l[:])
				add(l) // last of chunk i-1
			}
		}
	}
	for len(out) < n {
		var h common.Hash
		switch {
		case len(out) > 0 && r.intn(5) == 0:
			// long shared prefix with an existing key
			h = out[r.intn(len(out))]
			h[31-tail-r.intn(3)] ^= byte(r.intn(255) + 1)
		default:
			for i := 0; i < 32; i += 8 {
				v := r.next()
				for k := 0; k < 8; k++ {
					h[i+k] = byte(v >> (8 * uint(k)))
				}
			}
		}
		add(h)
	}
	sort.Slice(out, func(i, j int) bool { return bytes.Compare(out[i][:], out[j][:]) < 0 })
	return out
}

// c47Cluster makes c distinct slot hashes whose top `bits` bits are zero: a dense run of
// slots at the start of the hash space. A byte-capped first reply that ends inside it
// makes the syncers extrapolate a huge storage trie (estimateRemainingSlots) and split
// the contract into 2..16 storage chunks, which uniformly spread keys of a small state
// practically never do (the estimate must reach 2*maxRequestSize/64 = 16384 slots).
func c47Cluster(r *c47Rand, c, bits int) []common.Hash {
	seen := map[common.Hash]bool{}
	var out []common.Hash
	for len(out) < c {
		var h common.Hash
		for i := range h {
			h[i] = byte(r.next())
		}
		for b := 0; b < bits; b++ {
			h[b/8] &^= 0x80 >> uint(b%8)
		}
		if !seen[h] && h != (common.Hash{}) {
			seen[h] = true
			out = append(out, h)
		}
	}
	return out
}

func c47GenStorage(r *c47Rand, n int, hostile bool) *c47Storage {
	st := &c47Storage{keys: c47GenKeys(r, n, hostile, 0)}
	if hostile && r.intn(2) == 0 {
		seen := map[common.Hash]bool{}
		for _, k := range st.keys {
			seen[k] = true
		}
		for _, k := range c47Cluster(r, 8+r.intn(33), 11+r.intn(5)) {
			if !seen[k] {
				st.keys = append(st.keys, k)
			}
		}
		sort.Slice(st.keys, func(i, j int) bool { return bytes.Compare(st.keys[i][:], st.keys[j][:]) < 0 })
	}
	kvm := map[string][]byte{}
	for _, k := range st.keys {
		l := 1 + r.intn(32)
		if r.intn(3) == 0 {
			l = 1
		}
		raw := make([]byte, l)
		for i := range raw {
			raw[i] = byte(r.next())
		}
		raw[0] |= 1
		v := refrlp.EncodeString(raw)
		st.vals = append(st.vals, v)
		kvm[string(k[:])] = v
		st.elems = append(st.elems, &kv{common.CopyBytes(k[:]), v})
	}
	st.ref = reftrie.Build(kvm)
	return st
}

type c47Shape struct {
	scheme    string
	seed      uint64
	nAccounts int
	hostile   bool
	stSizes   []int // storage template sizes
	stShare   int   // percentage of accounts with storage
	codeShare int
}

func c47BuildState(sh c47Shape) (*c47State, error) {
	return c47Assemble(sh.scheme, c47GenAccounts(sh))
}

// c47GenAccounts generates the accounts of a target state (hash, nonce, balance, code,
// storage template); the derived fields are filled by c47Assemble.
func c47GenAccounts(sh c47Shape) []*c47Account {
	r := &c47Rand{sh.seed | 1}
	var tpls []*c47Storage
	for _, n := range sh.stSizes {
		tpls = append(tpls, c47GenStorage(r, n, sh.hostile))
	}
	var codePool [][]byte
	for _, n := range []int{1, 2, 40, 700, 3000} {
		c := make([]byte, n)
		for i := range c {
			c[i] = byte(r.next())
		}
		codePool = append(codePool, c)
	}
	keys := c47GenKeys(r, sh.nAccounts, sh.hostile, 1)
	var accts []*c47Account
	for _, k := range keys {
		a := &c47Account{hash: k, nonce: r.next() % 100, balance: new(big.Int).SetUint64(r.next() >> uint(r.intn(64)))}
		if r.intn(100) < sh.codeShare {
			a.code = codePool[r.intn(len(codePool))]
		}
		// the all-zero owner denotes the account trie itself in the node database, so the
		// account with hash 0x00..00 cannot carry a storage trie
		if len(tpls) > 0 && r.intn(100) < sh.stShare && k != (common.Hash{}) {
			a.st = tpls[r.intn(len(tpls))]
		}
		accts = append(accts, a)
	}
	return accts
}

// c47Assemble builds the model (kit/reftrie + kit/refrlp) and the geth tries (for the
// peers) of the state made of the given accounts (ascending by hash; hash, nonce,
// balance, code and st set).
func c47Assemble(scheme string, accts []*c47Account) (*c47State, error) {
	s := &c47State{scheme: scheme, byHash: map[common.Hash]*c47Account{}, codes: map[common.Hash][]byte{},
		stTries: map[common.Hash]*trie.Trie{}, stElems: map[common.Hash][]*kv{}}
	akv := map[string][]byte{}
	for _, a := range accts {
		k := a.hash
		a.codeHash = reftrie.Keccak256(a.code)
		if len(a.code) > 0 {
			s.codes[a.codeHash] = a.code
		}
		a.stRoot = common.Hash(reftrie.EmptyRoot)
		if a.st != nil {
			a.stRoot = a.st.ref.Root
			s.slots += len(a.st.keys)
		}
		slimRoot, slimCode := a.stRoot[:], a.codeHash[:]
		if a.st == nil {
			slimRoot = nil
		}
		if len(a.code) == 0 {
			slimCode = nil
		}
		a.full = refrlp.Encode(refrlp.L(refrlp.Uint(a.nonce), refrlp.BigInt(a.balance), refrlp.S(a.stRoot[:]), refrlp.S(a.codeHash[:])))
		a.slim = refrlp.Encode(refrlp.L(refrlp.Uint(a.nonce), refrlp.BigInt(a.balance), refrlp.S(slimRoot), refrlp.S(slimCode)))
		s.accts = append(s.accts, a)
		s.byHash[k] = a
		akv[string(k[:])] = a.full
	}
	s.ref = reftrie.Build(akv)
	s.root = s.ref.Root

	// geth side (as makeAccountTrieWithStorage does)
	db := triedb.NewDatabase(rawdb.NewMemoryDatabase(), newDbConfig(scheme))
	accTrie := trie.NewEmpty(db)
	nodes := trienode.NewMergedNodeSet()
	for _, a := range s.accts {
		if a.st != nil {
			tr, err := trie.New(trie.StorageTrieID(types.EmptyRootHash, a.hash, types.EmptyRootHash), db)
			if err != nil {
				return nil, err
			}
			for i, k := range a.st.keys {
				tr.MustUpdate(k[:], a.st.vals[i])
			}
			root, set := tr.Commit(false)
			if root != a.stRoot {
				return nil, fmt.Errorf("storage root mismatch: geth %x model %x", root, a.stRoot)
			}
			if set != nil {
				nodes.Merge(set)
			}
			s.stElems[a.hash] = a.st.elems
		}
		accTrie.MustUpdate(a.hash[:], a.full)
		s.accElems = append(s.accElems, &kv{common.CopyBytes(a.hash[:]), a.full})
	}
	root, set := accTrie.Commit(true)
	if root != s.root {
		return nil, fmt.Errorf("state root mismatch: geth %x model %x (%d accounts)", root, s.root, len(s.accts))
	}
	if set != nil {
		nodes.Merge(set)
	}
	if err := db.Update(root, types.EmptyRootHash, 0, nodes, triedb.NewStateSet()); err != nil {
		return nil, err
	}
	var err error
	if s.accTrie, err = trie.New(trie.StateTrieID(root), db); err != nil {
		return nil, err
	}
	for _, a := range s.accts {
		if a.st != nil {
			tr, err := trie.New(trie.StorageTrieID(root, a.hash, a.stRoot), db)
			if err != nil {
				return nil, err
			}
			s.stTries[a.hash] = tr
		}
	}
	return s, nil
}

// ---------------------------------------------------------------------------
// write barrier

type c47DB struct {
	ethdb.KeyValueStore
	state *c47State
	mu    sync.Mutex
	viol  []string
	notes map[string]int
	puts  atomic.Int64
}

func (d *c47DB) violation(format string, a ...any) {
	d.mu.Lock()
	if len(d.viol) < 8 {
		d.viol = append(d.viol, fmt.Sprintf(format, a...))
	}
	d.mu.Unlock()
}

func c47AllNibbles(b []byte) bool {
	for _, x := range b {
		if x > 15 {
			return false
		}
	}
	return true
}

func c47FromHealer() bool {
	pc := make([]uintptr, 32)
	n := runtime.Callers(3, pc)
	frames := runtime.CallersFrames(pc[:n])
	for {
		f, more := frames.Next()
		if strings.HasSuffix(f.Function, "trie.(*Sync).Commit") || strings.HasSuffix(f.Function, ".commitHealer") {
			return true
		}
		if !more {
			return false
		}
	}
}

// check judges one write reaching the store.
func (d *c47DB) check(key, val []byte) {
	s := d.state
	d.puts.Add(1)
	switch {
	case len(key) == 33 && key[0] == 'a':
		a := s.byHash[common.BytesToHash(key[1:])]
		if a == nil {
			d.violation("flat account written for %x which is not in the target state (value %x)", key[1:], val)
		} else if !bytes.Equal(val, a.slim) {
			d.violation("flat account %x written as %x, target %x", key[1:], val, a.slim)
		}
	case len(key) == 65 && key[0] == 'o':
		a := s.byHash[common.BytesToHash(key[1:33])]
		if a == nil || a.st == nil {
			d.violation("flat storage slot written for account %x which has no storage in the target state", key[1:33])
			return
		}
		slot := common.BytesToHash(key[33:])
		i := sort.Search(len(a.st.keys), func(i int) bool { return bytes.Compare(a.st.keys[i][:], slot[:]) >= 0 })
		if i == len(a.st.keys) || a.st.keys[i] != slot {
			d.violation("flat storage slot %x/%x written (%x) but the target has no such slot", key[1:33], slot, val)
		} else if !bytes.Equal(val, a.st.vals[i]) {
			d.violation("flat storage slot %x/%x written as %x, target %x", key[1:33], slot, val, a.st.vals[i])
		}
	case len(key) == 33 && key[0] == 'c':
		h := common.BytesToHash(key[1:])
		if common.Hash(reftrie.Keccak256(val)) != h {
			d.violation("code written under hash %x does not hash to it (%d bytes)", h, len(val))
		} else if _, ok := s.codes[h]; !ok {
			d.violation("code %x written but no account of the target state uses it", h)
		}
	case s.scheme == rawdb.HashScheme && len(key) == 32:
		if common.Hash(reftrie.Keccak256(val)) != common.BytesToHash(key) {
			d.violation("trie node written under hash %x does not hash to it (node %x)", key, val)
		}
	case s.scheme == rawdb.PathScheme && len(key) >= 1 && len(key) <= 65 && key[0] == 'A' && c47AllNibbles(key[1:]):
		if want, ok := s.ref.Nodes[string(key[1:])]; !ok || !bytes.Equal(want, val) {
			if c47FromHealer() {
				d.violation("healer wrote account trie node at path %x = %x, target node there is %x", key[1:], val, want)
			} else {
				d.mu.Lock()
				d.notes["path-node-not-in-target(account)"]++
				d.mu.Unlock()
			}
		}
	case s.scheme == rawdb.PathScheme && len(key) >= 33 && len(key) <= 97 && key[0] == 'O' && c47AllNibbles(key[33:]):
		a := s.byHash[common.BytesToHash(key[1:33])]
		var want []byte
		ok := false
		if a != nil && a.st != nil {
			want, ok = a.st.ref.Nodes[string(key[33:])]
		}
		if !ok || !bytes.Equal(want, val) {
			if c47FromHealer() {
				d.violation("healer wrote storage trie node of %x at path %x = %x, target node there is %x", key[1:33], key[33:], val, want)
			} else {
				d.mu.Lock()
				d.notes["path-node-not-in-target(storage)"]++
				d.mu.Unlock()
			}
		}
	}
}

func (d *c47DB) Put(key, val []byte) error {
	d.check(key, val)
	return d.KeyValueStore.Put(key, val)
}

func (d *c47DB) NewBatch() ethdb.Batch { return &c47Batch{Batch: d.KeyValueStore.NewBatch(), db: d} }
func (d *c47DB) NewBatchWithSize(n int) ethdb.Batch {
	return &c47Batch{Batch: d.KeyValueStore.NewBatchWithSize(n), db: d}
}

type c47Batch struct {
	ethdb.Batch
	db *c47DB
}

func (b *c47Batch) Put(key, val []byte) error {
	// judged when queued: the caller is still on the stack (healer vs generator), and
	// nothing that is queued is ever meant not to be written
	b.db.check(key, val)
	return b.Batch.Put(key, val)
}

// ---------------------------------------------------------------------------
// scripted peers

const (
	bhHonest = iota
	bhCapTiny
	bhTruncate
	bhDelay
	// below: only for non-anchor peers
	bhEmpty
	bhDrop
	bhNoProof
	bhDropProofNode
	bhCorrupt // flip a byte in one account body / slot / bytecode / trie node
	bhGap     // leave one item out of the middle
	bhSwap    // exchange two neighbours
	bhAlterKey
	bhExtra // append an unrequested item / always-prove storage
	bhCount
)

var c47BhNames = []string{"honest", "captiny", "truncate", "delay", "empty", "drop", "noproof", "dropproofnode", "corrupt", "gap", "swap", "alterkey", "extra"}

const (
	kAcc = iota
	kSto
	kCode
	kNode
)

type c47Run struct {
	state      *c47State
	served     atomic.Int64
	rejected   atomic.Int64
	rejectedBy [4]atomic.Int64
	tampered   atomic.Int64
	chunked    atomic.Int64 // storage requests in large-contract mode
	chunkedOK  atomic.Int64 // ... answered and accepted
	healReqs   atomic.Int64
	cancelAt   int64
	// cancel point in accepted replies to chunked storage requests (0 = none): lands in
	// the middle of a large-contract retrieval
	cancelChunked int64
	// the cycle is interrupted when a slow peer (c47Peer.holds) has seen the later chunks
	// progress while it sits on an earlier one
	holdCancel bool
	multiReqs, held, heldReached, heldCancel atomic.Int64 // statistics
	cancelOnce sync.Once
	cancel     chan struct{}
}

func (r *c47Run) tick() {
	if n := r.served.Add(1); r.cancelAt > 0 && n == r.cancelAt {
		r.cancelOnce.Do(func() { close(r.cancel) })
	}
}

// c47Src adapts a snap/1 testPeer or a snap/2 testPeerV2 to the scripted handlers.
type c47Src struct {
	id      string
	accTrie *trie.Trie
	accVals []*kv
	stTries map[common.Hash]*trie.Trie
	mkAcc   func(root, origin, limit common.Hash, cap int) ([]common.Hash, [][]byte, [][]byte)
	mkSto   func(root common.Hash, accounts []common.Hash, origin, limit []byte, max int, alwaysProve bool) ([][]common.Hash, [][][]byte, [][]byte)
	onAcc   func(id uint64, hashes []common.Hash, accounts [][]byte, proof [][]byte) error
	onSto   func(id uint64, hashes [][]common.Hash, slots [][][]byte, proof [][]byte) error
	onCode  func(id uint64, codes [][]byte) error
	onNode  func(id uint64, nodes [][]byte) error
}

type c47Peer struct {
	src    *c47Src
	run    *c47Run
	script [4][]int
	pos    [4]atomic.Int32
	cyclic bool
	// a slow peer: it sits on the first `holds` requests for a storage chunk other than a
	// contract's last one until holdFor further chunk replies of other peers were
	// accepted (then, if the run says so, the cycle is interrupted with the request still
	// pending), the cycle is cancelled or c47HoldBound expires (then it answers): an early
	// storage chunk stays open while later chunks of the same contract progress
	holds   atomic.Int32
	holdFor int64
	// a peer with a small response limit: every first (origin-less) storage reply is
	// byte-capped, so that contracts switch to chunked retrieval
	tinyFirst bool
	mu      sync.Mutex // the tries of a testPeer are not safe for concurrent use
	rmu    sync.Mutex
	rnd    c47Rand
}

func (p *c47Peer) next(kind int) int {
	i := int(p.pos[kind].Add(1)) - 1
	l := p.script[kind]
	if len(l) == 0 {
		return bhHonest
	}
	if p.cyclic {
		return l[i%len(l)]
	}
	if i < len(l) {
		return l[i]
	}
	return bhHonest
}

func (p *c47Peer) rand(n int) int {
	p.rmu.Lock()
	defer p.rmu.Unlock()
	return p.rnd.intn(n)
}

func (p *c47Peer) perturb(bh int) {
	n := p.rand(4)
	for i := 0; i < n; i++ {
		runtime.Gosched()
	}
	if bh == bhDelay {
		time.Sleep(time.Duration(1+p.rand(5)) * time.Millisecond)
	}
}

func (p *c47Peer) done(kind int, err error, tampered bool) {
	if tampered {
		p.run.tampered.Add(1)
	}
	if err != nil {
		p.run.rejected.Add(1)
		p.run.rejectedBy[kind].Add(1)
	}
}

func c47Flip(b []byte, r int) []byte {
	out := common.CopyBytes(b)
	if len(out) == 0 {
		return []byte{0x01}
	}
	out[r%len(out)] ^= byte(1 << uint(r%7))
	return out
}

func c47Prove(tr *trie.Trie, origin []byte, last []byte) [][]byte {
	proof := trienode.NewProofSet()
	tr.Prove(origin, proof)
	if last != nil {
		tr.Prove(last, proof)
	}
	return proof.List()
}

func (p *c47Peer) onAccounts(id uint64, root, origin, limit common.Hash, cap int) error {
	p.run.tick()
	bh := p.next(kAcc)
	p.perturb(bh)
	switch bh {
	case bhDrop:
		return nil
	case bhEmpty:
		p.src.onAcc(id, nil, nil, nil)
		return nil
	case bhCapTiny:
		cap = 60 + p.rand(900)
	}
	p.mu.Lock()
	keys, vals, proofs := p.src.mkAcc(root, origin, limit, cap)
	tampered := false
	r := p.rand(1 << 20)
	switch bh {
	case bhTruncate:
		if len(keys) > 1 {
			k := 1 + r%(len(keys)-1)
			keys, vals = keys[:k], vals[:k]
			proofs = c47Prove(p.src.accTrie, origin[:], keys[k-1][:])
		}
	case bhNoProof:
		tampered = len(proofs) > 0
		proofs = nil
	case bhDropProofNode:
		if len(proofs) > 0 {
			i := r % len(proofs)
			proofs = append(append([][]byte{}, proofs[:i]...), proofs[i+1:]...)
			tampered = true
		}
	case bhCorrupt:
		if len(vals) > 0 {
			vals = append([][]byte{}, vals...)
			i := r % len(vals)
			vals[i] = c47Flip(vals[i], r>>8)
			tampered = true
		}
	case bhGap:
		if len(keys) > 2 {
			i := 1 + r%(len(keys)-2)
			keys = append(append([]common.Hash{}, keys[:i]...), keys[i+1:]...)
			vals = append(append([][]byte{}, vals[:i]...), vals[i+1:]...)
			tampered = true
		}
	case bhSwap:
		if len(keys) > 1 {
			i := r % (len(keys) - 1)
			keys = append([]common.Hash{}, keys...)
			vals = append([][]byte{}, vals...)
			keys[i], keys[i+1] = keys[i+1], keys[i]
			vals[i], vals[i+1] = vals[i+1], vals[i]
			tampered = true
		}
	case bhAlterKey:
		if len(keys) > 0 {
			keys = append([]common.Hash{}, keys...)
			keys[r%len(keys)][31] ^= 1
			tampered = true
		}
	case bhExtra:
		// bloat the proof with every account's path
		proof := trienode.NewProofSet()
		p.src.accTrie.Prove(origin[:], proof)
		for _, e := range p.src.accVals {
			p.src.accTrie.Prove(e.k, proof)
		}
		proofs = proof.List()
	}
	p.mu.Unlock()
	if len(keys) == 0 && len(proofs) == 0 && bh <= bhDelay && c47DebugLines.Add(1) <= 10 {
		fmt.Printf("C47-DEBUG %s: unintended empty account reply bh=%s origin=%x limit=%x cap=%d\n", p.src.id, c47BhNames[bh], origin, limit, cap)
	}
	err := p.src.onAcc(id, keys, vals, proofs)
	p.done(kAcc, err, tampered)
	return nil
}

func (p *c47Peer) onStorage(id uint64, root common.Hash, accounts []common.Hash, origin, limit []byte, max int) error {
	p.run.tick()
	chunkReq := len(accounts) == 1 && origin != nil
	if chunkReq {
		p.run.chunked.Add(1)
	}
	bh := p.next(kSto)
	p.perturb(bh)
	if chunkReq && !bytes.Equal(limit, common.MaxHash[:]) {
		p.run.multiReqs.Add(1)
	}
	if chunkReq && p.holdFor > 0 && !bytes.Equal(limit, common.MaxHash[:]) && p.holds.Add(-1) >= 0 {
		p.run.held.Add(1)
		switch p.hold() {
		case c47HoldCancelled:
			return nil // the reply is never sent
		case c47HoldReached:
			p.run.heldReached.Add(1)
			if p.run.holdCancel {
				p.run.heldCancel.Add(1)
				p.run.cancelOnce.Do(func() { close(p.run.cancel) })
				return nil
			}
		}
	}
	switch bh {
	case bhDrop:
		return nil
	case bhEmpty:
		p.src.onSto(id, nil, nil, nil)
		return nil
	case bhCapTiny:
		max = 40 + p.rand(700)
	default:
		if p.tinyFirst && origin == nil {
			max = 40 + p.rand(700)
		}
	}
	p.mu.Lock()
	var (
		hashes [][]common.Hash
		slots  [][][]byte
		proofs [][]byte
	)
	hashes, slots, proofs = p.src.mkSto(root, accounts, origin, limit, max, bh == bhExtra)
	tampered := false
	r := p.rand(1 << 20)
	pick := func() (int, bool) { // a non-empty set
		for tries := 0; tries < len(hashes); tries++ {
			i := (r + tries) % len(hashes)
			if len(hashes[i]) > 0 {
				return i, true
			}
		}
		return 0, false
	}
	cp := func(i int) {
		hashes = append([][]common.Hash{}, hashes...)
		slots = append([][][]byte{}, slots...)
		hashes[i] = append([]common.Hash{}, hashes[i]...)
		slots[i] = append([][]byte{}, slots[i]...)
	}
	switch bh {
	case bhTruncate:
		// fewer slot sets; all but the last stay complete, so the reply stays valid when
		// the dropped tail includes the (only possibly partial) last set
		if len(hashes) > 1 {
			k := 1 + r%(len(hashes)-1)
			hashes, slots, proofs = hashes[:k], slots[:k], nil
		}
	case bhNoProof:
		tampered = len(proofs) > 0
		proofs = nil
	case bhDropProofNode:
		if len(proofs) > 0 {
			i := r % len(proofs)
			proofs = append(append([][]byte{}, proofs[:i]...), proofs[i+1:]...)
			tampered = true
		}
	case bhCorrupt:
		if i, ok := pick(); ok {
			cp(i)
			j := (r >> 4) % len(slots[i])
			slots[i][j] = c47Flip(slots[i][j], r>>8)
			tampered = true
		}
	case bhGap:
		if i, ok := pick(); ok && len(hashes[i]) > 2 {
			cp(i)
			j := 1 + (r>>4)%(len(hashes[i])-2)
			hashes[i] = append(hashes[i][:j], hashes[i][j+1:]...)
			slots[i] = append(slots[i][:j], slots[i][j+1:]...)
			tampered = true
		}
	case bhSwap:
		if i, ok := pick(); ok && len(hashes[i]) > 1 {
			cp(i)
			j := (r >> 4) % (len(hashes[i]) - 1)
			hashes[i][j], hashes[i][j+1] = hashes[i][j+1], hashes[i][j]
			slots[i][j], slots[i][j+1] = slots[i][j+1], slots[i][j]
			tampered = true
		}
	case bhAlterKey:
		if i, ok := pick(); ok {
			cp(i)
			hashes[i][(r>>4)%len(hashes[i])][31] ^= 1
			tampered = true
		}
	}
	p.mu.Unlock()
	if len(hashes) == 0 && len(proofs) == 0 && bh <= bhDelay && c47DebugLines.Add(1) <= 10 {
		fmt.Printf("C47-DEBUG %s: unintended empty storage reply bh=%s accounts=%x origin=%x limit=%x max=%d\n", p.src.id, c47BhNames[bh], accounts, origin, limit, max)
	}
	err := p.src.onSto(id, hashes, slots, proofs)
	p.done(kSto, err, tampered)
	if chunkReq && err == nil && len(hashes) > 0 {
		if n := p.run.chunkedOK.Add(1); p.run.cancelChunked > 0 && n == p.run.cancelChunked {
			p.run.cancelOnce.Do(func() { close(p.run.cancel) })
		}
	}
	return nil
}

// c47HoldBound bounds a held request; expiry only loses the schedule, the reply is sent.
const c47HoldBound = 100 * time.Millisecond

const (
	c47HoldReached = iota
	c47HoldExpired
	c47HoldCancelled
)

// hold blocks until the run has seen holdFor more accepted chunk replies.
func (p *c47Peer) hold() int {
	var (
		target   = p.run.chunkedOK.Load() + p.holdFor
		deadline = time.Now().Add(c47HoldBound)
		tick     = time.NewTicker(time.Millisecond)
	)
	defer tick.Stop()
	for p.run.chunkedOK.Load() < target && time.Now().Before(deadline) {
		select {
		case <-p.run.cancel:
			return c47HoldCancelled
		case <-tick.C:
		}
	}
	if p.run.chunkedOK.Load() >= target {
		return c47HoldReached
	}
	return c47HoldExpired
}

func (p *c47Peer) onCodes(id uint64, hashes []common.Hash, max int) error {
	p.run.tick()
	bh := p.next(kCode)
	p.perturb(bh)
	switch bh {
	case bhDrop:
		return nil
	case bhEmpty:
		p.src.onCode(id, nil)
		return nil
	}
	var codes [][]byte
	for _, h := range hashes {
		codes = append(codes, p.run.state.codes[h])
	}
	tampered := false
	r := p.rand(1 << 20)
	if len(codes) == 0 {
		bh = bhHonest
	}
	switch bh {
	case bhCapTiny, bhTruncate:
		codes = codes[:1+r%len(codes)]
	case bhCorrupt, bhAlterKey:
		i := r % len(codes)
		codes[i] = c47Flip(codes[i], r>>8)
		tampered = true
	case bhGap:
		if len(codes) > 1 {
			i := r % len(codes)
			codes = append(codes[:i], codes[i+1:]...)
		}
	case bhSwap:
		if len(codes) > 1 && !bytes.Equal(codes[0], codes[1]) {
			codes[0], codes[1] = codes[1], codes[0]
			tampered = true
		}
	case bhExtra:
		codes = append(codes, []byte{0xde, 0xad, byte(r)})
		tampered = true
	}
	if len(codes) == 0 && c47DebugLines.Add(1) <= 10 {
		fmt.Printf("C47-DEBUG %s: unintended empty code reply bh=%s hashes=%x\n", p.src.id, c47BhNames[bh], hashes)
	}
	err := p.src.onCode(id, codes)
	p.done(kCode, err, tampered)
	return nil
}

func (p *c47Peer) onTrieNodes(id uint64, root common.Hash, paths []TrieNodePathSet, cap int) error {
	p.run.tick()
	p.run.healReqs.Add(1)
	bh := p.next(kNode)
	p.perturb(bh)
	switch bh {
	case bhDrop:
		return nil
	case bhEmpty:
		p.src.onNode(id, nil)
		return nil
	}
	var nodes [][]byte
	p.mu.Lock()
	for _, pathset := range paths {
		switch len(pathset) {
		case 1:
			if blob, _, err := p.src.accTrie.GetNode(pathset[0]); err == nil {
				nodes = append(nodes, blob)
			}
		default:
			tr := p.src.stTries[common.BytesToHash(pathset[0])]
			if tr == nil {
				a := p.run.state.byHash[common.BytesToHash(pathset[0])]
				if c47DebugLines.Add(1) <= 10 {
					fmt.Printf("C47-DEBUG no storage trie for %x (account known=%v hasStorage=%v)\n", pathset[0], a != nil, a != nil && a.st != nil)
				}
				continue
			}
			for _, path := range pathset[1:] {
				blob, _, err := tr.GetNode(path)
				if err == nil {
					nodes = append(nodes, blob)
				} else if c47DebugLines.Add(1) <= 10 {
					fmt.Printf("C47-DEBUG GetNode(%x,%x): %v\n", pathset[0], path, err)
				}
			}
		}
	}
	p.mu.Unlock()
	tampered := false
	r := p.rand(1 << 20)
	if len(nodes) > 0 {
		switch bh {
		case bhCapTiny, bhTruncate:
			nodes = nodes[:1+r%len(nodes)]
		case bhCorrupt, bhAlterKey, bhNoProof, bhDropProofNode:
			i := r % len(nodes)
			nodes[i] = c47Flip(nodes[i], r>>8)
			tampered = true
		case bhGap:
			if len(nodes) > 1 {
				i := r % len(nodes)
				nodes = append(nodes[:i], nodes[i+1:]...)
			}
		case bhSwap:
			if len(nodes) > 1 && !bytes.Equal(nodes[0], nodes[len(nodes)-1]) {
				nodes[0], nodes[len(nodes)-1] = nodes[len(nodes)-1], nodes[0]
				tampered = true
			}
		case bhExtra:
			nodes = append(nodes, c47Flip(nodes[0], r>>8))
			tampered = true
		}
	}
	if len(nodes) == 0 && c47DebugLines.Add(1) <= 10 {
		fmt.Printf("C47-DEBUG %s: unintended empty trie node reply bh=%s paths=%x\n", p.src.id, c47BhNames[bh], paths)
	}
	err := p.src.onNode(id, nodes)
	p.done(kNode, err, tampered)
	return nil
}

func c47NewPeer(t *testing.T, name string, run *c47Run, cp *c47Peer) *testPeer {
	cp.run = run
	tp := newTestPeer(name, t, func() {})
	st := run.state
	tp.accountTrie = st.accTrie.Copy()
	tp.accountValues = st.accElems
	tp.setStorageTries(st.stTries)
	tp.storageValues = st.stElems
	cp.src = &c47Src{
		id: name, accTrie: tp.accountTrie, accVals: tp.accountValues, stTries: tp.storageTries,
		mkAcc: func(root, origin, limit common.Hash, cap int) ([]common.Hash, [][]byte, [][]byte) {
			return createAccountRequestResponse(tp, root, origin, limit, cap)
		},
		mkSto: func(root common.Hash, accounts []common.Hash, origin, limit []byte, max int, always bool) ([][]common.Hash, [][][]byte, [][]byte) {
			if always {
				return createStorageRequestResponseAlwaysProve(tp, root, accounts, origin, limit, max)
			}
			return createStorageRequestResponse(tp, root, accounts, origin, limit, max)
		},
		onAcc: func(id uint64, h []common.Hash, a [][]byte, pr [][]byte) error {
			return tp.remote.OnAccounts(tp, id, h, a, pr)
		},
		onSto: func(id uint64, h [][]common.Hash, sl [][][]byte, pr [][]byte) error {
			return tp.remote.OnStorage(tp, id, h, sl, pr)
		},
		onCode: func(id uint64, c [][]byte) error { return tp.remote.OnByteCodes(tp, id, c) },
		onNode: func(id uint64, n [][]byte) error { return tp.remote.OnTrieNodes(tp, id, n) },
	}
	tp.accountRequestHandler = func(_ *testPeer, id uint64, root, origin, limit common.Hash, cap int) error {
		return cp.onAccounts(id, root, origin, limit, cap)
	}
	tp.storageRequestHandler = func(_ *testPeer, id uint64, root common.Hash, accounts []common.Hash, origin, limit []byte, max int) error {
		return cp.onStorage(id, root, accounts, origin, limit, max)
	}
	tp.codeRequestHandler = func(_ *testPeer, id uint64, hashes []common.Hash, max int) error {
		return cp.onCodes(id, hashes, max)
	}
	tp.trieRequestHandler = func(_ *testPeer, id uint64, root common.Hash, paths []TrieNodePathSet, cap int) error {
		return cp.onTrieNodes(id, root, paths, cap)
	}
	return tp
}

func c47NewPeerV2(t *testing.T, name string, run *c47Run, cp *c47Peer) *testPeerV2 {
	cp.run = run
	tp := newTestPeerV2(name, t, func() {})
	st := run.state
	tp.accountTrie = st.accTrie.Copy()
	tp.accountValues = st.accElems
	tp.setStorageTries(st.stTries)
	tp.storageValues = st.stElems
	cp.src = &c47Src{
		id: name, accTrie: tp.accountTrie, accVals: tp.accountValues, stTries: tp.storageTries,
		mkAcc: func(root, origin, limit common.Hash, cap int) ([]common.Hash, [][]byte, [][]byte) {
			return createAccountRequestResponseV2(tp, root, origin, limit, cap)
		},
		mkSto: func(root common.Hash, accounts []common.Hash, origin, limit []byte, max int, always bool) ([][]common.Hash, [][][]byte, [][]byte) {
			if always {
				return createStorageRequestResponseAlwaysProveV2(tp, root, accounts, origin, limit, max)
			}
			return createStorageRequestResponseV2(tp, root, accounts, origin, limit, max)
		},
		onAcc: func(id uint64, h []common.Hash, a [][]byte, pr [][]byte) error {
			return tp.remote.OnAccounts(tp, id, h, a, pr)
		},
		onSto: func(id uint64, h [][]common.Hash, sl [][][]byte, pr [][]byte) error {
			return tp.remote.OnStorage(tp, id, h, sl, pr)
		},
		onCode: func(id uint64, c [][]byte) error { return tp.remote.OnByteCodes(tp, id, c) },
		onNode: func(id uint64, n [][]byte) error { return nil },
	}
	tp.accountRequestV2Handler = func(_ *testPeerV2, id uint64, root, origin, limit common.Hash, cap int) error {
		return cp.onAccounts(id, root, origin, limit, cap)
	}
	tp.storageRequestV2Handler = func(_ *testPeerV2, id uint64, root common.Hash, accounts []common.Hash, origin, limit []byte, max int) error {
		return cp.onStorage(id, root, accounts, origin, limit, max)
	}
	tp.codeRequestHandler = func(_ *testPeerV2, id uint64, hashes []common.Hash, max int) error {
		return cp.onCodes(id, hashes, max)
	}
	return tp
}

// ---------------------------------------------------------------------------
// final comparison

func c47Compare(inner ethdb.KeyValueStore, s *c47State) error {
	var (
		accounts, slots, codes int
		pathAcc, pathSto       int
	)
	it := inner.NewIterator(nil, nil)
	defer it.Release()
	hashNodes := map[common.Hash]bool{}
	for it.Next() {
		key, val := it.Key(), it.Value()
		switch {
		case len(key) == 33 && key[0] == 'a':
			a := s.byHash[common.BytesToHash(key[1:])]
			if a == nil || !bytes.Equal(val, a.slim) {
				return fmt.Errorf("flat account %x = %x differs from the target", key[1:], val)
			}
			accounts++
		case len(key) == 65 && key[0] == 'o':
			a := s.byHash[common.BytesToHash(key[1:33])]
			if a == nil || a.st == nil {
				return fmt.Errorf("flat slot %x of an account without storage", key[1:])
			}
			slot := common.BytesToHash(key[33:])
			i := sort.Search(len(a.st.keys), func(i int) bool { return bytes.Compare(a.st.keys[i][:], slot[:]) >= 0 })
			if i == len(a.st.keys) || a.st.keys[i] != slot || !bytes.Equal(a.st.vals[i], val) {
				return fmt.Errorf("flat slot %x/%x = %x differs from the target", key[1:33], slot, val)
			}
			slots++
		case len(key) == 33 && key[0] == 'c':
			want, ok := s.codes[common.BytesToHash(key[1:])]
			if !ok || !bytes.Equal(want, val) {
				return fmt.Errorf("code %x differs from the target", key[1:])
			}
			codes++
		case s.scheme == rawdb.HashScheme && len(key) == 32:
			if common.Hash(reftrie.Keccak256(val)) != common.BytesToHash(key) {
				return fmt.Errorf("stored trie node %x does not hash to its key", key)
			}
			hashNodes[common.BytesToHash(key)] = true
		case s.scheme == rawdb.PathScheme && len(key) >= 1 && len(key) <= 65 && key[0] == 'A' && c47AllNibbles(key[1:]):
			want, ok := s.ref.Nodes[string(key[1:])]
			if !ok {
				return fmt.Errorf("stale account trie node at path %x (%x): the target trie has no node there", key[1:], val)
			}
			if !bytes.Equal(want, val) {
				return fmt.Errorf("account trie node at path %x = %x, target %x", key[1:], val, want)
			}
			pathAcc++
		case s.scheme == rawdb.PathScheme && len(key) >= 33 && len(key) <= 97 && key[0] == 'O' && c47AllNibbles(key[33:]):
			a := s.byHash[common.BytesToHash(key[1:33])]
			if a == nil || a.st == nil {
				return fmt.Errorf("storage trie node for %x which has no storage", key[1:33])
			}
			want, ok := a.st.ref.Nodes[string(key[33:])]
			if !ok {
				return fmt.Errorf("stale storage trie node of %x at path %x: the target trie has no node there", key[1:33], key[33:])
			}
			if !bytes.Equal(want, val) {
				return fmt.Errorf("storage trie node of %x at path %x = %x, target %x", key[1:33], key[33:], val, want)
			}
			pathSto++
		}
	}
	if accounts != len(s.accts) {
		return fmt.Errorf("%d flat accounts stored, target has %d", accounts, len(s.accts))
	}
	if slots != s.slots {
		return fmt.Errorf("%d flat storage slots stored, target has %d", slots, s.slots)
	}
	if codes != len(s.codes) {
		return fmt.Errorf("%d codes stored, target has %d", codes, len(s.codes))
	}
	if s.scheme == rawdb.HashScheme {
		for h := range s.ref.ByHash {
			if !hashNodes[h] {
				return fmt.Errorf("account trie node %x of the target is missing", h)
			}
		}
		for _, a := range s.accts {
			if a.st != nil {
				for h := range a.st.ref.ByHash {
					if !hashNodes[h] {
						return fmt.Errorf("storage trie node %x of account %x is missing", h, a.hash)
					}
				}
			}
		}
	} else {
		wantSto := 0
		for _, a := range s.accts {
			if a.st != nil {
				wantSto += len(a.st.ref.Nodes)
			}
		}
		if pathAcc != len(s.ref.Nodes) {
			return fmt.Errorf("%d account trie nodes stored, target trie has %d", pathAcc, len(s.ref.Nodes))
		}
		if pathSto != wantSto {
			return fmt.Errorf("%d storage trie nodes stored, target tries have %d", pathSto, wantSto)
		}
	}
	return nil
}

// ---------------------------------------------------------------------------
// the property

type c47Outcome struct {
	err     error
	stalled bool
}

// c47Sync runs one Sync cycle with a progress watchdog. A stall (no request served
// for stallAfter, or the total bound reached) cancels the cycle and is reported as
// such, never as a verdict.
func c47Sync(syncFn func(cancel chan struct{}) error, dump func() string, run *c47Run, wdb *c47DB, bound time.Duration) c47Outcome {
	progress := func() int64 { return run.served.Load() + wdb.puts.Load() }
	done := make(chan error, 1)
	go func() { done <- syncFn(run.cancel) }()
	var (
		deadline   = time.Now().Add(bound)
		lastServed = progress()
		lastMove   = time.Now()
		tick       = time.NewTicker(50 * time.Millisecond)
	)
	defer tick.Stop()
	for {
		select {
		case err := <-done:
			return c47Outcome{err: err}
		case <-tick.C:
			if n := progress(); n != lastServed {
				lastServed, lastMove = n, time.Now()
			}
			if time.Now().After(deadline) || time.Since(lastMove) > 90*time.Second {
				if c47StackDumps.Add(1) <= 2 {
					buf := make([]byte, 1<<20)
					buf = buf[:runtime.Stack(buf, true)]
					fmt.Printf("=== C47 stall: goroutines at the time of the stall (served=%d) ===\n%s\n%s\n=== end of stall dump ===\n", run.served.Load(), buf, dump())
				}
				run.cancelOnce.Do(func() { close(run.cancel) })
				err := <-done
				return c47Outcome{err: err, stalled: true}
			}
		}
	}
}

// c47DumpSyncer renders the scheduler state of a (stalled, hence quiescent) syncer.
func c47DumpSyncer(s *syncer) string {
	var sb strings.Builder
	s.lock.RLock()
	defer s.lock.RUnlock()
	// only fields guarded by s.lock: the cycle may still be running (slow, not stuck)
	fmt.Fprintf(&sb, "syncer: snapped=%v peers=%d stateless=%v\n idlers: acc=%v sto=%v code=%v heal=%v healcode=%v\n reqs: acc=%d sto=%d code=%d heal=%d healcode=%d\n",
		s.snapped, len(s.peers), s.statelessPeers, s.accountIdlers, s.storageIdlers, s.bytecodeIdlers, s.trienodeHealIdlers, s.bytecodeHealIdlers,
		len(s.accountReqs), len(s.storageReqs), len(s.bytecodeReqs), len(s.trienodeHealReqs), len(s.bytecodeHealReqs))
	return sb.String()
}

func c47GenScript(rt *rapid.T, label string, anchor bool, maxDrops *int) [4][]int {
	var out [4][]int
	for k := 0; k < 4; k++ {
		n := rapid.IntRange(1, 14).Draw(rt, fmt.Sprintf("%s/k%d/len", label, k))
		for i := 0; i < n; i++ {
			var bh int
			if k == kSto && rapid.IntRange(0, 2).Draw(rt, fmt.Sprintf("%s/k%d/%d/cap", label, k, i)) == 0 {
				bh = bhCapTiny // tiny storage replies switch the syncer to chunked large-contract mode
			} else if anchor {
				bh = rapid.IntRange(bhHonest, bhDelay).Draw(rt, fmt.Sprintf("%s/k%d/%d", label, k, i))
			} else {
				bh = rapid.IntRange(bhHonest, bhCount-1).Draw(rt, fmt.Sprintf("%s/k%d/%d", label, k, i))
				if bh == bhDrop {
					if *maxDrops == 0 {
						bh = bhCorrupt
					} else {
						*maxDrops--
					}
				}
			}
			out[k] = append(out[k], bh)
		}
	}
	return out
}

func c47ScriptString(s [4][]int) string {
	var sb strings.Builder
	for k := 0; k < 4; k++ {
		sb.WriteString("[")
		for i, b := range s[k] {
			if i > 0 {
				sb.WriteString(",")
			}
			sb.WriteString(c47BhNames[b])
		}
		sb.WriteString("]")
	}
	return sb.String()
}

func c47DrawShape(rt *rapid.T) c47Shape {
	sh := c47Shape{
		scheme:    rapid.SampledFrom([]string{rawdb.HashScheme, rawdb.PathScheme}).Draw(rt, "scheme"),
		seed:      rapid.Uint64().Draw(rt, "stateSeed"),
		hostile:   rapid.Bool().Draw(rt, "hostileKeys"),
		stShare:   rapid.SampledFrom([]int{0, 20, 60, 90, 90}).Draw(rt, "storageShare"),
		codeShare: rapid.SampledFrom([]int{0, 30, 90}).Draw(rt, "codeShare"),
	}
	maxAcc := 120
	if vs.Thorough() {
		maxAcc = 300
	}
	switch rapid.IntRange(0, 5).Draw(rt, "nAccCls") {
	case 0:
		sh.nAccounts = rapid.IntRange(1, 3).Draw(rt, "nAccTiny")
	case 1, 2:
		sh.nAccounts = rapid.IntRange(4, 30).Draw(rt, "nAccSmall")
	default:
		sh.nAccounts = rapid.IntRange(31, maxAcc).Draw(rt, "nAcc")
	}
	nTpl := rapid.IntRange(1, 3).Draw(rt, "nStorageTemplates")
	for i := 0; i < nTpl; i++ {
		switch rapid.IntRange(0, 5).Draw(rt, fmt.Sprintf("tpl%d/cls", i)) {
		case 0:
			sh.stSizes = append(sh.stSizes, 1)
		case 1, 2:
			sh.stSizes = append(sh.stSizes, rapid.IntRange(2, 12).Draw(rt, fmt.Sprintf("tpl%d/few", i)))
		case 3, 4:
			sh.stSizes = append(sh.stSizes, rapid.IntRange(20, 150).Draw(rt, fmt.Sprintf("tpl%d/mid", i)))
		default:
			sh.stSizes = append(sh.stSizes, rapid.IntRange(300, 1200).Draw(rt, fmt.Sprintf("tpl%d/big", i)))
		}
	}
	return sh
}

// c47DrawPeers draws the behaviour scripts of nPeers peers. Peer 0 of a non-malicious
// set never refuses or drops.
func c47DrawPeers(rt *rapid.T, label string, nPeers int, bad bool, drops *int) ([]*c47Peer, string) {
	var peers []*c47Peer
	var desc []string
	for i := 0; i < nPeers; i++ {
		cp := &c47Peer{rnd: c47Rand{rapid.Uint64().Draw(rt, fmt.Sprintf("%s/p%d/seed", label, i)) | 1}}
		if bad {
			for k := 0; k < 4; k++ {
				cp.script[k] = []int{rapid.SampledFrom([]int{bhCorrupt, bhNoProof, bhGap, bhAlterKey, bhSwap, bhDropProofNode}).Draw(rt, fmt.Sprintf("%s/p%d/bad%d", label, i, k))}
			}
			cp.cyclic = true
		} else {
			cp.script = c47GenScript(rt, fmt.Sprintf("%s/p%d", label, i), i == 0, drops)
			if h := rapid.SampledFrom([]int{0, 0, 1, 2, 4}).Draw(rt, fmt.Sprintf("%s/p%d/holdChunkRequests", label, i)); h > 0 && nPeers > 1 {
				cp.holds.Store(int32(h))
				cp.holdFor = int64(rapid.SampledFrom([]int{1, 2, 3, 5, 8, 13}).Draw(rt, fmt.Sprintf("%s/p%d/holdFor", label, i)))
			}
			cp.tinyFirst = rapid.IntRange(0, 3).Draw(rt, fmt.Sprintf("%s/p%d/tinyFirstStorageReply", label, i)) == 0
		}
		desc = append(desc, c47ScriptString(cp.script))
		if cp.holdFor > 0 {
			desc[len(desc)-1] += fmt.Sprintf("hold%dx%d", cp.holds.Load(), cp.holdFor)
		}
		if cp.tinyFirst {
			desc[len(desc)-1] += "tinyfirst"
		}
		peers = append(peers, cp)
	}
	return peers, strings.Join(desc, ";")
}

var c47Stalls, c47Cases atomic.Int64
var c47Slow atomic.Value
var c47StackDumps, c47DebugLines atomic.Int64

func TestVerifC47SyncV1(t *testing.T) {
	st := vs.New("C47", t)
	vs.Check(t, 1, func(rt *rapid.T) {
		c := st.Case()
		c47Cases.Add(1)
		began := time.Now()
		defer func() {
			// statistics only: how the wall time of a run is distributed
			switch d := time.Since(began); {
			case d < 200*time.Millisecond:
				c.Class("wall<0.2s")
			case d < 2*time.Second:
				c.Class("wall<2s")
			case d < 10*time.Second:
				c.Class("wall<10s")
			default:
				c.Class("wall>=10s")
				st.Note("slow run (%v): %s", d.Round(time.Second), c47Slow.Load())
			}
		}()
		sh := c47DrawShape(rt)
		state, err := c47BuildState(sh)
		if err != nil {
			t.Fatalf("VERIF-HARNESS-BUG: building the target state: %v", err)
		}
		// ---- peers
		allBad := rapid.IntRange(0, 14).Draw(rt, "allMalicious") == 0
		nPeers := rapid.IntRange(1, 4).Draw(rt, "nPeers")
		drops := 2
		ttl := rapid.SampledFrom([]time.Duration{150 * time.Millisecond, 600 * time.Millisecond, 5 * time.Second}).Draw(rt, "ttl")
		if ttl > time.Second {
			drops = 0
		}
		mkPeers := func(label string, run *c47Run, bad bool) ([]*testPeer, string) {
			cps, desc := c47DrawPeers(rt, label, nPeers, bad, &drops)
			var peers []*testPeer
			for i, cp := range cps {
				peers = append(peers, c47NewPeer(t, fmt.Sprintf("%s-peer%d", label, i), run, cp))
			}
			return peers, desc
		}
		inner := memorydb.New()
		wdb := &c47DB{KeyValueStore: inner, state: state, notes: map[string]int{}}
		cancelAt := int64(0)
		if !allBad && rapid.IntRange(0, 2).Draw(rt, "restart") == 0 {
			cancelAt = int64(rapid.IntRange(1, 60).Draw(rt, "cancelAfterRequests"))
		}
		run := &c47Run{state: state, cancel: make(chan struct{}), cancelAt: cancelAt}
		peers, desc := mkPeers("a", run, allBad)
		sy := newSyncer(wdb, sh.scheme)
		sy.rates.OverrideTTLLimit = ttl
		for _, p := range peers {
			sy.Register(p)
			p.remote = sy
		}
		c47Slow.Store(fmt.Sprintf("%+v ttl=%v cancelAt=%d allBad=%v peers=%s", sh, ttl, cancelAt, allBad, desc))
		report := func(format string, a ...any) {
			rt.Fatalf("%s\n  state: %+v root=%x\n  peers: %s\n  served=%d rejected=%d(acc %d sto %d code %d node %d) tampered=%d chunked-storage-requests=%d heal-requests=%d db-puts=%d",
				fmt.Sprintf(format, a...), sh, state.root, desc, run.served.Load(), run.rejected.Load(),
				run.rejectedBy[0].Load(), run.rejectedBy[1].Load(), run.rejectedBy[2].Load(), run.rejectedBy[3].Load(),
				run.tampered.Load(), run.chunked.Load(), run.healReqs.Load(), wdb.puts.Load())
		}
		barrier := func() {
			wdb.mu.Lock()
			v := append([]string{}, wdb.viol...)
			wdb.mu.Unlock()
			if len(v) > 0 {
				report("unverified data reached the database: %s", strings.Join(v, " | "))
			}
		}
		stalled := func(where string) {
			n := c47Stalls.Add(1)
			c.Class("inconclusive-stall/" + where)
			st.Note("stall (%s): scheme=%s accounts=%d peers=%s", where, sh.scheme, sh.nAccounts, desc)
			barrier()
			if n > 3 && n*4 > c47Cases.Load() {
				t.Fatalf("VERIF-INCONCLUSIVE: %d of %d syncs stalled (no request served for 90s or 6 min total); wall-clock stalls are not a verdict", n, c47Cases.Load())
			}
		}

		if allBad {
			// nothing but invalid data on offer: the sync must not complete; stop it after a
			// number of served requests
			run.cancelAt = int64(rapid.IntRange(20, 120).Draw(rt, "badRequests"))
			out := c47Sync(func(c chan struct{}) error { return sy.Sync(state.root, c) }, func() string { return c47DumpSyncer(sy) }, run, wdb, 3*time.Minute)
			barrier()
			if out.err == nil {
				if err := c47Compare(inner, state); err != nil {
					report("Sync returned nil although every peer only served invalid data, and the database is not the target state: %v", err)
				}
			}
			c.Class("all-malicious")
			c.Classf("scheme/%s", sh.scheme)
			c.NonTrivial(run.rejected.Load() > 0, fmt.Sprintf("bad|%+v|%s", sh, desc))
			return
		}

		out := c47Sync(func(c chan struct{}) error { return sy.Sync(state.root, c) }, func() string { return c47DumpSyncer(sy) }, run, wdb, 6*time.Minute)
		restarted := false
		if out.stalled {
			stalled("first-cycle")
			return
		}
		if out.err != nil {
			if out.err != ErrCancelled || cancelAt == 0 {
				report("Sync failed: %v", out.err)
			}
			barrier()
			// restart from the persisted progress with a fresh syncer (as after a process restart)
			restarted = true
			run2 := &c47Run{state: state, cancel: make(chan struct{})}
			peers2, desc2 := mkPeers("b", run2, false)
			desc += " || after restart: " + desc2
			sy2 := newSyncer(wdb, sh.scheme)
			sy2.rates.OverrideTTLLimit = ttl
			for _, p := range peers2 {
				sy2.Register(p)
				p.remote = sy2
			}
			out = c47Sync(func(c chan struct{}) error { return sy2.Sync(state.root, c) }, func() string { return c47DumpSyncer(sy2) }, run2, wdb, 6*time.Minute)
			run.served.Add(run2.served.Load())
			run.rejected.Add(run2.rejected.Load())
			run.tampered.Add(run2.tampered.Load())
			run.chunked.Add(run2.chunked.Load())
			run.healReqs.Add(run2.healReqs.Load())
			for k := 0; k < 4; k++ {
				run.rejectedBy[k].Add(run2.rejectedBy[k].Load())
			}
			if out.stalled {
				stalled("after-restart")
				return
			}
			if out.err != nil {
				report("Sync after restart failed: %v", out.err)
			}
		}
		barrier()
		if err := c47Compare(inner, state); err != nil {
			report("Sync returned nil but the database is not the target state: %v", err)
		}
		// the package's own completeness walk (opens the tries through a fresh triedb)
		func() {
			defer func() {
				if r := recover(); r != nil {
					report("verifyTrie panicked: %v", r)
				}
			}()
			verifyTrie(sh.scheme, inner, state.root, t)
		}()
		if t.Failed() {
			report("verifyTrie failed")
		}
		wdb.mu.Lock()
		for k, n := range wdb.notes {
			st.Note("%s: %d writes (scheme %s)", k, n, sh.scheme)
		}
		wdb.mu.Unlock()

		nt := run.rejected.Load() > 0 && run.chunked.Load() > 0
		c.NonTrivial(nt, fmt.Sprintf("v1|%+v|%s|%d", sh, desc, cancelAt))
		c.Classf("scheme/%s", sh.scheme)
		c.Classf("restart=%v", restarted)
		c.Classf("rejected>0=%v", run.rejected.Load() > 0)
		c.Classf("chunked-storage=%v", run.chunked.Load() > 0)
		c.Classf("healing=%v", run.healReqs.Load() > 1)
		for k, name := range []string{"acc", "sto", "code", "node"} {
			if run.rejectedBy[k].Load() > 0 {
				c.Class("rejected/" + name)
			}
		}
		c.Sample(nt, func() any {
			return map[string]any{"state": fmt.Sprintf("%+v", sh), "peers": desc, "cancelAfter": cancelAt,
				"served": run.served.Load(), "rejected": run.rejected.Load(), "chunkedStorageRequests": run.chunked.Load(), "healRequests": run.healReqs.Load()}
		})
	})
	// rapid ends a run early (and reports success) when the test deadline comes close;
	// a budget eaten by stalls must not look like a full run
	if f := flag.Lookup("rapid.checks"); f != nil && !t.Failed() {
		if want, _ := strconv.Atoi(f.Value.String()); int(c47Cases.Load()) < want {
			t.Fatalf("VERIF-INCONCLUSIVE: only %d of %d syncs were run before the deadline (%d stalled)", c47Cases.Load(), want, c47Stalls.Load())
		}
	}
}

// c47DumpSyncerV2 renders the scheduler state of a stalled snap/2 syncer.
func c47DumpSyncerV2(s *syncerV2) string {
	s.lock.RLock()
	defer s.lock.RUnlock()
	return fmt.Sprintf("syncerV2: phase=%d peers=%d stateless=%v idlers: acc=%v sto=%v code=%v reqs: acc=%d sto=%d code=%d",
		s.getPhase(), len(s.peers), s.statelessPeers, s.accountIdlers, s.storageIdlers, s.bytecodeIdlers,
		len(s.accountReqs), len(s.storageReqs), len(s.bytecodeReqs))
}

var c47CasesV2 atomic.Int64

// TestVerifC47SyncV2: the snap/2 syncer against a fixed pivot (flat-state download from
// scripted peers, then local trie generation), with cancel + restart. Pivot moves and
// access-list catch-up are generated by TestVerifC47PivotV2 (c47_pivot_test.go).
func TestVerifC47SyncV2(t *testing.T) {
	st := vs.New("C47", t)
	vs.Check(t, 0.5, func(rt *rapid.T) {
		c := st.Case()
		c47CasesV2.Add(1)
		sh := c47DrawShape(rt)
		state, err := c47BuildState(sh)
		if err != nil {
			t.Fatalf("VERIF-HARNESS-BUG: building the target state: %v", err)
		}
		nPeers := rapid.IntRange(1, 4).Draw(rt, "nPeers")
		drops := 2
		ttl := rapid.SampledFrom([]time.Duration{150 * time.Millisecond, 600 * time.Millisecond, 5 * time.Second}).Draw(rt, "ttl")
		if ttl > time.Second {
			drops = 0
		}
		inner := memorydb.New()
		wdb := &c47DB{KeyValueStore: inner, state: state, notes: map[string]int{}}
		db := rawdb.NewDatabase(wdb)
		pivot := mkPivot(0, state.root)
		var cancelAt, cancelChunked int64
		switch rapid.IntRange(0, 5).Draw(rt, "restart") {
		case 0, 1:
			cancelAt = int64(rapid.IntRange(1, 60).Draw(rt, "cancelAfterRequests"))
		case 2: // in the middle of a large-contract retrieval (no effect if there is none)
			cancelChunked = int64(rapid.IntRange(1, 12).Draw(rt, "cancelAfterChunkReplies"))
		}
		var desc string
		start := func(label string, run *c47Run) *syncerV2 {
			cps, d := c47DrawPeers(rt, label, nPeers, false, &drops)
			if desc != "" {
				desc += " || after restart: "
			}
			desc += d
			sy := newSyncerV2(db, sh.scheme)
			sy.rates.OverrideTTLLimit = ttl
			for i, cp := range cps {
				p := c47NewPeerV2(t, fmt.Sprintf("%s-peer%d", label, i), run, cp)
				sy.Register(p)
				p.remote = sy
			}
			return sy
		}
		run := &c47Run{state: state, cancel: make(chan struct{}), cancelAt: cancelAt, cancelChunked: cancelChunked, holdCancel: cancelAt+cancelChunked > 0}
		total := run
		sy := start("a", run)
		report := func(format string, a ...any) {
			rt.Fatalf("%s\n  snap/2 state: %+v root=%x\n  peers: %s\n  served=%d rejected=%d(acc %d sto %d code %d) tampered=%d chunked-storage-requests=%d",
				fmt.Sprintf(format, a...), sh, state.root, desc, total.served.Load(), total.rejected.Load(),
				total.rejectedBy[0].Load(), total.rejectedBy[1].Load(), total.rejectedBy[2].Load(), total.tampered.Load(), total.chunked.Load())
		}
		barrier := func() {
			wdb.mu.Lock()
			v := append([]string{}, wdb.viol...)
			wdb.mu.Unlock()
			if len(v) > 0 {
				report("unverified data reached the database: %s", strings.Join(v, " | "))
			}
		}
		stalled := func(where string) {
			n := c47Stalls.Add(1)
			c.Class("inconclusive-stall/" + where)
			st.Note("snap/2 stall (%s): scheme=%s accounts=%d peers=%s", where, sh.scheme, sh.nAccounts, desc)
			barrier()
			if n > 3 && n*4 > c47CasesV2.Load()+c47Cases.Load() {
				t.Fatalf("VERIF-INCONCLUSIVE: %d syncs stalled; wall-clock stalls are not a verdict", n)
			}
		}
		out := c47Sync(func(cc chan struct{}) error { return sy.Sync(pivot, cc) }, func() string { return c47DumpSyncerV2(sy) }, run, wdb, 6*time.Minute)
		restarted, multiChunk, openBeforeFetched := false, false, false
		if out.stalled {
			stalled("first-cycle")
			return
		}
		if out.err != nil {
			if cancelAt == 0 && cancelChunked == 0 {
				report("snap/2 Sync failed: %v", out.err)
			}
			barrier()
			restarted = true
			if j := c47pJournal(inner); j != nil {
				multiChunk, openBeforeFetched = c47pChunkState(j)
			}
			run2 := &c47Run{state: state, cancel: make(chan struct{})}
			sy2 := start("b", run2)
			out = c47Sync(func(cc chan struct{}) error { return sy2.Sync(pivot, cc) }, func() string { return c47DumpSyncerV2(sy2) }, run2, wdb, 6*time.Minute)
			run.served.Add(run2.served.Load())
			run.rejected.Add(run2.rejected.Load())
			run.tampered.Add(run2.tampered.Load())
			run.chunked.Add(run2.chunked.Load())
			for k := 0; k < 4; k++ {
				run.rejectedBy[k].Add(run2.rejectedBy[k].Load())
			}
			if out.stalled {
				stalled("after-restart")
				return
			}
			if out.err != nil {
				report("snap/2 Sync after restart failed: %v", out.err)
			}
		}
		barrier()
		if err := c47Compare(inner, state); err != nil {
			report("snap/2 Sync returned nil but the database is not the target state: %v", err)
		}
		verifyTrie(sh.scheme, inner, state.root, t)
		verifyAdoptedSyncedState(sh.scheme, inner, state.root, state.accElems, t)
		// AdoptSyncedState may have written bookkeeping; the flat state must be untouched
		if err := c47CompareFlat(inner, state); err != nil {
			report("flat state changed by adopting the synced state: %v", err)
		}
		nt := run.rejected.Load() > 0 && run.chunked.Load() > 0
		c.NonTrivial(nt, fmt.Sprintf("v2|%+v|%s|%d|%d", sh, desc, cancelAt, cancelChunked))
		c.Classf("v2/scheme/%s", sh.scheme)
		c.Classf("v2/restart=%v", restarted)
		c.Classf("v2/rejected>0=%v", run.rejected.Load() > 0)
		c.Classf("v2/chunked-storage=%v", run.chunked.Load() > 0)
		c.Classf("v2/restart-with-multi-chunk-contract=%v", multiChunk)
		c.Classf("v2/restart-with-open-chunk-before-fetched-slots=%v", openBeforeFetched)
		c.Sample(nt, func() any {
			return map[string]any{"protocol": "snap/2", "state": fmt.Sprintf("%+v", sh), "peers": desc, "cancelAfter": cancelAt, "cancelAfterChunkReplies": cancelChunked,
				"served": run.served.Load(), "rejected": run.rejected.Load(), "chunkedStorageRequests": run.chunked.Load()}
		})
	})
}

// c47CompareFlat checks only the flat accounts and slots (exactly the target's).
func c47CompareFlat(inner ethdb.KeyValueStore, s *c47State) error {
	accounts, slots := 0, 0
	it := inner.NewIterator(nil, nil)
	defer it.Release()
	for it.Next() {
		key, val := it.Key(), it.Value()
		switch {
		case len(key) == 33 && key[0] == 'a':
			if a := s.byHash[common.BytesToHash(key[1:])]; a == nil || !bytes.Equal(val, a.slim) {
				return fmt.Errorf("flat account %x = %x differs from the target", key[1:], val)
			}
			accounts++
		case len(key) == 65 && key[0] == 'o':
			slots++
		}
	}
	if accounts != len(s.accts) || slots != s.slots {
		return fmt.Errorf("%d flat accounts / %d slots stored, target has %d / %d", accounts, slots, len(s.accts), s.slots)
	}
	return nil
}
