//go:build verif

package catalyst

// C36: blocks built locally are valid blocks.
//
// Statement: for any pool contents (including failing, reverting, blob and set-code
// transactions) and payload attributes, a block produced by the block builder is
// accepted by block import with the same state root, receipts root, bloom, gas used
// and access-list hash, and submitting it back through the engine API reports it
// valid.
//
// One case = one full node (startEthService) on a worldgen genesis under Cancun,
// Prague, Osaka or Amsterdam rules, 1-3 consecutive payload rounds. Per round the
// pool is filled through TxPool().Add with worldgen transactions of every type
// (materialised against the head state and the pool nonces), blob transactions with
// real KZG sidecars, a nonce-gapped and an underpriced transaction, and (Prague+) a
// "drain" pair: a delegated account whose balance is moved away by an earlier
// transaction of the same block, so that its own pending transaction fails inside the
// builder and has to be rolled back. Then ForkchoiceUpdated(attrs) -> full payload P:
//
//	(1) NewPayload(P) on the building node reports VALID with latestValidHash = P;
//	(2) an independent core.BlockChain (fresh database, same genesis) imports
//	    ExecutableDataToBlock(P) through InsertChain; the stored header then carries P's
//	    state root / receipts root / bloom / gas used / requests hash / access-list hash,
//	    the stored receipts re-derive receipts root and bloom, the state root opens;
//	(3) block-level rules recomputed here: attributes echoed, gas used <= gas limit,
//	    gas limit step, blob count/blob gas, per-sender nonces contiguous from the parent
//	    state, fee cap >= base fee, blob fee cap >= blob base fee, EIP-7825 cap;
//	(4) Miner.BuildTestingPayload with P's transaction list and attributes reproduces
//	    P's block hash;
//	(5) the versioned GetPayload endpoint returns the same block.
//
// TestVerifC36ForkCrossing runs the same rounds and the same oracle on node instances
// whose genesis schedules the next fork(s) a few seconds after the genesis time
// (Cancun -> Prague -> Osaka -> BPO1 -> BPO2, one or two time-based activations, BPO
// entries with drawn target / max / update fraction) and whose genesis header carries a
// hot blob market (excess blob gas / blob gas used around the old and the new target).
// The payload timestamps lie before, exactly at (or shortly after) and after the
// activation times, so the first block of a fork is built on a parent of the previous
// fork; each round talks to the engine API version of its own timestamp.
//
// Bounded waits (payload construction, pool reset) that expire make the run
// VERIF-INCONCLUSIVE, never a violation.

import (
	"bytes"
	"context"
	"fmt"
	"math/big"
	"sort"
	"strings"
	"testing"
	"time"

	"github.com/ethereum/go-ethereum/beacon/engine"
	"github.com/ethereum/go-ethereum/common"
	"github.com/ethereum/go-ethereum/common/hexutil"
	"github.com/ethereum/go-ethereum/consensus/beacon"
	"github.com/ethereum/go-ethereum/consensus/ethash"
	"github.com/ethereum/go-ethereum/consensus/misc/eip1559"
	"github.com/ethereum/go-ethereum/consensus/misc/eip4844"
	"github.com/ethereum/go-ethereum/core"
	"github.com/ethereum/go-ethereum/core/rawdb"
	"github.com/ethereum/go-ethereum/core/state"
	"github.com/ethereum/go-ethereum/core/types"
	"github.com/ethereum/go-ethereum/crypto"
	"github.com/ethereum/go-ethereum/crypto/kzg4844"
	"github.com/ethereum/go-ethereum/eth/ethconfig"
	"github.com/ethereum/go-ethereum/internal/verifx/worldgen"
	"github.com/ethereum/go-ethereum/miner"
	"github.com/ethereum/go-ethereum/params"
	"github.com/ethereum/go-ethereum/params/forks"
	"github.com/ethereum/go-ethereum/trie"
	"github.com/holiman/uint256"
	"pgregory.net/rapid"
	ep "verif.local/kit/evmprog"
	vs "verif.local/kit/stat"
)

// ---- engine API per fork -----------------------------------------------------------

type c36Fork struct {
	variant    worldgen.Variant
	fcu        func(*ConsensusAPI, engine.ForkchoiceStateV1, *engine.PayloadAttributes) (engine.ForkChoiceResponse, error)
	getPayload func(*ConsensusAPI, engine.PayloadID) (*engine.ExecutionPayloadEnvelope, error)
	newPayload func(*ConsensusAPI, *engine.ExecutionPayloadEnvelope, []common.Hash, *common.Hash) (engine.PayloadStatusV1, error)
}

func c36Requests(e *engine.ExecutionPayloadEnvelope) []hexutil.Bytes {
	reqs := make([]hexutil.Bytes, len(e.Requests))
	for i, r := range e.Requests {
		reqs[i] = r
	}
	return reqs
}

func c36FcuV3(api *ConsensusAPI, s engine.ForkchoiceStateV1, a *engine.PayloadAttributes) (engine.ForkChoiceResponse, error) {
	return api.ForkchoiceUpdatedV3(context.Background(), s, a)
}

func c36NewPayloadV4(api *ConsensusAPI, e *engine.ExecutionPayloadEnvelope, h []common.Hash, r *common.Hash) (engine.PayloadStatusV1, error) {
	return api.NewPayloadV4(context.Background(), *e.ExecutionPayload, h, r, c36Requests(e))
}

var c36Forks = []c36Fork{
	{
		variant: worldgen.VariantByName("cancun"),
		fcu:     c36FcuV3,
		getPayload: func(api *ConsensusAPI, id engine.PayloadID) (*engine.ExecutionPayloadEnvelope, error) {
			return api.GetPayloadV3(id)
		},
		newPayload: func(api *ConsensusAPI, e *engine.ExecutionPayloadEnvelope, h []common.Hash, r *common.Hash) (engine.PayloadStatusV1, error) {
			return api.NewPayloadV3(context.Background(), *e.ExecutionPayload, h, r)
		},
	},
	{
		variant: worldgen.VariantByName("prague"),
		fcu:     c36FcuV3,
		getPayload: func(api *ConsensusAPI, id engine.PayloadID) (*engine.ExecutionPayloadEnvelope, error) {
			return api.GetPayloadV4(id)
		},
		newPayload: c36NewPayloadV4,
	},
	{
		variant: worldgen.VariantByName("osaka"),
		fcu:     c36FcuV3,
		getPayload: func(api *ConsensusAPI, id engine.PayloadID) (*engine.ExecutionPayloadEnvelope, error) {
			return api.GetPayloadV5(id)
		},
		newPayload: c36NewPayloadV4,
	},
	{
		variant: worldgen.VariantByName("amsterdam"),
		fcu: func(api *ConsensusAPI, s engine.ForkchoiceStateV1, a *engine.PayloadAttributes) (engine.ForkChoiceResponse, error) {
			return api.ForkchoiceUpdatedV4(context.Background(), s, a, nil)
		},
		getPayload: func(api *ConsensusAPI, id engine.PayloadID) (*engine.ExecutionPayloadEnvelope, error) {
			return api.GetPayloadV6(id)
		},
		newPayload: func(api *ConsensusAPI, e *engine.ExecutionPayloadEnvelope, h []common.Hash, r *common.Hash) (engine.PayloadStatusV1, error) {
			return api.NewPayloadV5(context.Background(), *e.ExecutionPayload, h, r, c36Requests(e))
		},
	},
}

// c36ForkAt selects the engine API version set for a payload with the given timestamp.
func c36ForkAt(cfg *params.ChainConfig, ts uint64) c36Fork {
	switch f := cfg.LatestFork(ts); {
	case f >= forks.Amsterdam:
		return c36Forks[3]
	case f >= forks.Osaka: // Osaka, BPO1, BPO2
		return c36Forks[2]
	case f >= forks.Prague:
		return c36Forks[1]
	default:
		return c36Forks[0]
	}
}

// ---- fork-crossing instances -------------------------------------------------------

func c36Pick(rt *rapid.T, label string, w []int) int {
	total := 0
	for _, x := range w {
		total += x
	}
	r := ep.Uniform(rt, label, total)
	for i, x := range w {
		if r < x {
			return i
		}
		r -= x
	}
	return len(w) - 1
}

// c36Seq is the activation order of the time-based forks the crossing instances use.
var c36Seq = []string{"cancun", "prague", "osaka", "bpo1", "bpo2"}

// c36BPOConfigs are the blob parameter sets a BPO entry is drawn from: the defaults of
// BPO1..BPO3, a schedule equal to Prague's (a fork that changes nothing), one with a
// lower target than Prague and a minimal one.
var c36BPOConfigs = []params.BlobConfig{
	{Target: 10, Max: 15, UpdateFraction: 8346193},
	{Target: 14, Max: 21, UpdateFraction: 11684671},
	{Target: 21, Max: 32, UpdateFraction: 20609697},
	{Target: 6, Max: 9, UpdateFraction: 5007716},
	{Target: 4, Max: 8, UpdateFraction: 4173096},
	{Target: 1, Max: 2, UpdateFraction: 1112826},
}

type c36Crossing struct {
	name  string   // e.g. "prague>osaka>bpo1"
	base  string   // worldgen variant of the rules active at genesis
	times []uint64 // activation times, ascending (two forks may share one)
	plan  []uint64 // payload timestamps, strictly ascending
	desc  string
}

// c36DrawCrossing draws the fork schedule and applies it to cfg (a private copy).
func c36DrawCrossing(rt *rapid.T, cfg *params.ChainConfig, base int, genesisTime uint64) *c36Crossing {
	x := &c36Crossing{name: c36Seq[base], base: c36Seq[min(base, 2)]}
	bs := *cfg.BlobScheduleConfig
	cfg.BlobScheduleConfig = &bs
	set := func(i int, t uint64) {
		tp := new(uint64)
		*tp = t
		switch c36Seq[i] {
		case "prague":
			cfg.PragueTime = tp
		case "osaka":
			cfg.OsakaTime = tp
		case "bpo1":
			bc := c36BPOConfigs[ep.Uniform(rt, "bpo1-config", len(c36BPOConfigs))]
			cfg.BPO1Time, bs.BPO1 = tp, &bc
		case "bpo2":
			bc := c36BPOConfigs[ep.Uniform(rt, "bpo2-config", len(c36BPOConfigs))]
			cfg.BPO2Time, bs.BPO2 = tp, &bc
		}
	}
	if base == 3 {
		set(3, 0) // BPO1 active from genesis
	}
	nforks := 1
	if len(c36Seq)-1-base >= 2 && c36Pick(rt, "crossing-forks", []int{3, 2}) == 1 {
		nforks = 2
	}
	at := genesisTime + []uint64{2, 3, 6, 12, 24}[ep.Uniform(rt, "fork-delay", 5)]
	for k := 1; k <= nforks; k++ {
		if k == 2 {
			at += []uint64{0, 1, 4, 12}[ep.Uniform(rt, "fork-delay-2", 4)]
		}
		set(base+k, at)
		x.times = append(x.times, at)
		x.name += ">" + c36Seq[base+k]
	}
	if err := cfg.CheckConfigForkOrder(); err != nil {
		rt.Fatalf("VERIF-HARNESS-BUG: crossing configuration rejected: %v", err)
	}

	// Payload timestamps: 0-2 blocks of the old fork, one block at (or 1 / 5 seconds
	// after) every activation time, one block after.
	prev := genesisTime
	for i := 0; i < 2 && x.times[0]-prev >= 2; i++ {
		if c36Pick(rt, "pre-fork-block", []int{1 + 2*i, 3 - i}) == 0 {
			break
		}
		prev += 1 + uint64(ep.Uniform(rt, "pre-fork-step", int(x.times[0]-prev-1)))
		x.plan = append(x.plan, prev)
	}
	for i, f := range x.times {
		if i > 0 && f == x.times[i-1] {
			continue
		}
		t := f + []uint64{0, 0, 0, 1, 5}[ep.Uniform(rt, "fork-block-offset", 5)]
		if i+1 < len(x.times) && x.times[i+1] > f && t >= x.times[i+1] {
			t = f
		}
		if t <= prev {
			t = prev + 1
		}
		x.plan = append(x.plan, t)
		prev = t
	}
	x.plan = append(x.plan, prev+[]uint64{1, 5, 12, 1000}[ep.Uniform(rt, "time-step", 4)])
	x.desc = fmt.Sprintf("%s activation times %v (genesis time %d), payload timestamps %v, blob schedule cancun=%v prague=%v bpo1=%v bpo2=%v",
		x.name, x.times, genesisTime, x.plan, bs.Cancun, bs.Prague, bs.BPO1, bs.BPO2)
	return x
}

// c36ExtraPlan synthesises a block plan when the crossing needs more rounds than the
// world has block plans.
func c36ExtraPlan(rt *rapid.T, w *worldgen.World) *worldgen.BlockPlan {
	bp := &worldgen.BlockPlan{Coinbase: worldgen.FreshCoinbase, CoinbaseClass: "fresh"}
	if rapid.Bool().Draw(rt, "extra-coinbase-sender") {
		bp.Coinbase, bp.CoinbaseClass = worldgen.Keys[ep.Uniform(rt, "coinbase-key", len(worldgen.Keys))].Addr, "sender"
	}
	for k, nw := 0, ep.Uniform(rt, "extra-withdrawals", 3); k < nw; k++ {
		bp.Withdrawals = append(bp.Withdrawals, &types.Withdrawal{Validator: uint64(200 + k), Address: w.Pool[ep.Uniform(rt, "withdrawal-address", len(w.Pool))],
			Amount: []uint64{0, 1, 1_000_000_000}[ep.Uniform(rt, "withdrawal-amount", 3)]})
	}
	for k, ntx := 0, ep.Uniform(rt, "extra-ntxs", 5); k < ntx; k++ {
		bp.Txs = append(bp.Txs, w.DrawPlan(rt))
	}
	return bp
}

// ---- extra accounts ----------------------------------------------------------------

func c36Key(scalar byte) worldgen.Key {
	var b [32]byte
	b[31] = scalar
	k, err := crypto.ToECDSA(b[:])
	if err != nil {
		panic(err)
	}
	return worldgen.Key{Priv: k, Addr: crypto.PubkeyToAddress(k.PublicKey)}
}

var (
	c36BlobKeys   = []worldgen.Key{c36Key(11), c36Key(12), c36Key(13), c36Key(18)}
	c36ReqKey     = c36Key(19) // sends EIP-7002 / EIP-7251 requests
	c36VictimKey  = c36Key(14) // delegated to the drainer
	c36AttackKey  = c36Key(15)
	c36GapKey     = c36Key(16)
	c36CheapKey   = c36Key(17)
	c36DrainerAt  = common.HexToAddress("0xd7a1000000000000000000000000000000000001")
	c36DrainSink  = common.HexToAddress("0xd7a1000000000000000000000000000000000002")
	c36TimeoutSec = 180
)

// c36DrainerCode sends the whole balance of the executing account to the sink.
func c36DrainerCode() []byte {
	a := ep.NewAsm(true)
	a.PushU(0).PushU(0).PushU(0).PushU(0).Op(ep.SELFBALANCE).PushAddr([20]byte(c36DrainSink)).Op(ep.GAS, ep.CALL, ep.POP, ep.STOP)
	return a.MustBytes()
}

// c36TB turns fatal errors of the node helpers into inconclusive runs: a node that does
// not start says nothing about the property.
type c36TB struct{ testing.TB }

func (t c36TB) Fatal(args ...any) {
	t.TB.Fatal(append([]any{"VERIF-INCONCLUSIVE node helper failed:"}, args...)...)
}
func (t c36TB) Fatalf(format string, args ...any) {
	t.TB.Fatalf("VERIF-INCONCLUSIVE node helper failed: "+format, args...)
}

// ---- pool view for worldgen.Materialize ------------------------------------------------

type c36View struct {
	st   *state.StateDB
	pool interface{ PoolNonce(common.Address) uint64 }
}

func (v c36View) GetBalance(a common.Address) *uint256.Int { return v.st.GetBalance(a) }
func (v c36View) GetNonce(a common.Address) uint64         { return v.pool.PoolNonce(a) }

// ---- the property ----------------------------------------------------------------------

type c36Run struct {
	t     *testing.T
	st    *vs.S
	incon string // set when a bounded wait expired
}

func (r *c36Run) wait(what string, f func()) bool {
	done := make(chan struct{})
	go func() { defer close(done); f() }()
	select {
	case <-done:
		return true
	case <-time.After(time.Duration(c36TimeoutSec) * time.Second):
		r.incon = what
		return false
	}
}

func c36BlobTx(cfg *params.ChainConfig, key worldgen.Key, nonce uint64, nblobs, offset int, version byte, feeCap, tip, blobCap *big.Int, to common.Address, gas uint64) *types.Transaction {
	var (
		blobs   []kzg4844.Blob
		commits []kzg4844.Commitment
		proofs  []kzg4844.Proof
		hashes  []common.Hash
	)
	for i := 0; i < nblobs; i++ {
		j := (offset + i) % len(testBlobs)
		blobs = append(blobs, *testBlobs[j])
		commits = append(commits, testBlobCommits[j])
		if version == types.BlobSidecarVersion0 {
			proofs = append(proofs, testBlobProofs[j])
		} else {
			proofs = append(proofs, testBlobCellProofs[j]...)
		}
		hashes = append(hashes, testBlobVHashes[j])
	}
	inner := &types.BlobTx{
		ChainID:    uint256.MustFromBig(cfg.ChainID),
		Nonce:      nonce,
		GasTipCap:  uint256.MustFromBig(tip),
		GasFeeCap:  uint256.MustFromBig(feeCap),
		Gas:        gas,
		To:         to,
		Value:      uint256.NewInt(100),
		BlobFeeCap: uint256.MustFromBig(blobCap),
		BlobHashes: hashes,
		Sidecar:    types.NewBlobTxSidecar(version, blobs, commits, proofs),
	}
	return types.MustSignNewTx(key.Priv, types.LatestSigner(cfg), inner)
}

func c36ErrClass(err error) string {
	if err == nil {
		return "accepted"
	}
	s := err.Error()
	for _, k := range []string{"insufficient funds", "underpriced", "nonce too low", "nonce too high", "exceeds block gas limit", "gas limit too high",
		"intrinsic gas too low", "already known", "replacement transaction underpriced", "in-flight transaction limit", "delegat", "authority",
		"max initcode size", "gapped", "account limit", "oversized", "floor data gas", "tx fee", "blob"} {
		if strings.Contains(s, k) {
			return "pool-reject:" + k
		}
	}
	return "pool-reject:other"
}

func c36DiffHeaders(a, b *types.Header) string {
	var d []string
	add := func(name string, x, y any) {
		if fmt.Sprint(x) != fmt.Sprint(y) {
			d = append(d, fmt.Sprintf("%s: %v != %v", name, x, y))
		}
	}
	ptr := func(p *common.Hash) string {
		if p == nil {
			return "nil"
		}
		return p.Hex()
	}
	u := func(p *uint64) string {
		if p == nil {
			return "nil"
		}
		return fmt.Sprint(*p)
	}
	add("parentHash", a.ParentHash, b.ParentHash)
	add("coinbase", a.Coinbase, b.Coinbase)
	add("stateRoot", a.Root, b.Root)
	add("txHash", a.TxHash, b.TxHash)
	add("receiptsRoot", a.ReceiptHash, b.ReceiptHash)
	add("bloom", common.Bytes2Hex(a.Bloom[:]), common.Bytes2Hex(b.Bloom[:]))
	add("number", a.Number, b.Number)
	add("gasLimit", a.GasLimit, b.GasLimit)
	add("gasUsed", a.GasUsed, b.GasUsed)
	add("time", a.Time, b.Time)
	add("extra", common.Bytes2Hex(a.Extra), common.Bytes2Hex(b.Extra))
	add("mixDigest", a.MixDigest, b.MixDigest)
	add("baseFee", a.BaseFee, b.BaseFee)
	add("withdrawalsHash", ptr(a.WithdrawalsHash), ptr(b.WithdrawalsHash))
	add("blobGasUsed", u(a.BlobGasUsed), u(b.BlobGasUsed))
	add("excessBlobGas", u(a.ExcessBlobGas), u(b.ExcessBlobGas))
	add("parentBeaconRoot", ptr(a.ParentBeaconRoot), ptr(b.ParentBeaconRoot))
	add("requestsHash", ptr(a.RequestsHash), ptr(b.RequestsHash))
	add("blockAccessListHash", ptr(a.BlockAccessListHash), ptr(b.BlockAccessListHash))
	add("slotNumber", u(a.SlotNumber), u(b.SlotNumber))
	if len(d) == 0 {
		return "(no header field differs)"
	}
	return strings.Join(d, "; ")
}

func TestVerifC36Build(t *testing.T) {
	run := &c36Run{t: t, st: vs.New("C36", t)}
	// Newest rule set first: rapid's early, small draws favour low indices and the later
	// forks have the most builder logic (blob cells, access lists, two-dimensional gas).
	var variants []worldgen.Variant
	for i := len(c36Forks) - 1; i >= 0; i-- {
		variants = append(variants, c36Forks[i].variant)
	}
	vs.Check(t, 1, func(rt *rapid.T) {
		if run.incon != "" {
			return // a bounded wait expired earlier: the run is inconclusive, stop spending time
		}
		run.one(rt, variants, false)
	})
	if run.incon != "" {
		t.Fatalf("VERIF-INCONCLUSIVE bounded wait expired: %s", run.incon)
	}
}

// TestVerifC36ForkCrossing: node instances that cross one or two fork activations.
func TestVerifC36ForkCrossing(t *testing.T) {
	run := &c36Run{t: t, st: vs.New("C36", t)}
	vs.Check(t, 0.4, func(rt *rapid.T) {
		if run.incon != "" {
			return
		}
		run.one(rt, nil, true)
	})
	if run.incon != "" {
		t.Fatalf("VERIF-INCONCLUSIVE bounded wait expired: %s", run.incon)
	}
}

const c36GenesisTime = 9000

func (r *c36Run) one(rt *rapid.T, variants []worldgen.Variant, crossing bool) {
	c := r.st.Case()
	base := 0
	if crossing {
		base = ep.Uniform(rt, "crossing-base", 4) // cancun, prague, osaka, bpo1 active at genesis
		variants = []worldgen.Variant{worldgen.VariantByName(c36Seq[min(base, 2)])}
	}
	w := worldgen.Draw(rt, worldgen.Options{Variants: variants, MaxBlocks: 3, MaxTxs: 10, NoBlobs: true, NoUncles: true})
	cfg := w.Config
	var cross *c36Crossing
	if crossing {
		cc := *w.Config
		cfg = &cc
		cross = c36DrawCrossing(rt, cfg, base, c36GenesisTime)
		c.Class("crossing:" + cross.name)
		rt.Logf("fork crossing: %s", cross.desc)
	} else {
		c.Class("fork:" + w.Variant.Name)
	}
	genesisPrague := cfg.IsPrague(new(big.Int), c36GenesisTime)

	// Genesis: worldgen's, plus the accounts of the local transaction constructors.
	gen := *w.Genesis
	gen.Config = cfg
	gen.Difficulty = new(big.Int)
	gen.Timestamp = c36GenesisTime
	alloc := types.GenesisAlloc{}
	for a, acc := range w.Genesis.Alloc {
		alloc[a] = acc
	}
	blocks := w.Blocks
	if crossing {
		// The system contracts of the scheduled forks are deployed before the activation.
		for a, acc := range worldgen.SystemAlloc(worldgen.VariantByName("osaka")) {
			alloc[a] = acc
		}
		// A hot blob market at genesis: excess blob gas / blob gas used around the targets of
		// the schedule active at genesis and of the first scheduled one (in blobs).
		oldT := uint64(eip4844.TargetBlobsPerBlock(cfg, c36GenesisTime))
		newT := uint64(eip4844.TargetBlobsPerBlock(cfg, cross.times[0]))
		lo, hi := min(oldT, newT), max(oldT, newT)
		oldMax := uint64(eip4844.MaxBlobsPerBlock(cfg, c36GenesisTime))
		excess := []uint64{0, (lo - 1) * params.BlobTxBlobGasPerBlob, lo * params.BlobTxBlobGasPerBlob, (lo + hi + 1) / 2 * params.BlobTxBlobGasPerBlob,
			hi * params.BlobTxBlobGasPerBlob, (hi + 4) * params.BlobTxBlobGasPerBlob, (hi + 40) * params.BlobTxBlobGasPerBlob, 10_000_000,
			60_000_000}[c36Pick(rt, "genesis-excess-blob-gas", []int{2, 2, 2, 3, 2, 3, 2, 1, 1})]
		used := []uint64{0, 1, oldT, oldMax}[c36Pick(rt, "genesis-blob-gas-used", []int{3, 1, 2, 2})] * params.BlobTxBlobGasPerBlob
		gen.ExcessBlobGas, gen.BlobGasUsed = &excess, &used
		rt.Logf("genesis excessBlobGas %d blobGasUsed %d", excess, used)
		blocks = append([]*worldgen.BlockPlan{}, w.Blocks...)
		if len(blocks) > len(cross.plan) {
			blocks = blocks[:len(cross.plan)]
		}
		for len(blocks) < len(cross.plan) {
			blocks = append(blocks, c36ExtraPlan(rt, w))
		}
	}
	eth1 := new(big.Int).Exp(big.NewInt(10), big.NewInt(18), nil)
	for _, k := range append(append([]worldgen.Key{}, c36BlobKeys...), c36AttackKey, c36GapKey, c36CheapKey, c36ReqKey) {
		alloc[k.Addr] = types.Account{Balance: new(big.Int).Mul(big.NewInt(100), eth1)}
	}
	alloc[c36DrainerAt] = types.Account{Nonce: 1, Code: c36DrainerCode(), Balance: new(big.Int)}
	if genesisPrague {
		alloc[c36VictimKey.Addr] = types.Account{Nonce: 1, Code: types.AddressToDelegation(c36DrainerAt), Balance: new(big.Int).Div(eth1, big.NewInt(20))}
	}
	gen.Alloc = alloc
	genesis := &gen

	tipFloor := int64(1)
	n, ethservice := startEthService(c36TB{r.t}, genesis, nil, func(c *ethconfig.Config) {
		c.Miner.GasPrice = big.NewInt(tipFloor)
		c.Miner.GasCeil = []uint64{60_000_000, 30_000_000, 20_000_000}[ep.Uniform(rt, "gas-ceil", 3)]
	})
	defer n.Close()
	if rapid.Bool().Draw(rt, "allow-zero-tip") {
		ethservice.Miner().SetGasTip(new(big.Int))
		ethservice.TxPool().SetGasTip(new(big.Int))
		tipFloor = 0
		c.Class("builder:zero-tip-allowed")
	}
	api := newConsensusAPIWithoutHeartbeat(ethservice)
	chain := ethservice.BlockChain()

	ccfg := core.DefaultConfig()
	ccfg.SnapshotLimit = 0
	chain2, err := core.NewBlockChain(rawdb.NewMemoryDatabase(), genesis, beacon.New(ethash.NewFaker()), ccfg)
	if err != nil {
		rt.Fatalf("VERIF-HARNESS-BUG: second chain: %v", err)
	}
	defer chain2.Stop()
	if chain2.Genesis().Hash() != chain.Genesis().Hash() {
		rt.Fatalf("VERIF-HARNESS-BUG: genesis hashes differ")
	}

	signer := types.LatestSigner(cfg)
	sidecars := map[common.Hash]*types.BlobTxSidecar{}
	var (
		nonTrivial bool
		desc       []string
		sample     []map[string]any
	)
	slot := uint64(100)
	for round, bp := range blocks {
		head := chain.CurrentBlock()
		hst, err := chain.StateAt(head)
		if err != nil {
			rt.Fatalf("VERIF-HARNESS-BUG: head state: %v", err)
		}
		var ts uint64
		if crossing {
			ts = cross.plan[round]
		} else {
			ts = head.Time + []uint64{1, 5, 12, 1000}[ep.Uniform(rt, "time-step", 4)]
		}
		number := new(big.Int).Add(head.Number, big.NewInt(1))
		// Rules and engine API version of this payload's timestamp.
		fork := c36ForkAt(cfg, ts)
		isPrague := cfg.IsPrague(number, ts)
		isOsaka := cfg.IsOsaka(number, ts)
		isAmsterdam := cfg.IsAmsterdam(number, ts)
		// The excess blob gas of the payload depends on the schedule of the payload's own
		// timestamp; scheduleMatters: the parent's schedule would give another value.
		crossed, scheduleMatters := false, false
		if crossing {
			crossed = cfg.LatestFork(head.Time) != cfg.LatestFork(ts)
			scheduleMatters = eip4844.CalcExcessBlobGas(cfg, head, ts) != eip4844.CalcExcessBlobGas(cfg, head, head.Time)
		}
		nextBase := eip1559.CalcBaseFee(cfg, head)
		excess := eip4844.CalcExcessBlobGas(cfg, head, ts)
		blobBase := eip4844.CalcBlobFee(cfg, &types.Header{Number: number, Time: ts, ExcessBlobGas: &excess})
		maxBlobs := eip4844.MaxBlobsPerBlock(cfg, ts)

		// ---- fill the pool --------------------------------------------------------
		env := &worldgen.Env{
			Config: cfg, Rules: cfg.Rules(number, true, ts), Signer: signer, BaseFee: nextBase, BlobBaseFee: blobBase,
			Coinbase: bp.Coinbase, GasLeft: head.GasLimit - head.GasLimit/1024, BlobsLeft: 0,
			State: c36View{st: hst, pool: ethservice.TxPool()},
		}
		offered := 0
		add := func(kind string, tx *types.Transaction) bool {
			offered++
			errs := ethservice.TxPool().Add([]*types.Transaction{tx}, true)
			cls := c36ErrClass(errs[0])
			if cls == "pool-reject:other" {
				rt.Logf("pool rejects %s: %v", kind, errs[0])
			}
			c.Class(kind + ":" + cls)
			return errs[0] == nil
		}
		for _, p := range bp.Txs {
			info, skip := worldgen.Materialize(p, env)
			if skip != "" {
				c.Class("plan-skipped:" + skip)
				continue
			}
			add(fmt.Sprintf("plan-type%d", info.Tx.Type()), info.Tx)
		}
		// blob transactions with sidecars
		// The pool of this tree only admits cell-proof (version 1) sidecars, whatever the fork.
		version := byte(types.BlobSidecarVersion1)
		nb := ep.Uniform(rt, "blob-txs", len(c36BlobKeys)+1)
		for i := 0; i < nb; i++ {
			k := c36BlobKeys[i]
			nblobs := 1 + ep.Uniform(rt, "blobs", 3)
			feeCap := new(big.Int).Add(new(big.Int).Lsh(nextBase, 1), big.NewInt(1_000_000_007))
			tip := big.NewInt(int64(1 + ep.Uniform(rt, "blob-tip", 2_000_000_000)))
			if tip.Cmp(feeCap) > 0 {
				tip.Set(feeCap)
			}
			bcap := new(big.Int).Add(new(big.Int).Lsh(blobBase, 1), big.NewInt(int64(1+ep.Uniform(rt, "blob-cap", 100))))
			to := w.Pool[ep.Uniform(rt, "blob-to", len(w.Pool))]
			tx := c36BlobTx(cfg, k, ethservice.TxPool().PoolNonce(k.Addr), nblobs, ep.Uniform(rt, "blob-offset", len(testBlobs)), version, feeCap, tip, bcap, to, 200_000)
			sidecars[tx.Hash()] = tx.BlobTxSidecar()
			add("blobtx", tx)
		}
		// nonce gap and underpriced (fee cap below the next base fee)
		if rapid.Bool().Draw(rt, "gapped") {
			tx := types.MustSignNewTx(c36GapKey.Priv, signer, &types.DynamicFeeTx{ChainID: cfg.ChainID, Nonce: ethservice.TxPool().PoolNonce(c36GapKey.Addr) + 1,
				GasTipCap: big.NewInt(2), GasFeeCap: new(big.Int).Add(nextBase, big.NewInt(2)), Gas: 21000, To: &c36DrainSink, Value: big.NewInt(1)})
			add("gapped", tx)
		}
		if nextBase.Sign() > 0 && rapid.Bool().Draw(rt, "below-basefee") {
			capv := new(big.Int).Sub(nextBase, big.NewInt(1))
			tipv := big.NewInt(tipFloor)
			if tipv.Cmp(capv) > 0 {
				tipv.Set(capv)
			}
			tx := types.MustSignNewTx(c36CheapKey.Priv, signer, &types.DynamicFeeTx{ChainID: cfg.ChainID, Nonce: ethservice.TxPool().PoolNonce(c36CheapKey.Addr),
				GasTipCap: tipv, GasFeeCap: capv, Gas: 21000, To: &c36DrainSink, Value: big.NewInt(1)})
			add("below-basefee", tx)
		}
		// execution-layer requests: a withdrawal request (EIP-7002) and/or a consolidation
		// request (EIP-7251), so that the payload's request list is not empty
		if (isPrague || crossing) && rapid.Bool().Draw(rt, "requests") {
			nonce := ethservice.TxPool().PoolNonce(c36ReqKey.Addr)
			which := ep.Uniform(rt, "request-kind", 3)
			mk := func(to common.Address, n int) *types.Transaction {
				data := bytes.Repeat([]byte{byte(0xa0 + round)}, n)
				tx := types.MustSignNewTx(c36ReqKey.Priv, signer, &types.DynamicFeeTx{ChainID: cfg.ChainID, Nonce: nonce, GasTipCap: big.NewInt(3),
					GasFeeCap: new(big.Int).Add(nextBase, big.NewInt(3)), Gas: 500_000, To: &to, Value: big.NewInt(1000), Data: data})
				nonce++
				return tx
			}
			if which != 1 {
				add("withdrawal-request", mk(params.WithdrawalQueueAddress, 56))
			}
			if which != 0 {
				add("consolidation-request", mk(params.ConsolidationQueueAddress, 96))
			}
		}
		// drain pair: the victim's own transaction is pooled while it can pay; the attacker's
		// call (higher tip, ordered first) moves the victim's balance away.
		if genesisPrague && round == 0 && rapid.Bool().Draw(rt, "drain") {
			lowTip := big.NewInt(max(tipFloor, 1))
			vtx := types.MustSignNewTx(c36VictimKey.Priv, signer, &types.DynamicFeeTx{ChainID: cfg.ChainID, Nonce: ethservice.TxPool().PoolNonce(c36VictimKey.Addr),
				GasTipCap: lowTip, GasFeeCap: new(big.Int).Add(nextBase, lowTip), Gas: 60_000, To: &c36DrainSink, Value: big.NewInt(7)})
			atx := types.MustSignNewTx(c36AttackKey.Priv, signer, &types.DynamicFeeTx{ChainID: cfg.ChainID, Nonce: ethservice.TxPool().PoolNonce(c36AttackKey.Addr),
				GasTipCap: big.NewInt(50_000_000_000), GasFeeCap: new(big.Int).Add(nextBase, big.NewInt(50_000_000_000)), Gas: 300_000, To: &c36VictimKey.Addr})
			if add("drain-victim", vtx) {
				add("drain-attacker", atx)
			}
		}

		// ---- request the payload -----------------------------------------------------
		random := common.BytesToHash(rapid.SliceOfN(rapid.Byte(), 32, 32).Draw(rt, "prevrandao"))
		root := common.BytesToHash(rapid.SliceOfN(rapid.Byte(), 32, 32).Draw(rt, "beacon-root"))
		wds := []*types.Withdrawal{}
		for i, wd := range bp.Withdrawals {
			cp := *wd
			cp.Index = uint64(round*16 + i)
			wds = append(wds, &cp)
		}
		attrs := &engine.PayloadAttributes{Timestamp: ts, Random: random, SuggestedFeeRecipient: bp.Coinbase, Withdrawals: wds, BeaconRoot: &root}
		var target uint64
		if isAmsterdam {
			slot += 1 + uint64(ep.Uniform(rt, "slot-step", 3))
			s := slot
			target = []uint64{15_000_000, 30_000_000, 36_000_000, 60_000_000}[ep.Uniform(rt, "target-gas", 4)]
			attrs.SlotNumber, attrs.TargetGasLimit = &s, &target
		}
		c.Class("coinbase:" + bp.CoinbaseClass)
		c.Classf("withdrawals:%d", len(wds))

		resp, err := fork.fcu(api, engine.ForkchoiceStateV1{HeadBlockHash: head.Hash()}, attrs)
		if err != nil || resp.PayloadStatus.Status != engine.VALID || resp.PayloadID == nil {
			rt.Fatalf("round %d: forkchoiceUpdated with attributes: status %v id %v err %v", round, resp.PayloadStatus.Status, resp.PayloadID, err)
		}
		var envelope *engine.ExecutionPayloadEnvelope
		if !r.wait("payload construction (ResolveFull)", func() { envelope = api.localBlocks.get(*resp.PayloadID, true) }) {
			fmt.Println("VERIF-INCONCLUSIVE payload construction did not finish in time")
			return
		}
		if envelope == nil {
			rt.Fatalf("round %d: no full payload for id %v", round, resp.PayloadID)
		}
		P := envelope.ExecutionPayload
		_, _, revTxs, _ := api.localBlocks.getWithDetails(P.StateRoot)
		if len(revTxs) > 0 {
			c.Class("builder:rolled-back-a-transaction")
		}

		// (5) the versioned endpoint
		env2, err := fork.getPayload(api, *resp.PayloadID)
		if err != nil {
			rt.Fatalf("round %d: getPayload: %v", round, err)
		}
		if env2.ExecutionPayload.BlockHash != P.BlockHash {
			rt.Fatalf("round %d: getPayload returns block %x, the resolved full payload is %x", round, env2.ExecutionPayload.BlockHash, P.BlockHash)
		}

		txs, err := engine.DecodeTransactions(P.Transactions)
		if err != nil {
			rt.Fatalf("round %d: payload transactions do not decode: %v", round, err)
		}
		var vhashes []common.Hash
		for _, tx := range txs {
			vhashes = append(vhashes, tx.BlobHashes()...)
		}
		if vhashes == nil {
			vhashes = []common.Hash{}
		}
		var reqs [][]byte
		if isPrague {
			reqs = envelope.Requests
			if reqs == nil {
				reqs = [][]byte{}
			}
		}
		block, err := engine.ExecutableDataToBlock(*P, vhashes, &root, reqs)
		if err != nil {
			rt.Fatalf("round %d: built payload does not convert to a block: %v", round, err)
		}
		hdr := block.Header()

		// (3) block-level rules
		rules := w.Variant.Name
		if crossing {
			rules = fmt.Sprintf("%s, timestamp %d on parent at %d", cross.name, ts, head.Time)
		}
		fail := func(format string, args ...any) {
			rt.Fatalf("round %d (%s, block %d, %d txs): "+format, append([]any{round, rules, P.Number, len(txs)}, args...)...)
		}
		switch {
		case P.ParentHash != head.Hash():
			fail("parent hash %x, head is %x", P.ParentHash, head.Hash())
		case P.Number != head.Number.Uint64()+1:
			fail("number %d after head %d", P.Number, head.Number)
		case P.Timestamp != ts:
			fail("timestamp %d, attributes say %d", P.Timestamp, ts)
		case P.Random != random:
			fail("prevRandao not echoed")
		case P.FeeRecipient != bp.Coinbase:
			fail("fee recipient %x, attributes say %x", P.FeeRecipient, bp.Coinbase)
		case hdr.ParentBeaconRoot == nil || *hdr.ParentBeaconRoot != root:
			fail("parent beacon root not echoed")
		case len(P.Withdrawals) != len(wds):
			fail("%d withdrawals, attributes have %d", len(P.Withdrawals), len(wds))
		case P.GasUsed > P.GasLimit:
			fail("gas used %d exceeds gas limit %d", P.GasUsed, P.GasLimit)
		case P.BaseFeePerGas.Cmp(nextBase) != 0:
			fail("base fee %v, expected %v", P.BaseFeePerGas, nextBase)
		case P.ExcessBlobGas == nil || *P.ExcessBlobGas != excess:
			have := "nil"
			if P.ExcessBlobGas != nil {
				have = fmt.Sprint(*P.ExcessBlobGas)
			}
			fail("excess blob gas %s, header verification expects %d (parent excess %d + used %d under the schedule of the payload's timestamp)",
				have, excess, *head.ExcessBlobGas, *head.BlobGasUsed)
		}
		for i, wd := range wds {
			if *P.Withdrawals[i] != *wd {
				fail("withdrawal %d differs from the attributes", i)
			}
		}
		if isAmsterdam && (P.SlotNumber == nil || *P.SlotNumber != slot) {
			fail("slot number not echoed")
		}
		if d := int64(P.GasLimit) - int64(head.GasLimit); d >= int64(head.GasLimit/1024) || -d >= int64(head.GasLimit/1024) || P.GasLimit < params.MinGasLimit {
			fail("gas limit %d steps too far from the parent's %d", P.GasLimit, head.GasLimit)
		}
		nonces := map[common.Address]uint64{}
		senders := map[common.Address]bool{}
		nblobs := 0
		types_ := map[byte]int{}
		for i, tx := range txs {
			from, err := types.Sender(signer, tx)
			if err != nil {
				fail("tx %d: sender: %v", i, err)
			}
			want, seen := nonces[from]
			if !seen {
				want = hst.GetNonce(from)
			}
			if tx.Nonce() != want {
				fail("tx %d from %x has nonce %d, expected %d", i, from, tx.Nonce(), want)
			}
			nonces[from] = want + 1
			senders[from] = true
			if tx.GasFeeCap().Cmp(P.BaseFeePerGas) < 0 {
				fail("tx %d: fee cap %v below the base fee %v", i, tx.GasFeeCap(), P.BaseFeePerGas)
			}
			if isOsaka && !isAmsterdam && tx.Gas() > params.MaxTxGas {
				fail("tx %d: gas %d above the EIP-7825 cap", i, tx.Gas())
			}
			if tx.Type() == types.BlobTxType {
				nblobs += len(tx.BlobHashes())
				if tx.BlobGasFeeCap().Cmp(blobBase) < 0 {
					fail("tx %d: blob fee cap %v below the blob base fee %v", i, tx.BlobGasFeeCap(), blobBase)
				}
				if tx.BlobTxSidecar() != nil {
					fail("tx %d: payload transaction still carries its sidecar", i)
				}
			}
			types_[tx.Type()]++
		}
		if nblobs > maxBlobs {
			fail("%d blobs, the maximum is %d", nblobs, maxBlobs)
		}
		if P.BlobGasUsed == nil || *P.BlobGasUsed != uint64(nblobs)*params.BlobTxBlobGasPerBlob {
			got := "nil"
			if P.BlobGasUsed != nil {
				got = fmt.Sprint(*P.BlobGasUsed)
			}
			fail("blob gas used %s for %d blobs", got, nblobs)
		}
		if envelope.BlobsBundle != nil && len(envelope.BlobsBundle.Blobs) != nblobs {
			fail("blobs bundle has %d blobs, the transactions reference %d", len(envelope.BlobsBundle.Blobs), nblobs)
		}

		// (4) the explicit-list builder agrees
		var withSidecars []*types.Transaction
		for _, tx := range txs {
			if tx.Type() == types.BlobTxType {
				sc := sidecars[tx.Hash()]
				if sc == nil {
					rt.Fatalf("VERIF-HARNESS-BUG: unknown blob transaction %x in payload", tx.Hash())
				}
				tx = tx.WithBlobTxSidecar(sc)
			}
			withSidecars = append(withSidecars, tx)
		}
		args := &miner.BuildPayloadArgs{Parent: head.Hash(), Timestamp: ts, FeeRecipient: bp.Coinbase, Random: random, Withdrawals: wds, BeaconRoot: &root,
			SlotNum: attrs.SlotNumber, TargetGasLimit: attrs.TargetGasLimit}
		tblock, _, err := ethservice.Miner().BuildTestingPayload(args, withSidecars, len(withSidecars) == 0, P.ExtraData)
		if err != nil {
			fail("BuildTestingPayload rejects the transaction list of the built payload: %v", err)
		}
		if tblock.Hash() != P.BlockHash {
			fail("BuildTestingPayload with the same transactions builds a different block: %s", c36DiffHeaders(tblock.Header(), hdr))
		}

		// (2) independent import
		if _, err := chain2.InsertChain(types.Blocks{block}); err != nil {
			fail("independent chain rejects the built block: %v", err)
		}
		h2 := chain2.CurrentBlock()
		if h2.Hash() != P.BlockHash {
			fail("independent chain head %x after import, payload is %x: %s", h2.Hash(), P.BlockHash, c36DiffHeaders(h2, hdr))
		}
		if h2.Root != P.StateRoot || h2.ReceiptHash != P.ReceiptsRoot || !bytes.Equal(h2.Bloom[:], P.LogsBloom) || h2.GasUsed != P.GasUsed {
			fail("stored header differs from the payload: %s", c36DiffHeaders(h2, hdr))
		}
		if !chain2.HasState(P.StateRoot) {
			fail("state root %x of the payload is not available after import", P.StateRoot)
		}
		receipts := chain2.GetReceiptsByHash(P.BlockHash)
		if len(receipts) != len(txs) {
			fail("%d receipts for %d transactions", len(receipts), len(txs))
		}
		if got := types.DeriveSha(receipts, trie.NewStackTrie(nil)); got != P.ReceiptsRoot {
			fail("receipts of the import derive root %x, payload says %x", got, P.ReceiptsRoot)
		}
		if got := types.MergeBloom(receipts); !bytes.Equal(got[:], P.LogsBloom) {
			fail("receipts of the import give another bloom than the payload")
		}
		if !isAmsterdam && len(receipts) > 0 && receipts[len(receipts)-1].CumulativeGasUsed != P.GasUsed {
			fail("cumulative gas of the import %d, payload gas used %d", receipts[len(receipts)-1].CumulativeGasUsed, P.GasUsed)
		}
		if !isAmsterdam && len(receipts) == 0 && P.GasUsed != 0 {
			fail("gas used %d without transactions", P.GasUsed)
		}
		if isAmsterdam && (hdr.BlockAccessListHash == nil || h2.BlockAccessListHash == nil || *hdr.BlockAccessListHash != *h2.BlockAccessListHash) {
			fail("access-list hash differs after import")
		}
		failedTx := 0
		for _, rc := range receipts {
			if rc.Status == types.ReceiptStatusFailed {
				failedTx++
			}
		}

		// (1) back through the engine API
		status, err := fork.newPayload(api, envelope, vhashes, &root)
		if err != nil || status.Status != engine.VALID {
			verr := ""
			if status.ValidationError != nil {
				verr = *status.ValidationError
			}
			fail("newPayload on the building node: status %s err %v validationError %q", status.Status, err, verr)
		}
		if status.LatestValidHash == nil || *status.LatestValidHash != P.BlockHash {
			fail("newPayload latestValidHash %v, payload %x", status.LatestValidHash, P.BlockHash)
		}
		resp, err = fork.fcu(api, engine.ForkchoiceStateV1{HeadBlockHash: P.BlockHash}, nil)
		if err != nil || resp.PayloadStatus.Status != engine.VALID {
			fail("forkchoiceUpdated to the built block: status %s err %v", resp.PayloadStatus.Status, err)
		}
		if chain.CurrentBlock().Hash() != P.BlockHash {
			fail("head is %x after adopting %x", chain.CurrentBlock().Hash(), P.BlockHash)
		}
		var syncErr error
		if !r.wait("txpool reset after new head", func() { syncErr = ethservice.TxPool().Sync() }) {
			fmt.Println("VERIF-INCONCLUSIVE txpool did not settle in time")
			return
		}
		if syncErr != nil {
			rt.Fatalf("VERIF-HARNESS-BUG: txpool sync: %v", syncErr)
		}

		// ---- statistics ---------------------------------------------------------------
		c.Classf("round:%d", round)
		switch {
		case len(txs) == 0:
			c.Class("payload:empty")
		case len(txs) < 4:
			c.Class("payload:1-3-txs")
		default:
			c.Class("payload:4+txs")
		}
		if offered > len(txs) {
			c.Class("payload:leaves-pool-txs-out")
		}
		if failedTx > 0 {
			c.Class("payload:has-failed-tx")
		}
		var tnames []string
		for ty, k := range types_ {
			_ = k
			tnames = append(tnames, fmt.Sprintf("payload-tx-type:%d", ty))
		}
		sort.Strings(tnames)
		for _, s := range tnames {
			c.Class(s)
		}
		if len(envelope.Requests) > 0 {
			c.Class("payload:has-requests")
		}
		if crossing {
			c.Class("payload-rules:" + cfg.LatestFork(ts).String())
			if crossed {
				c.Class("crossing:first-block-of-fork-on-parent-of-previous-fork")
				for _, f := range cross.times {
					if f == ts {
						c.Class("crossing:first-block-exactly-at-activation-time")
					}
				}
				if len(envelope.Requests) > 0 {
					c.Class("crossing:first-block-carries-requests")
				}
			}
			if scheduleMatters {
				c.Class("crossing:excess-blob-gas-depends-on-the-payload's-own-schedule")
			}
			if *P.ExcessBlobGas > 0 {
				c.Class("crossing:payload-excess-blob-gas>0")
			}
		}
		if (failedTx > 0 && len(senders) >= 2) || types_[types.BlobTxType] > 0 || types_[types.SetCodeTxType] > 0 || scheduleMatters {
			nonTrivial = true
		}
		desc = append(desc, P.BlockHash.Hex())
		sample = append(sample, map[string]any{"number": P.Number, "hash": P.BlockHash.Hex(), "txs": len(txs), "failed": failedTx, "senders": len(senders),
			"blobs": nblobs, "gasUsed": P.GasUsed, "gasLimit": P.GasLimit, "offered": offered, "rolledBack": len(revTxs), "withdrawals": len(wds),
			"timestamp": ts, "excessBlobGas": *P.ExcessBlobGas})
	}
	c.NonTrivial(nonTrivial, strings.Join(desc, ","))
	c.Sample(nonTrivial, func() any {
		m := map[string]any{"fork": w.Variant.Name, "world": w.Describe(), "payloads": sample}
		if crossing {
			m["crossing"] = cross.desc
			m["genesisExcessBlobGas"], m["genesisBlobGasUsed"] = *gen.ExcessBlobGas, *gen.BlobGasUsed
		}
		return m
	})
}
