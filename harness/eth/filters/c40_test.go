//go:build verif

package filters

// C40 — log queries return exactly the matching canonical logs.
//
// A chain world is grown block by block (GenerateChain + AddUncheckedReceipt, the
// way the package's own benchmarkFilters builds its chain), reorganised, rewound
// and switched between remembered branches, while a filtermaps indexer with small
// test parameters (maps and epochs roll over within a few blocks) follows it in
// its background goroutine. Filter.Logs is queried at drawn moments: before the
// indexer had a chance to start, while it is mid-way (target moved without
// waiting), while it is suspended (SetBlockProcessing) or was not told about the
// new head yet, after quiescence, right after a reorg, after a restart with
// another history limit, and concurrently with a head switch. Every answer is
// compared with a linear scan over the harness's own record of the canonical
// logs (not over geth's receipts decoding).
//
// Bounded waits that expire are VERIF-INCONCLUSIVE, never a violation.

import (
	"context"
	"encoding/binary"
	"fmt"
	"math/big"
	"math/rand"
	"os"
	"reflect"
	"runtime"
	"slices"
	"strconv"
	"strings"
	"sync/atomic"
	"testing"
	"time"
	"unsafe"

	"github.com/ethereum/go-ethereum/common"
	"github.com/ethereum/go-ethereum/consensus/ethash"
	"github.com/ethereum/go-ethereum/core"
	"github.com/ethereum/go-ethereum/core/filtermaps"
	"github.com/ethereum/go-ethereum/core/rawdb"
	"github.com/ethereum/go-ethereum/core/types"
	"github.com/ethereum/go-ethereum/ethdb"
	"github.com/ethereum/go-ethereum/log"
	"github.com/ethereum/go-ethereum/params"
	"github.com/ethereum/go-ethereum/rpc"
	"github.com/ethereum/go-ethereum/triedb"
	"pgregory.net/rapid"
	vs "verif.local/kit/stat"
)

const (
	c40QueryBound = 10 * time.Minute // liveness bounds; expiry is inconclusive
	c40IdleBound  = 10 * time.Minute
	c40Grace      = 150 * time.Millisecond // how long a query may wait for a withheld indexer step (see valve)
)

// ---------------------------------------------------------------------------
// filtermaps parameters (all fields of filtermaps.Params are unexported; the
// package's own small parameter set lives in a _test file of core/filtermaps, so
// the values are written through reflection — test-only, nothing in /repo changes)

type c40Preset struct {
	name                              string
	h, w, mpe, vpm, grp, ratio, ldiff uint
}

// Preconditions kept by every preset (derived from map_renderer.go / math.go):
//   - valuesPerMap >= 5: a log (address + up to 4 topics) is never split across maps,
//     the iterator skips to the next boundary and would never find room otherwise;
//   - baseRowLength = valuesPerMap*ratio/mapHeight >= 1;
//   - baseRowGroupSize is a power of two and <= mapsPerEpoch (a base row group is one
//     database entry addressed inside an epoch's key range);
//   - ratio*mapsPerEpoch >= mapHeight, so a row can always take a whole map on the top layer.
var c40Presets = []c40Preset{
	{"A-h2e4v4", 2, 24, 4, 4, 4, 2, 2}, // == testParams of core/filtermaps/indexer_test.go
	{"B-h3e2v5", 3, 24, 2, 5, 2, 4, 1},
	{"C-h4e1v6", 4, 24, 1, 6, 2, 8, 4},
	{"D-h1e3v3", 1, 24, 3, 3, 1, 1, 1},
	{"E-h2e0v5", 2, 24, 0, 5, 1, 4, 2},
}

func c40Params(t *testing.T, p c40Preset) filtermaps.Params {
	var out filtermaps.Params
	v := reflect.ValueOf(&out).Elem()
	set := func(name string, x uint) {
		f := v.FieldByName(name)
		if !f.IsValid() {
			t.Fatalf("VERIF-HARNESS-BUG: filtermaps.Params has no field %q", name)
		}
		reflect.NewAt(f.Type(), unsafe.Pointer(f.UnsafeAddr())).Elem().SetUint(uint64(x))
	}
	set("logMapHeight", p.h)
	set("logMapWidth", p.w)
	set("logMapsPerEpoch", p.mpe)
	set("logValuesPerMap", p.vpm)
	set("baseRowGroupSize", p.grp)
	set("baseRowLengthRatio", p.ratio)
	set("logLayerDiff", p.ldiff)
	return out
}

// ---------------------------------------------------------------------------
// model

type c40Log struct {
	addr   common.Address
	topics []common.Hash
	data   []byte
	txIdx  uint
	idx    uint
}

type c40Blk struct {
	blk  *types.Block
	hash common.Hash
	num  uint64
	logs []c40Log
	txh  []common.Hash
}

type c40Crit struct {
	addrs  []common.Address
	topics [][]common.Hash
}

// match is the reference reading of the eth_getLogs criteria: any listed address
// (empty = any), per position any listed topic (empty = any); a log with fewer
// topics than the criteria has positions never matches.
func (c c40Crit) match(l *c40Log) bool {
	if len(c.addrs) > 0 {
		ok := false
		for _, a := range c.addrs {
			if a == l.addr {
				ok = true
			}
		}
		if !ok {
			return false
		}
	}
	if len(c.topics) > len(l.topics) {
		return false
	}
	for i, alts := range c.topics {
		if len(alts) == 0 {
			continue
		}
		ok := false
		for _, tp := range alts {
			if tp == l.topics[i] {
				ok = true
			}
		}
		if !ok {
			return false
		}
	}
	return true
}

func (c c40Crit) matchAll() bool {
	if len(c.addrs) > 0 {
		return false
	}
	for _, alts := range c.topics {
		if len(alts) > 0 {
			return false
		}
	}
	return true
}

func (c c40Crit) String() string {
	var sb strings.Builder
	sb.WriteString("addr[")
	for _, a := range c.addrs {
		fmt.Fprintf(&sb, "%x,", a[17:])
	}
	sb.WriteString("] topics[")
	for _, alts := range c.topics {
		sb.WriteString("(")
		for _, tp := range alts {
			fmt.Fprintf(&sb, "%x,", tp[29:])
		}
		sb.WriteString(")")
	}
	sb.WriteString("]")
	return sb.String()
}

type c40Exp struct {
	b *c40Blk
	l *c40Log
}

func c40Scan(chain []*c40Blk, first, last uint64, c c40Crit) []c40Exp {
	var out []c40Exp
	for n := first; n <= last && n < uint64(len(chain)); n++ {
		b := chain[n]
		for i := range b.logs {
			if c.match(&b.logs[i]) {
				out = append(out, c40Exp{b, &b.logs[i]})
			}
		}
	}
	return out
}

// c40Diff compares an answer with the expected list; "" means identical.
func c40Diff(got []*types.Log, want []c40Exp) string {
	for i := 0; i < len(got) && i < len(want); i++ {
		g, e := got[i], want[i]
		switch {
		case g == nil:
			return fmt.Sprintf("entry %d is nil", i)
		case g.BlockNumber != e.b.num || g.BlockHash != e.b.hash:
			return fmt.Sprintf("entry %d: block %d/%x, expected %d/%x (log #%d of that block)", i, g.BlockNumber, g.BlockHash[:6], e.b.num, e.b.hash[:6], e.l.idx)
		case g.Index != e.l.idx || g.TxIndex != e.l.txIdx:
			return fmt.Sprintf("entry %d (block %d): tx/log index %d/%d, expected %d/%d", i, g.BlockNumber, g.TxIndex, g.Index, e.l.txIdx, e.l.idx)
		case g.Address != e.l.addr || !slices.Equal(g.Topics, e.l.topics) || string(g.Data) != string(e.l.data):
			return fmt.Sprintf("entry %d (block %d log %d): content differs: got %x %x %x", i, g.BlockNumber, g.Index, g.Address[17:], g.Topics, g.Data)
		case g.TxHash != e.b.txh[e.l.txIdx]:
			return fmt.Sprintf("entry %d (block %d log %d): tx hash %x, expected %x", i, g.BlockNumber, g.Index, g.TxHash[:6], e.b.txh[e.l.txIdx][:6])
		case g.Removed:
			return fmt.Sprintf("entry %d (block %d log %d) is flagged removed", i, g.BlockNumber, g.Index)
		}
	}
	if len(got) != len(want) {
		var extra string
		if len(got) > len(want) {
			g := got[len(want)]
			extra = fmt.Sprintf("first surplus entry: block %d/%x log %d", g.BlockNumber, g.BlockHash[:6], g.Index)
		} else {
			e := want[len(got)]
			extra = fmt.Sprintf("first missing entry: block %d/%x log %d", e.b.num, e.b.hash[:6], e.l.idx)
		}
		return fmt.Sprintf("%d logs returned, %d expected; %s", len(got), len(want), extra)
	}
	return ""
}

// ---------------------------------------------------------------------------
// world

type c40World struct {
	t  *testing.T
	rt *rapid.T

	gspec  *core.Genesis
	gendb  ethdb.Database // state lives here only (the indexer range-deletes "B…" keys of its own db)
	db     ethdb.Database
	be     *testBackend
	sys    *FilterSystem
	preset c40Preset
	fmp    filtermaps.Params

	genesis *c40Blk
	canon   []*c40Blk   // index == number
	saved   [][]*c40Blk // remembered branches
	removed []*c40Blk   // blocks dropped by the most recent head switch
	lastOp  string

	addrs  [4]common.Address
	tpool  [5]common.Hash
	nonce  uint64
	seq    uint64
	forkNo int

	history           uint64
	disabled          bool
	frozen            bool
	trace             []string
	excluded          bool // the last judged query hit a listed known finding
	exclClass         string
	lastIdx           common.Range[uint64] // IndexedBlocks as last sampled by indexed()
	lastIdxOK         bool
	firsts            map[uint64]bool // every non-zero first indexed block sampled in this scenario
	pending           []*c40Query     // queries issued at non-quiescent moments since the last quiescence (see recheck)
	noBranchSwitch    bool            // prepare() must not draw a switch back to a remembered branch (see there)
	everLimited       bool            // some indexer instance of this scenario ran with a history limit
	revertedSinceIdle bool            // a head switch removed canonical blocks since the indexer was last known idle
	release           func()          // non-nil while the harness withholds an indexer step (see valve)
	everIdx           bool            // indexing was enabled and waited for at least once
}

func newC40World(t *testing.T, rt *rapid.T) *c40World {
	w := &c40World{t: t, rt: rt}
	for i := range w.addrs {
		w.addrs[i] = common.BytesToAddress([]byte{0xa0 + byte(i), 0x40, byte(i)})
	}
	for i := range w.tpool {
		w.tpool[i] = common.BytesToHash([]byte{0x70 + byte(i), 0x40, byte(i)})
	}
	w.gspec = &core.Genesis{
		Config:  params.TestChainConfig,
		Alloc:   types.GenesisAlloc{},
		BaseFee: big.NewInt(params.InitialBaseFee),
	}
	w.db = rawdb.NewMemoryDatabase()
	w.be, w.sys = newTestFilterSystem(w.db, Config{})
	return w
}

func (w *c40World) close() {
	if w.be.fm != nil {
		if w.frozen {
			w.be.fm.SetBlockProcessing(false)
		}
		w.be.stopFilterMaps()
	}
	w.db.Close()
	if w.gendb != nil {
		w.gendb.Close()
	}
}

func (w *c40World) head() *c40Blk { return w.canon[len(w.canon)-1] }

func (w *c40World) tracef(format string, a ...any) {
	w.trace = append(w.trace, fmt.Sprintf(format, a...))
}

func (w *c40World) traceText() string { return "\n  trace: " + strings.Join(w.trace, "\n         ") }

type c40Density struct{ txMax, logMax int }

// generate builds n blocks on top of parent (state in gendb), records their logs in
// the model and stores block bodies and receipts (not the canonical markers) in db.
func (w *c40World) generate(parent *c40Blk, n int, seed uint64, d c40Density) []*c40Blk {
	prng := rand.New(rand.NewSource(int64(seed)))
	w.forkNo++
	tag := w.forkNo
	var model [][]c40Log
	gen := func(i int, g *core.BlockGen) {
		// make sibling blocks with equal (e.g. empty) content distinct
		g.SetExtra([]byte{'c', '4', '0', byte(tag >> 8), byte(tag)})
		var (
			logs   []c40Log
			logIdx uint
		)
		ntx := 0
		if d.txMax > 0 {
			ntx = prng.Intn(d.txMax + 1)
		}
		for tx := 0; tx < ntx; tx++ {
			receipt := types.NewReceipt(nil, false, 0)
			nlogs := 0
			if d.logMax > 0 {
				nlogs = prng.Intn(d.logMax + 1)
			}
			for k := 0; k < nlogs; k++ {
				l := c40Log{addr: w.addrs[prng.Intn(len(w.addrs))], txIdx: uint(tx), idx: logIdx}
				logIdx++
				nt := prng.Intn(5)
				for j := 0; j < nt; j++ {
					l.topics = append(l.topics, w.tpool[prng.Intn(len(w.tpool))])
				}
				w.seq++
				l.data = binary.BigEndian.AppendUint64(nil, w.seq)
				logs = append(logs, l)
				receipt.Logs = append(receipt.Logs, &types.Log{
					Address: l.addr,
					Topics:  slices.Clone(l.topics),
					Data:    slices.Clone(l.data),
				})
			}
			// block processing always fills the receipt bloom; the block bloom is merged from it
			receipt.Bloom = types.CreateBloom(receipt)
			g.AddUncheckedReceipt(receipt)
			w.nonce++
			g.AddUncheckedTx(types.NewTransaction(w.nonce, common.HexToAddress("0x999"), big.NewInt(999), 999, g.BaseFee(), nil))
		}
		model = append(model, logs)
	}
	var (
		blocks   []*types.Block
		receipts []types.Receipts
	)
	if parent == nil {
		w.gendb, blocks, receipts = core.GenerateChainWithGenesis(w.gspec, ethash.NewFaker(), n, gen)
		// genesis block into the backend db, the way benchmarkFilters does it
		gblock := w.gspec.MustCommit(w.db, triedb.NewDatabase(w.db, triedb.HashDefaults))
		w.genesis = &c40Blk{blk: gblock, hash: gblock.Hash(), num: 0}
		w.canon = []*c40Blk{w.genesis}
	} else {
		blocks, receipts = core.GenerateChain(w.gspec.Config, parent.blk, ethash.NewFaker(), w.gendb, n, gen)
	}
	out := make([]*c40Blk, len(blocks))
	for i, b := range blocks {
		mb := &c40Blk{blk: b, hash: b.Hash(), num: b.NumberU64(), logs: model[i]}
		for _, tx := range b.Transactions() {
			mb.txh = append(mb.txh, tx.Hash())
		}
		out[i] = mb
		rawdb.WriteBlock(w.db, b)
		rawdb.WriteReceipts(w.db, b.Hash(), b.NumberU64(), receipts[i])
	}
	return out
}

// commit makes newCanon the canonical chain in one atomic database batch (number
// index and head marker together) and updates the model.
func (w *c40World) commit(newCanon []*c40Blk, op string) {
	old := w.canon
	batch := w.db.NewBatch()
	for n := len(newCanon); n < len(old); n++ {
		rawdb.DeleteCanonicalHash(batch, uint64(n))
	}
	fork := 0
	for n, b := range newCanon {
		if n < len(old) && old[n].hash == b.hash {
			fork = n
			continue
		}
		rawdb.WriteCanonicalHash(batch, b.hash, uint64(n))
	}
	h := newCanon[len(newCanon)-1]
	rawdb.WriteHeadBlockHash(batch, h.hash)
	rawdb.WriteHeadHeaderHash(batch, h.hash)
	if err := batch.Write(); err != nil {
		w.t.Fatalf("VERIF-HARNESS-BUG: batch write: %v", err)
	}
	if fork+1 < len(old) {
		w.removed = slices.Clone(old[fork+1:])
		w.revertedSinceIdle = true
	}
	w.canon = newCanon
	w.lastOp = op
	w.tracef("commit %s: fork point %d, old head %d, new head %d/%x", op, fork, len(old)-1, h.num, h.hash[:4])
}

func (w *c40World) setTarget() {
	h := w.head()
	view := filtermaps.NewChainView(w.be, h.num, h.hash)
	if view == nil {
		w.t.Fatalf("VERIF-HARNESS-BUG: no chain view for head %d", h.num)
	}
	w.be.fm.SetTarget(view, 0, 0)
	w.tracef("SetTarget %d/%x", h.num, h.hash[:4])
}

func (w *c40World) waitIdle() {
	if w.frozen {
		w.t.Fatalf("VERIF-HARNESS-BUG: waitIdle while block processing flag is set")
	}
	fm := w.be.fm
	done := make(chan struct{})
	go func() { fm.WaitIdle(); close(done) }()
	select {
	case <-done:
	case <-time.After(c40IdleBound):
		w.t.Fatalf("VERIF-INCONCLUSIVE C40: log indexer not idle within %v (head %d)", c40IdleBound, w.head().num)
	}
	if !w.disabled {
		w.everIdx = true
	}
	w.revertedSinceIdle = false
	w.tracef("WaitIdle returned")
}

func (w *c40World) start(history uint64, disabled bool) {
	h := w.head()
	view := filtermaps.NewChainView(w.be, h.num, h.hash)
	fm, err := filtermaps.NewFilterMaps(w.db, view, 0, 0, w.fmp, filtermaps.Config{History: history, Disabled: disabled})
	if err != nil || view == nil {
		w.t.Fatalf("VERIF-HARNESS-BUG: NewFilterMaps: %v", err)
	}
	w.history, w.disabled = history, disabled
	if history != 0 && !disabled {
		w.everLimited = true
	}
	w.be.fm = fm
	fm.Start()
	w.tracef("indexer started at head %d/%x, history %d, disabled %v", h.num, h.hash[:4], history, disabled)
}

// indexed asks the matcher backend which blocks the index currently covers
// (the same call every range query starts with).
func (w *c40World) indexed() (common.Range[uint64], bool) {
	var (
		sr  filtermaps.SyncRange
		err error
	)
	w.valve(func() {
		mb := w.be.fm.NewMatcherBackend()
		defer mb.Close()
		ctx, cancel := context.WithTimeout(context.Background(), c40QueryBound)
		defer cancel()
		sr, err = mb.SyncLogIndex(ctx)
	})
	if err != nil {
		w.t.Fatalf("VERIF-INCONCLUSIVE C40: SyncLogIndex did not answer within %v: %v", c40QueryBound, err)
	}
	w.lastIdx, w.lastIdxOK = sr.IndexedBlocks, sr.IndexedView != nil
	if sr.IndexedView != nil && !sr.IndexedBlocks.IsEmpty() && sr.IndexedBlocks.First() > 0 {
		if w.firsts == nil {
			w.firsts = map[uint64]bool{}
		}
		w.firsts[sr.IndexedBlocks.First()] = true
	}
	if sr.IndexedView != nil {
		w.tracef("index covers %v (view head %d), valid %v", sr.IndexedBlocks, sr.IndexedView.HeadNumber(), sr.ValidBlocks)
	} else {
		w.tracef("no index")
	}
	return sr.IndexedBlocks, sr.IndexedView != nil
}

// valve runs fn. While the harness withholds something the indexer needs to catch up
// with the chain (the block processing flag is set, or the new head was not announced
// yet) a range query may legitimately keep iterating until that is lifted — in geth
// both conditions last for the duration of a block import — so fn then runs on a
// helper goroutine and, if it has not returned after a grace period, the withheld
// step is performed (w.release). fn must not call t.Fatalf.
func (w *c40World) valve(fn func()) {
	if w.release == nil {
		fn()
		return
	}
	done := make(chan struct{})
	go func() { defer close(done); fn() }()
	select {
	case <-done:
		return
	case <-time.After(c40Grace):
	}
	w.release()
	w.release = nil
	w.tracef("withheld step released after %v", c40Grace)
	<-done // fn is bounded by its own context timeout
}

// mapOf returns the filter map holding the first log value of the block, if known.
func (w *c40World) mapOf(mb filtermaps.MatcherBackend, num uint64) (uint64, bool) {
	p, err := mb.GetBlockLvPointer(context.Background(), num)
	if err != nil {
		return 0, false
	}
	return p >> w.preset.vpm, true
}

// ---------------------------------------------------------------------------
// queries

type c40Query struct {
	byHash     bool
	begin, end int64 // as handed to NewRangeFilter
	blk        *c40Blk
	crit       c40Crit
	kind       string
}

func c40Resolve(n int64, chain []*c40Blk) uint64 {
	switch n {
	case rpc.LatestBlockNumber.Int64():
		return uint64(len(chain) - 1)
	case rpc.EarliestBlockNumber.Int64():
		return 0
	}
	return uint64(n)
}

func (q *c40Query) expect(chain []*c40Blk) []c40Exp {
	if q.byHash {
		return c40Scan([]*c40Blk{q.blk}, 0, 0, q.crit)
	}
	return c40Scan(chain, c40Resolve(q.begin, chain), c40Resolve(q.end, chain), q.crit)
}

func (q *c40Query) String() string {
	if q.byHash {
		return fmt.Sprintf("blockhash %d/%x %s", q.blk.num, q.blk.hash[:6], q.crit)
	}
	return fmt.Sprintf("range [%d,%d] %s", q.begin, q.end, q.crit)
}

var (
	c40ForeignAddr  = common.BytesToAddress([]byte("c40-never-emitted"))
	c40ForeignTopic = common.BytesToHash([]byte("c40-never-emitted-topic"))
)

// drawCrit draws filter criteria; if from != nil they are derived from that log
// (so that the answer is usually non-empty) and then generalised.
func (w *c40World) drawCrit(from *c40Log) c40Crit {
	rt := w.rt
	var c c40Crit
	others := func(n int, skip common.Address) []common.Address {
		var out []common.Address
		for _, a := range w.addrs {
			if a != skip && len(out) < n {
				out = append(out, a)
			}
		}
		return out
	}
	if from != nil {
		switch rapid.IntRange(0, 3).Draw(rt, "addrShape") {
		case 0: // any address
		case 1, 2:
			c.addrs = []common.Address{from.addr}
		case 3:
			c.addrs = append(others(2, from.addr), from.addr)
		}
		npos := rapid.IntRange(0, len(from.topics)).Draw(rt, "npos")
		if rapid.IntRange(0, 11).Draw(rt, "tooLong") == 0 && len(from.topics) < 4 {
			npos = len(from.topics) + 1 // more positions than the log has topics: must not match it
		}
		for i := 0; i < npos; i++ {
			var alts []common.Hash
			if i < len(from.topics) {
				switch rapid.IntRange(0, 3).Draw(rt, "topicShape") {
				case 0: // wildcard
				case 1, 2:
					alts = []common.Hash{from.topics[i]}
				case 3:
					alts = []common.Hash{w.tpool[rapid.IntRange(0, 4).Draw(rt, "alt")], from.topics[i], c40ForeignTopic}
				}
			}
			c.topics = append(c.topics, alts)
		}
		return c
	}
	switch rapid.IntRange(0, 5).Draw(rt, "addrShape") {
	case 0, 1:
	case 2, 3:
		c.addrs = []common.Address{w.addrs[rapid.IntRange(0, 3).Draw(rt, "addr")]}
	case 4:
		c.addrs = others(3, w.addrs[rapid.IntRange(0, 3).Draw(rt, "addrSkip")])
	case 5:
		c.addrs = []common.Address{c40ForeignAddr, w.addrs[rapid.IntRange(0, 3).Draw(rt, "addr")]}
	}
	npos := rapid.IntRange(0, 4).Draw(rt, "npos")
	for i := 0; i < npos; i++ {
		var alts []common.Hash
		if n := rapid.IntRange(0, 3).Draw(rt, "nalts"); n > 0 {
			first := rapid.IntRange(0, 4).Draw(rt, "alt")
			for j := 0; j < n; j++ {
				alts = append(alts, w.tpool[(first+j*2)%5])
			}
			if rapid.IntRange(0, 9).Draw(rt, "foreign") == 0 {
				alts[0] = c40ForeignTopic
			}
		}
		c.topics = append(c.topics, alts)
	}
	return c
}

// drawQuery draws one query that is valid for every chain in chains (range end not
// beyond any of their heads); idx, if known, biases ranges towards the index tail.
func (w *c40World) drawQuery(chains [][]*c40Blk, idx *common.Range[uint64]) *c40Query {
	rt := w.rt
	minHead := uint64(len(chains[0]) - 1)
	for _, c := range chains {
		minHead = min(minHead, uint64(len(c)-1))
	}
	chain := chains[len(chains)-1]
	q := &c40Query{}
	latest := rpc.LatestBlockNumber.Int64()
	kind := rapid.IntRange(0, 11).Draw(rt, "rangeKind")
	tailKnown := idx != nil && !idx.IsEmpty() && idx.First() > 0
	if kind == 6 && !tailKnown {
		kind = 1
	}
	if tailKnown && len(chains) == 1 && rapid.IntRange(0, 2).Draw(rt, "aimAtTail") == 0 {
		kind = 6
	}
	if kind == 7 && len(chains) > 1 {
		kind = 2
	}
	var a, b uint64
	switch kind {
	case 0:
		q.kind = "full"
		q.begin, q.end = 0, latest
		if rapid.Bool().Draw(rt, "earliest") {
			q.begin = rpc.EarliestBlockNumber.Int64()
		}
		a, b = 0, minHead
	case 1, 8, 9:
		q.kind = "random"
		a = uint64(rapid.IntRange(0, int(minHead)).Draw(rt, "a"))
		b = uint64(rapid.IntRange(int(a), int(minHead)).Draw(rt, "b"))
		q.begin, q.end = int64(a), int64(b)
	case 2, 10:
		q.kind = "near-head"
		a = minHead - uint64(rapid.IntRange(0, int(min(minHead, 20))).Draw(rt, "back"))
		b = minHead
		q.begin, q.end = int64(a), latest
		if rapid.Bool().Draw(rt, "numericEnd") {
			q.end = int64(minHead)
		}
	case 3:
		q.kind = "latest"
		q.begin, q.end = latest, latest
		a, b = minHead, minHead
	case 4, 11:
		q.kind = "window"
		a = uint64(rapid.IntRange(0, int(minHead)).Draw(rt, "a"))
		b = min(minHead, a+uint64(rapid.IntRange(0, 12).Draw(rt, "len")))
		q.begin, q.end = int64(a), int64(b)
	case 5:
		q.kind = "single"
		a = uint64(rapid.IntRange(0, int(minHead)).Draw(rt, "a"))
		b = a
		q.begin, q.end = int64(a), int64(b)
	case 6:
		q.kind = "index-tail"
		f := min(idx.First(), minHead)
		a = f - uint64(rapid.IntRange(0, int(min(f, 12))).Draw(rt, "before"))
		b = min(minHead, f+uint64(rapid.IntRange(0, 12).Draw(rt, "after")))
		q.begin, q.end = int64(a), int64(b)
	case 7:
		q.kind = "blockhash"
		q.byHash = true
		q.blk = chain[rapid.IntRange(0, len(chain)-1).Draw(rt, "hashBlock")]
		a, b = q.blk.num, q.blk.num
	}
	// criteria: derived from a log in the range (if any) half of the time
	var from *c40Log
	if rapid.IntRange(0, 9).Draw(rt, "fromLog") < 6 {
		prng := rand.New(rand.NewSource(int64(rapid.Uint64().Draw(rt, "pick"))))
		for try := 0; try < 8 && from == nil; try++ {
			blk := chain[a+uint64(prng.Int63n(int64(b-a+1)))]
			if len(blk.logs) > 0 {
				from = &blk.logs[prng.Intn(len(blk.logs))]
			}
		}
	}
	q.crit = w.drawCrit(from)
	return q
}

func (w *c40World) filter(q *c40Query) *Filter {
	if q.byHash {
		return w.sys.NewBlockFilter(q.blk.hash, q.crit.addrs, q.crit.topics)
	}
	return w.sys.NewRangeFilter(q.begin, q.end, q.crit.addrs, q.crit.topics, 0)
}

type c40Answer struct {
	logs     []*types.Log
	err      error
	timedOut bool
}

func (w *c40World) ask(q *c40Query) c40Answer {
	ctx, cancel := context.WithTimeout(context.Background(), c40QueryBound)
	defer cancel()
	logs, err := w.filter(q).Logs(ctx)
	return c40Answer{logs, err, ctx.Err() != nil}
}

func (w *c40World) askValve(q *c40Query) (ans c40Answer) {
	w.valve(func() { ans = w.ask(q) })
	return ans
}

// c40ClassTailRace: a range query that runs while the indexer unindexes a tail epoch
// overlapping the searched range fails with "failed to retrieve log value pointer ...
// not found" (the session's indexed range is stale, GetBlockLvPointer has no fallback
// for a block below the indexed tail) instead of falling back to the unindexed search.
// Only tolerated if the lead lists it in known_findings.json, and only where the
// trigger can be present: history limit set, indexer not known to be quiescent.
const c40ClassTailRace = "query-error-tail-unindex-race"

func (w *c40World) knownTailRace(err error, moment string) bool {
	if w.disabled || strings.Contains(moment, "quiescent") {
		return false
	}
	e := err.Error()
	if !strings.Contains(e, "not found") || !(strings.Contains(e, "failed to retrieve") || strings.Contains(e, "failed to process log index epoch")) {
		return false
	}
	if w.history != 0 && vs.Known("TestVerifC40Queries", c40ClassTailRace) {
		w.exclClass = c40ClassTailRace
		return true
	}
	if w.revertedSinceIdle && vs.Known("TestVerifC40Queries", c40ClassRevertRace) {
		w.exclClass = c40ClassRevertRace
		return true
	}
	return false
}

// c40ClassRevertRace: same symptom without any tail unindexing: the head is switched back
// to a shorter/other branch while a range query runs; the indexer reverts the head maps
// (row keys deleted) between rawdb.ReadFilterMapBaseRows' db.Has and db.Get, and the
// "not found" reaches the caller. Tolerated (if listed) only when a head switch removed
// canonical blocks since the last quiescence and the moment is not quiescent.
const c40ClassRevertRace = "query-error-head-revert-race"

// c40ClassTailPartial: when tail unindexing removes the epoch in which the block that the
// head renderer is still working on begins (history limit shorter than the indexer's lag),
// filterMapsRange.blocks becomes the empty range [B+1,B+1); the next head write calls
// blocks.SetAfterLast(B), which lowers blocks.first to B (common.Range.SetAfterLast), so
// block B is reported as fully indexed although its first log values lie in the removed
// epoch, and indexed searches silently miss those logs. The same lowering happens when an
// index with an unindexed tail is reverted down to its first block (checkRevertRange /
// getTempRange SetAfterLast(lastBlock) after a reorg at least as deep as the indexed range).
// Signature tolerated only if listed: some indexer of this scenario ran with a history limit
// (so the stored index can have an unindexed tail), nothing surplus or reordered, every
// missing log in one single block which is the first indexed block (or already below it).
const c40ClassTailPartial = "first-indexed-block-partially-unindexed"

func (w *c40World) knownTailPartial(q *c40Query, got []*types.Log, want []c40Exp) bool {
	if !vs.Known("TestVerifC40Queries", c40ClassTailPartial) || !w.everLimited || w.disabled || q.byHash || len(got) >= len(want) {
		return false
	}
	// got must be want minus one contiguous run of logs
	i := 0
	for i < len(got) && got[i].BlockHash == want[i].b.hash && got[i].Index == want[i].l.idx {
		i++
	}
	miss := len(want) - len(got)
	if c40Diff(got[i:], want[i+miss:]) != "" {
		return false
	}
	lo, hi := want[i].b.num, want[i+miss-1].b.num
	// The lowered blocks.first F can lie one or several blocks below the first really indexed log
	// value (checkRevertRange/getTempRange SetAfterLast(lastBlock) on a range whose first is above
	// lastBlock): every log from block F up to the first rendered map is lost, i.e. the run starts with
	// the first expected log at or above F and spans a few blocks of the tail epoch. F is the first
	// indexed block of some index state sampled in this scenario (defect manifest), or that minus one
	// (the straddling block the state still excluded), or lies at/below the current first indexed
	// block (the tail may have been re-indexed since, which heals the state).
	const span = 12
	fits := func(f uint64) bool {
		return f > 0 && f <= lo && hi-f <= span && (i == 0 || want[i-1].b.num < f)
	}
	idx, ok := w.indexed()
	if ok && !idx.IsEmpty() && idx.First() > 0 && lo <= idx.First() && hi <= idx.First() {
		return true
	}
	cands := make([]uint64, 0, 2*len(w.firsts))
	for f := range w.firsts {
		cands = append(cands, f, f-1)
	}
	slices.Sort(cands) // map order must not matter
	for _, f := range cands {
		if fits(f) {
			return true
		}
	}
	return false
}

// c40ClassTransient: while the indexer (re-)renders the head during a range query the answer is
// occasionally incomplete without any error — e.g. all logs of one block just below the re-rendered
// head map are missing — and the identical query asked again right away is correct (unexplained,
// about once in 20 000+ thorough scenarios). Tolerated (if listed) exactly when: the moment is not
// quiescent, no error, the answer is the scan of one candidate chain view minus ONE contiguous run
// of logs (nothing surplus, nothing reordered), and the identical query re-asked immediately equals
// the scan of the now-canonical chain. Persistent effects are still caught by recheck().
const c40ClassTransient = "transient-incomplete-answer-during-head-render"

func (w *c40World) knownTransient(q *c40Query, ans c40Answer, cands [][]*c40Blk, moment string) bool {
	if !vs.Known("TestVerifC40Queries", c40ClassTransient) || w.disabled || w.be.fm == nil || q.byHash ||
		ans.err != nil || strings.Contains(moment, "quiescent") {
		return false
	}
	oneRun := false
	for _, chain := range cands {
		want := q.expect(chain)
		if len(ans.logs) >= len(want) {
			continue
		}
		i := 0
		for i < len(ans.logs) && ans.logs[i].BlockHash == want[i].b.hash && ans.logs[i].Index == want[i].l.idx {
			i++
		}
		if c40Diff(ans.logs[i:], want[i+len(want)-len(ans.logs):]) == "" {
			oneRun = true
		}
	}
	if !oneRun {
		return false
	}
	first, last := q.blkRange(w.canon)
	if first > last || last > w.head().num {
		return false
	}
	again := w.askValve(q)
	if again.err != nil || c40Diff(again.logs, q.expect(w.canon)) != "" {
		return false
	}
	// The listed finding shows about once in 20 000+ scenarios; a defect with the same transient
	// symptom (e.g. a wrong trim of the result list when the view changes during a query) shows
	// several times per few hundred scenarios. Only the first c40TransientBudget occurrences in
	// one test process are tolerated; a further one is reported as a violation.
	// The budget grows with the number of judged queries (2 + one per 2000 queries) so that long
	// thorough shards, where a handful of genuine occurrences are expected, do not alarm, while a
	// defect (several occurrences per few hundred queries) still exceeds it quickly.
	return c40TransientSeen.Add(1) <= c40TransientBudget+c40Judged.Load()/2000
}

const c40TransientBudget = 2

var c40TransientSeen, c40Judged atomic.Int64

// recheck re-asks, with the indexer idle again, the range queries that were issued at non-quiescent
// moments since the last quiescence and are still valid for the current head, and requires exact
// equality with the scan of the current chain. It is never gated by the transient-answer finding,
// so persistent consequences of whatever happened during the racy phase (a wrong trim that sticks,
// stale index data, a damaged valid range) still fail the check.
func (w *c40World) recheck(st *vs.S) {
	pending := w.pending
	w.pending = nil
	if w.disabled || w.be.fm == nil {
		return
	}
	for _, q := range pending {
		if !q.byHash {
			first, last := q.blkRange(w.canon)
			if first > last || last > w.head().num {
				continue
			}
		}
		ans := w.ask(q)
		want := w.judge(q, ans, [][]*c40Blk{w.canon}, "recheck-quiescent")
		if w.excluded { // only the explicitly listed quiescent-capable findings can exclude here
			w.excluded = false
			st.Excluded()
			continue
		}
		c := st.Case()
		c.Class("moment:recheck-quiescent")
		c.Class("preset:" + w.preset.name)
		_ = want
	}
}

// judge compares an answer against the candidate chain views (one unless the head
// moved while the query ran).
func (w *c40World) judge(q *c40Query, ans c40Answer, cands [][]*c40Blk, moment string) []c40Exp {
	c40Judged.Add(1)
	if ans.err != nil && !ans.timedOut && w.knownTailRace(ans.err, moment) {
		w.tracef("query %s at %q: excluded (known finding %s): %v", q, moment, w.exclClass, ans.err)
		w.excluded = true
		return nil
	}
	if ans.err != nil {
		if ans.timedOut {
			w.t.Fatalf("VERIF-INCONCLUSIVE C40: query %s (%s) did not return within %v: %v", q, moment, c40QueryBound, ans.err)
		}
		w.rt.Fatalf("query %s at moment %q (head %d, preset %s, history %d, disabled %v, last op %s) failed: %v%s",
			q, moment, w.head().num, w.preset.name, w.history, w.disabled, w.lastOp, ans.err, w.traceText())
	}
	var diffs []string
	for i := len(cands) - 1; i >= 0; i-- {
		want := q.expect(cands[i])
		d := c40Diff(ans.logs, want)
		if d == "" {
			w.tracef("query %s at %q: %d logs, ok", q, moment, len(want))
			return want
		}
		if w.knownTailPartial(q, ans.logs, want) {
			w.tracef("query %s at %q: excluded (known finding %s): %s", q, moment, c40ClassTailPartial, d)
			w.excluded, w.exclClass = true, c40ClassTailPartial
			return nil
		}
		diffs = append(diffs, fmt.Sprintf("vs chain view #%d (head %d/%x): %s", i, len(cands[i])-1, cands[i][len(cands[i])-1].hash[:6], d))
	}
	if w.knownTransient(q, ans, cands, moment) {
		msg := fmt.Sprintf("C40 known finding %s: query %s at %q (preset %s, head %d, last op %s): %s; identical query re-asked at once equals the scan",
			c40ClassTransient, q, moment, w.preset.name, w.head().num, w.lastOp, strings.Join(diffs, " | "))
		fmt.Fprintln(os.Stderr, "VERIF-KNOWN-OCCURRENCE "+msg)
		w.tracef("%s", msg)
		w.excluded, w.exclClass = true, c40ClassTransient
		return nil
	}
	w.dumpPointers(q, cands[len(cands)-1])
	if w.release == nil && w.be.fm != nil { // triage aid: is the wrong answer transient?
		again := w.ask(q)
		w.tracef("same query asked again right away: %d logs, err=%v, equals the scan now: %v", len(again.logs), again.err,
			again.err == nil && c40Diff(again.logs, q.expect(cands[len(cands)-1])) == "")
	}
	w.rt.Fatalf("query %s at moment %q (preset %s, history %d, disabled %v, last op %s) does not equal the scan of canonical logs:\n  %s%s",
		q, moment, w.preset.name, w.history, w.disabled, w.lastOp, strings.Join(diffs, "\n  "), w.traceText())
	return nil
}

// dumpPointers adds the index's block pointers around the searched range to the trace
// (triage aid for failures).
func (w *c40World) dumpPointers(q *c40Query, chain []*c40Blk) {
	if w.be.fm == nil || q.byHash {
		return
	}
	mb := w.be.fm.NewMatcherBackend()
	defer mb.Close()
	first, last := q.blkRange(chain)
	var sb strings.Builder
	for n := first; n <= last+1 && n <= first+40; n++ {
		p, err := mb.GetBlockLvPointer(context.Background(), n)
		nv := 0
		if n < uint64(len(chain)) {
			for _, l := range chain[n].logs {
				nv += 1 + len(l.topics)
			}
		}
		if err != nil {
			fmt.Fprintf(&sb, " #%d:err(%dv)", n, nv)
		} else {
			fmt.Fprintf(&sb, " #%d:%d=map%d+%d(%dlogs,%dv)", n, p, p>>w.preset.vpm, p&(1<<w.preset.vpm-1), len(chain[min(n, uint64(len(chain)-1))].logs), nv)
		}
	}
	w.tracef("block lv pointers:%s", sb.String())
	// per-block potential matches straight from the matcher, against the model
	if !q.crit.matchAll() {
		sb.Reset()
		for n := first; n <= last && n <= first+40 && n < uint64(len(chain)); n++ {
			pm, err := filtermaps.GetPotentialMatches(context.Background(), mb, n, n, q.crit.addrs, q.crit.topics)
			want := c40Scan(chain, n, n, q.crit)
			have := map[uint]bool{}
			for _, l := range pm {
				if l != nil && l.BlockNumber == n {
					have[l.Index] = true
				}
			}
			var missing []uint
			for _, e := range want {
				if !have[e.l.idx] {
					missing = append(missing, e.l.idx)
				}
			}
			if len(missing) > 0 || err != nil {
				fmt.Fprintf(&sb, " #%d: %d potential, %d true, missing log indices %v err=%v;", n, len(pm), len(want), missing, err)
			}
		}
		w.tracef("single-block GetPotentialMatches false negatives:%s", sb.String())
	}
}

// classify records the statistics of one evaluated query.
func (w *c40World) classify(st *vs.S, q *c40Query, want []c40Exp, chain []*c40Blk, moment string, idx *common.Range[uint64]) {
	c := st.Case()
	c.Class("moment:" + moment)
	c.Class("range:" + q.kind)
	c.Class("preset:" + w.preset.name)
	c.Class("op:" + w.lastOp)
	c.Classf("addrs:%d", len(q.crit.addrs))
	c.Classf("topicpos:%d", len(q.crit.topics))
	if q.crit.matchAll() {
		c.Class("crit:match-all")
	}
	switch {
	case len(want) == 0:
		c.Class("result:empty")
	case len(want) < 10:
		c.Class("result:1-9")
	default:
		c.Class("result:10+")
	}
	var spansMap, straddle, removedMatch bool
	first, last := q.blkRange(chain)
	if !q.byHash && !q.crit.matchAll() {
		if idx != nil && !idx.IsEmpty() {
			inter := idx.Intersection(common.NewRange(first, last+1-first))
			switch {
			case inter.IsEmpty():
				c.Class("index:outside")
			case inter.Count() == last+1-first:
				c.Class("index:inside")
			default:
				straddle = true
				if first < idx.First() {
					c.Class("index:straddles-tail")
				}
				if last > idx.Last() {
					c.Class("index:straddles-head")
				}
			}
			if !inter.IsEmpty() && w.be.fm != nil {
				mb := w.be.fm.NewMatcherBackend()
				m1, ok1 := w.mapOf(mb, inter.First())
				m2, ok2 := w.mapOf(mb, inter.Last())
				mb.Close()
				if ok1 && ok2 && m1 != m2 {
					spansMap = true
					c.Class("maps:spans-boundary")
					if m1>>w.preset.mpe != m2>>w.preset.mpe {
						c.Class("maps:spans-epoch")
					}
				}
			}
		} else {
			c.Class("index:none")
		}
	}
	for _, b := range w.removed {
		if b.num < first || b.num > last || q.byHash {
			continue
		}
		for i := range b.logs {
			if q.crit.match(&b.logs[i]) {
				removedMatch = true
			}
		}
	}
	if removedMatch {
		c.Class("reorg:removed-matching-logs")
	}
	nt := spansMap || straddle || removedMatch
	c.NonTrivial(nt, fmt.Sprintf("%x|%s|%s|%s|%d|%v", w.head().hash[:8], q, moment, w.preset.name, w.history, idx))
	c.Sample(nt, func() any {
		return map[string]any{"query": q.String(), "moment": moment, "preset": w.preset.name, "history": w.history,
			"head": w.head().num, "results": len(want), "lastOp": w.lastOp, "indexed": fmt.Sprint(idx)}
	})
}

func (q *c40Query) blkRange(chain []*c40Blk) (uint64, uint64) {
	if q.byHash {
		return q.blk.num, q.blk.num
	}
	return c40Resolve(q.begin, chain), c40Resolve(q.end, chain)
}

// queries issues n queries against the current (static) chain.
func (w *c40World) queries(st *vs.S, n int, moment string) {
	if w.disabled {
		moment = "index-disabled"
	}
	if strings.Contains(moment, "quiescent") {
		w.recheck(st)
	}
	for i := 0; i < n; i++ {
		var idx *common.Range[uint64]
		withheld := w.release != nil
		lookBefore := rapid.Bool().Draw(w.rt, "lookBefore")
		if lookBefore {
			if r, ok := w.indexed(); ok {
				idx = &r
			}
		}
		q := w.drawQuery([][]*c40Blk{w.canon}, idx)
		ans := w.askValve(q)
		m := moment
		if withheld && w.release == nil {
			m += "-then-released"
		}
		if !strings.Contains(m, "quiescent") && len(w.pending) < 8 {
			w.pending = append(w.pending, q)
		}
		want := w.judge(q, ans, [][]*c40Blk{w.canon}, m)
		if w.excluded {
			w.excluded = false
			st.Excluded()
			st.Case().Class("excluded:" + w.exclClass)
			continue
		}
		if !lookBefore {
			if r, ok := w.indexed(); ok {
				idx = &r
			}
		}
		w.classify(st, q, want, w.canon, m, idx)
	}
}

// ---------------------------------------------------------------------------
// chain operations (prepared first, committed atomically)

func (w *c40World) drawDensity() c40Density {
	switch rapid.IntRange(0, 5).Draw(w.rt, "density") {
	case 0:
		return c40Density{1, 1} // sparse: many empty blocks
	case 1:
		return c40Density{6, 8}
	case 2:
		return c40Density{2, 8}
	case 3:
		return c40Density{0, 0} // no logs at all
	default:
		return c40Density{rapid.IntRange(0, 6).Draw(w.rt, "txMax"), rapid.IntRange(0, 8).Draw(w.rt, "logMax")}
	}
}

// prepare draws a chain operation and returns the canonical chain it leads to.
func (w *c40World) prepare(maxGrow int) ([]*c40Blk, string) {
	rt := w.rt
	n := len(w.canon)
	kind := rapid.IntRange(0, 9).Draw(rt, "chainOp")
	// Switching back to a remembered branch is not generated in this unit (lead's decision after an
	// unexplained, non-reproducible wrong answer right after such a switch, see notes/C40.md "Open
	// observation"): the draw is kept (replays stay valid) and mapped to a reorg.
	if kind >= 8 {
		kind = 3
	}
	if kind >= 3 && kind <= 6 && n < 8 {
		kind = 0 // keep a few blocks above genesis
	}
	switch {
	case kind <= 2: // extend
		cnt := rapid.IntRange(1, maxGrow).Draw(rt, "extend")
		blks := w.generate(w.head(), cnt, rapid.Uint64().Draw(rt, "seed"), w.drawDensity())
		return append(slices.Clone(w.canon), blks...), "extend"
	case kind <= 6: // reorg: replace the last k blocks by m others
		k := rapid.IntRange(1, max(1, (n-1)/2)).Draw(rt, "drop")
		if k > n-1 {
			k = n - 1
		}
		m := rapid.IntRange(0, min(k+10, maxGrow+k)).Draw(rt, "add")
		w.saved = append(w.saved, slices.Clone(w.canon))
		base := slices.Clone(w.canon[:n-k])
		if m == 0 {
			return base, "rewind"
		}
		blks := w.generate(base[len(base)-1], m, rapid.Uint64().Draw(rt, "seed"), w.drawDensity())
		op := "reorg-shallow"
		if k > 8 {
			op = "reorg-deep"
		}
		return append(base, blks...), op
	case kind == 7: // nothing
		return w.canon, "none"
	default: // back to a remembered branch, at a drawn height
		// Restoring canonical entries that were canonical before is the one operation that can present
		// an A->B->A history to a live ChainView: ChainView.blockHash reads GetCanonicalHash(number)
		// and only afterwards checks (extendNonCanonical) that the view's known tail is canonical; if the
		// index is switched away and back between the two reads it returns the hash (or zero hash ->
		// "header not found") that was canonical in between. BlockChain cannot perform two reorgs inside
		// that window, so the harness must not either: a branch is only restored while no query runs
		// and the indexer is idle on the current chain (it then holds views of the current chain only
		// and is not inside blockHash), never as one of several switches during one query.
		if w.be.fm != nil && !w.disabled {
			w.setTarget()
			w.waitIdle()
		}
		s := w.saved[rapid.IntRange(0, len(w.saved)-1).Draw(rt, "saved")]
		h := rapid.IntRange(min(3, len(s)-1), len(s)-1).Draw(rt, "savedHead")
		w.saved = append(w.saved, slices.Clone(w.canon))
		if len(w.saved) > 6 {
			w.saved = w.saved[1:]
		}
		return slices.Clone(s[:h+1]), "switch-branch"
	}
}

// ---------------------------------------------------------------------------
// scenario

func c40Scenario(t *testing.T, rt *rapid.T, st *vs.S) {
	w := newC40World(t, rt)
	defer w.close()
	presets := c40Presets
	if only := os.Getenv("VERIF_C40_PRESET"); only != "" { // triage aid: restrict to presets whose name starts with the value
		presets = nil
		for _, p := range c40Presets {
			if strings.HasPrefix(p.name, only) {
				presets = append(presets, p)
			}
		}
	}
	w.preset = rapid.SampledFrom(presets).Draw(rt, "preset")
	w.fmp = c40Params(t, w.preset)

	maxInit, maxGrow, maxSteps := 90, 30, 10
	if vs.Thorough() {
		maxInit, maxGrow, maxSteps = 160, 40, 14
	}
	init := w.generate(nil, rapid.IntRange(10, maxInit).Draw(rt, "initial"), rapid.Uint64().Draw(rt, "seed"), w.drawDensity())
	w.commit(append(slices.Clone(w.canon), init...), "initial")

	drawHistoryRaw := func() uint64 {
		n := len(w.canon)
		switch rapid.IntRange(0, 9).Draw(rt, "historyKind") {
		case 0, 1, 2, 3:
			return 0
		case 4, 5:
			return uint64(rapid.IntRange(1, 30).Draw(rt, "history"))
		case 6, 7, 8:
			return uint64(rapid.IntRange(1, n).Draw(rt, "history"))
		default:
			return uint64(n + rapid.IntRange(0, 50).Draw(rt, "history"))
		}
	}
	// While the known finding c40ClassTailPartial is listed, the trigger is avoided by construction
	// in this unit: a history limit that could ever unindex a tail epoch is replaced by one that
	// cannot (larger than any chain the scenario can build), because the damaged tail (blocks
	// reported as indexed whose maps are not rendered; healed again by later tail indexing) shows
	// up in too many schedule-dependent shapes for an after-the-fact signature to be both narrow and
	// reliable. Counted as excluded_known; the white-box unit keeps drawing history limits (its gate
	// is an exact state test). The same draws are made either way, so replays stay valid.
	drawHistory := func() uint64 {
		h := drawHistoryRaw()
		if h != 0 && vs.Known("TestVerifC40Queries", c40ClassTailPartial) {
			st.Excluded()
			return 1 << 20
		}
		return h
	}
	w.start(drawHistory(), rapid.IntRange(0, 19).Draw(rt, "disabled") == 0)
	if rapid.Bool().Draw(rt, "queryBeforeIndexed") {
		w.queries(st, rapid.IntRange(1, 2).Draw(rt, "nq"), "just-started")
	}

	steps := rapid.IntRange(4, maxSteps).Draw(rt, "steps")
	for s := 0; s < steps; s++ {
		nq := rapid.IntRange(1, 3).Draw(rt, "nq")
		mode := rapid.IntRange(0, 11).Draw(rt, "mode")
		switch {
		case mode <= 2: // tell the indexer and wait for quiescence
			next, op := w.prepare(maxGrow)
			w.commit(next, op)
			w.setTarget()
			w.waitIdle()
			w.queries(st, nq, "quiescent")
		case mode <= 5: // tell the indexer, do not wait
			next, op := w.prepare(maxGrow)
			w.commit(next, op)
			w.setTarget()
			w.queries(st, nq, "indexer-running")
		case mode == 6: // head moved, indexer not told yet
			next, op := w.prepare(maxGrow)
			w.commit(next, op)
			w.release = w.setTarget
			w.queries(st, nq, "target-not-set")
			if w.release != nil {
				w.release()
				w.release = nil
			}
		case mode == 7: // indexing suspended by the block processing flag (set while idle)
			if w.disabled {
				w.queries(st, nq, "disabled")
				continue
			}
			next, op := w.prepare(maxGrow)
			if rapid.Bool().Draw(rt, "suspendWhileIdle") {
				w.waitIdle()
				w.be.fm.SetBlockProcessing(true)
				w.tracef("SetBlockProcessing(true)")
				w.frozen = true
				w.commit(next, op)
				w.setTarget()
			} else { // suspension may hit the indexer mid-way
				w.commit(next, op)
				w.setTarget()
				for i := rapid.IntRange(0, 3).Draw(rt, "yields"); i > 0; i-- {
					runtime.Gosched()
				}
				w.be.fm.SetBlockProcessing(true)
				w.tracef("SetBlockProcessing(true)")
				w.frozen = true
			}
			w.release = func() {
				w.be.fm.SetBlockProcessing(false)
				w.tracef("SetBlockProcessing(false)")
				w.frozen = false
			}
			w.queries(st, nq, "suspended")
			if w.release != nil {
				w.release()
				w.release = nil
			}
		case mode <= 9: // head switch while the query runs
			w.concurrent(st, maxGrow)
		default: // restart the indexer (other history limit / disabled), possibly mid-way and with the head moved meanwhile
			if rapid.Bool().Draw(rt, "settleBeforeStop") {
				w.setTarget()
				w.waitIdle()
			}
			w.be.stopFilterMaps()
			w.tracef("indexer stopped")
			if rapid.Bool().Draw(rt, "moveWhileStopped") {
				next, op := w.prepare(maxGrow)
				w.commit(next, op)
			}
			w.lastOp = "restart+" + w.lastOp
			w.start(drawHistory(), rapid.IntRange(0, 11).Draw(rt, "disabled") == 0)
			if rapid.Bool().Draw(rt, "waitAfterStart") {
				w.waitIdle()
				w.queries(st, nq, "restarted-quiescent")
			} else {
				w.queries(st, nq, "restarted-running")
			}
		}
	}
	// final quiescent round
	w.setTarget()
	w.waitIdle()
	w.queries(st, 2, "quiescent")
	if !w.disabled {
		// Not part of the property (answers stay right through the unindexed fallback), only
		// recorded so that the evidence shows how often the index really covered the head.
		if r, ok := w.indexed(); !ok || r.IsEmpty() || r.Last() != w.head().num {
			st.Note("after the final quiescence the index did not reach the head in some scenario (e.g. indexed %v, head %d, last op %s): seen when an indexer is restarted on a head beyond its stored index head; it resumes with the next target", r, w.head().num, w.lastOp)
			c40BehindHead.Add(1)
		} else {
			c40AtHead.Add(1)
		}
	}
}

// concurrent runs one query while the canonical head is switched (atomically) once
// or twice. Filter.Logs promises an answer consistent with one chain view taken
// during the call, so the answer must equal the scan of one of the chains that were
// canonical between the start and the end of the call.
func (w *c40World) concurrent(st *vs.S, maxGrow int) {
	rt := w.rt
	cands := [][]*c40Blk{w.canon}
	type prepared struct {
		chain []*c40Blk
		op    string
	}
	var ops []prepared
	nops := rapid.IntRange(1, 2).Draw(rt, "concOps")
	cur := w.canon
	for i := 0; i < nops; i++ {
		// prepare against the chain as it will be when the op is committed
		saveCanon := w.canon
		w.canon = cur
		w.noBranchSwitch = true
		next, op := w.prepare(maxGrow)
		w.noBranchSwitch = false
		w.canon = saveCanon
		ops = append(ops, prepared{next, op})
		cands = append(cands, next)
		cur = next
	}
	q := w.drawQuery(cands, nil)
	yields := rapid.IntRange(0, 3).Draw(rt, "yields")
	tellLate := rapid.Bool().Draw(rt, "tellLate")

	done := make(chan c40Answer, 1)
	go func() { done <- w.ask(q) }()
	for i := 0; i < yields; i++ {
		runtime.Gosched()
	}
	for _, p := range ops {
		w.commit(p.chain, p.op)
		if tellLate {
			runtime.Gosched()
		}
		w.setTarget() // never withheld: the query may iterate until the index follows the new head
		runtime.Gosched()
	}
	var ans c40Answer
	select {
	case ans = <-done:
	case <-time.After(c40QueryBound + time.Minute):
		w.t.Fatalf("VERIF-INCONCLUSIVE C40: concurrent query %s did not return", q)
	}
	if len(w.pending) < 8 {
		w.pending = append(w.pending, q)
	}
	want := w.judge(q, ans, cands, "head-moving")
	if w.excluded {
		w.excluded = false
		st.Excluded()
		st.Case().Class("excluded:" + w.exclClass)
		return
	}
	var idx *common.Range[uint64]
	if r, ok := w.indexed(); ok {
		idx = &r
	}
	w.classify(st, q, want, w.canon, "head-moving", idx)
}

var c40BehindHead, c40AtHead atomic.Int64

func TestVerifC40Queries(t *testing.T) {
	if os.Getenv("VERIF_C40_LOG") != "" { // triage aid: geth's own log output (warn and above) on stderr
		log.SetDefault(log.NewLogger(log.NewTerminalHandlerWithLevel(os.Stderr, log.LevelWarn, false)))
	}
	st := vs.New("C40", t)
	vs.Check(t, 1, func(rt *rapid.T) { c40Scenario(t, rt, st) })
	st.Note("scenarios ending with the index at the head: %d, behind the head: %d", c40AtHead.Load(), c40BehindHead.Load())
	if c40AtHead.Load() == 0 && c40BehindHead.Load() > 3 {
		t.Fatalf("VERIF-HARNESS-BUG: the log index never reached the head in %d scenarios; the index was not exercised", c40BehindHead.Load())
	}
}

// TestVerifC40Stress is a triage aid (only with VERIF_C40_STRESS=n): it repeats one racy step —
// deep revert of the head while the index covers the whole chain, then an immediate query on an
// old block — to raise the rate of schedule-dependent outcomes.
func TestVerifC40Stress(t *testing.T) {
	n, _ := strconv.Atoi(os.Getenv("VERIF_C40_STRESS"))
	if n == 0 {
		t.Skip("triage aid, enabled with VERIF_C40_STRESS=<iterations>")
	}
	rapid.Check(t, func(rt *rapid.T) {
		w := newC40World(t, rt)
		defer w.close()
		w.preset = c40Presets[1]
		if p := os.Getenv("VERIF_C40_PRESET"); p != "" {
			for _, c := range c40Presets {
				if strings.HasPrefix(c.name, p) {
					w.preset = c
				}
			}
		}
		w.fmp = c40Params(t, w.preset)
		init := w.generate(nil, 100, 7, c40Density{6, 8})
		w.commit(append(slices.Clone(w.canon), init...), "initial")
		full := w.canon
		side := append(slices.Clone(full[:5]), w.generate(full[4], 40, 11, c40Density{6, 8})...)
		w.start(0, false)
		w.waitIdle()
		crit := c40Crit{topics: [][]common.Hash{{w.tpool[1], w.tpool[3], w.tpool[0]}}}
		for it := 0; it < n; it++ {
			low := 3 + it%9
			w.trace = w.trace[:0]
			if it%3 == 0 {
				w.commit(slices.Clone(full[:low+1]), "rewind")
			} else {
				w.commit(slices.Clone(side[:max(low, 5)+1]), "switch-branch")
			}
			w.setTarget()
			for y := it % 4; y > 0; y-- {
				runtime.Gosched()
			}
			q := &c40Query{begin: 2, end: 2, crit: crit, kind: "single"}
			ans := w.ask(q)
			w.judge(q, ans, [][]*c40Blk{w.canon}, "indexer-running")
			w.waitIdle()
			w.commit(full, "restore")
			w.setTarget()
			if it%2 == 0 {
				w.waitIdle()
			} else {
				q2 := &c40Query{begin: 2, end: 40, crit: crit, kind: "random"}
				w.judge(q2, w.ask(q2), [][]*c40Blk{w.canon}, "indexer-running")
				w.waitIdle()
			}
		}
	})
}
