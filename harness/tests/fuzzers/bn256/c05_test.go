//go:build verif

package bn256

import (
	"bytes"
	"fmt"
	"math/big"
	"testing"

	cloudflare "github.com/ethereum/go-ethereum/crypto/bn256/cloudflare"
	gnark "github.com/ethereum/go-ethereum/crypto/bn256/gnark"
	google "github.com/ethereum/go-ethereum/crypto/bn256/google"
	"pgregory.net/rapid"
	vs "verif.local/kit/stat"
)

// C05 (BN254 part): the three interchangeable implementations (gnark, cloudflare,
// google) must take the same accept/reject decision on every G1/G2 encoding and
// return byte-identical Marshal output for Unmarshal, Add, ScalarMult, and the same
// PairingCheck verdict; none may panic on malformed input.

type c05F interface {
	Fatalf(string, ...any)
}

var (
	c05P     = cloudflare.P
	c05Order = cloudflare.Order
)

func c05Pad32(x *big.Int) []byte {
	out := make([]byte, 32)
	x.FillBytes(out)
	return out
}

// c05Guard turns a panic of the code under test into a reported failure with the input.
func c05Guard(t c05F, what string, input []byte) {
	if r := recover(); r != nil {
		t.Fatalf("PANIC in %s on input %x: %v", what, input, r)
	}
}

type c05G1 struct {
	cf *cloudflare.G1
	gg *google.G1
	gn *gnark.G1
}

type c05G2 struct {
	cf *cloudflare.G2
	gg *google.G2
	gn *gnark.G2
}

// c05ParseG1 feeds enc to all three Unmarshal functions and checks agreement.
func c05ParseG1(t c05F, enc []byte) (p c05G1, ok bool) {
	var errC, errG, errS error
	func() {
		defer c05Guard(t, "cloudflare.G1.Unmarshal", enc)
		p.cf = new(cloudflare.G1)
		_, errC = p.cf.Unmarshal(enc)
	}()
	func() {
		defer c05Guard(t, "google.G1.Unmarshal", enc)
		p.gg = new(google.G1)
		_, errG = p.gg.Unmarshal(enc)
	}()
	func() {
		defer c05Guard(t, "gnark.G1.Unmarshal", enc)
		p.gn = new(gnark.G1)
		_, errS = p.gn.Unmarshal(enc)
	}()
	if (errC == nil) != (errG == nil) || (errC == nil) != (errS == nil) {
		t.Fatalf("G1 accept/reject mismatch on %x: cloudflare=%v google=%v gnark=%v", enc, errC, errG, errS)
	}
	if errC != nil {
		return p, false
	}
	c05SameG1(t, "Unmarshal->Marshal", enc, p)
	if m := p.cf.Marshal(); !bytes.Equal(m, enc[:64]) {
		t.Fatalf("G1 Marshal(Unmarshal(x)) != x: in %x out %x", enc[:64], m)
	}
	return p, true
}

func c05SameG1(t c05F, what string, input []byte, p c05G1) []byte {
	var mc, mg, ms []byte
	func() {
		defer c05Guard(t, what+" Marshal", input)
		mc, mg, ms = p.cf.Marshal(), p.gg.Marshal(), p.gn.Marshal()
	}()
	if !bytes.Equal(mc, mg) || !bytes.Equal(mc, ms) {
		t.Fatalf("G1 %s mismatch on input %x:\n cloudflare %x\n google     %x\n gnark      %x", what, input, mc, mg, ms)
	}
	return mc
}

func c05ParseG2(t c05F, enc []byte) (p c05G2, ok bool) {
	var errC, errG, errS error
	func() {
		defer c05Guard(t, "cloudflare.G2.Unmarshal", enc)
		p.cf = new(cloudflare.G2)
		_, errC = p.cf.Unmarshal(enc)
	}()
	func() {
		defer c05Guard(t, "google.G2.Unmarshal", enc)
		p.gg = new(google.G2)
		_, errG = p.gg.Unmarshal(enc)
	}()
	func() {
		defer c05Guard(t, "gnark.G2.Unmarshal", enc)
		p.gn = new(gnark.G2)
		_, errS = p.gn.Unmarshal(enc)
	}()
	if (errC == nil) != (errG == nil) || (errC == nil) != (errS == nil) {
		t.Fatalf("G2 accept/reject mismatch on %x: cloudflare=%v google=%v gnark=%v", enc, errC, errG, errS)
	}
	if errC != nil {
		return p, false
	}
	var mc, mg, ms []byte
	func() {
		defer c05Guard(t, "G2 Marshal", enc)
		mc, mg, ms = p.cf.Marshal(), p.gg.Marshal(), p.gn.Marshal()
	}()
	if !bytes.Equal(mc, mg) || !bytes.Equal(mc, ms) {
		t.Fatalf("G2 Unmarshal->Marshal mismatch on input %x:\n cloudflare %x\n google     %x\n gnark      %x", enc, mc, mg, ms)
	}
	if !bytes.Equal(mc, enc[:128]) {
		t.Fatalf("G2 Marshal(Unmarshal(x)) != x: in %x out %x", enc[:128], mc)
	}
	return p, true
}

func c05Add(t c05F, a, b c05G1, in []byte) []byte {
	var r c05G1
	func() {
		defer c05Guard(t, "G1.Add", in)
		r.cf = new(cloudflare.G1).Add(a.cf, b.cf)
		r.gg = new(google.G1).Add(a.gg, b.gg)
		r.gn = new(gnark.G1)
		r.gn.Add(a.gn, b.gn)
	}()
	return c05SameG1(t, "Add", in, r)
}

func c05Mul(t c05F, a c05G1, k *big.Int, in []byte) []byte {
	var r c05G1
	func() {
		defer c05Guard(t, "G1.ScalarMult", in)
		r.cf = new(cloudflare.G1).ScalarMult(a.cf, new(big.Int).Set(k))
		r.gg = new(google.G1).ScalarMult(a.gg, new(big.Int).Set(k))
		r.gn = new(gnark.G1)
		r.gn.ScalarMult(a.gn, new(big.Int).Set(k))
	}()
	return c05SameG1(t, "ScalarMult", in, r)
}

func c05Pairing(t c05F, g1 []c05G1, g2 []c05G2, in []byte) bool {
	var rc, rg, rs bool
	func() {
		defer c05Guard(t, "PairingCheck", in)
		ac, bc := make([]*cloudflare.G1, len(g1)), make([]*cloudflare.G2, len(g1))
		ag, bg := make([]*google.G1, len(g1)), make([]*google.G2, len(g1))
		as, bs := make([]*gnark.G1, len(g1)), make([]*gnark.G2, len(g1))
		for i := range g1 {
			ac[i], bc[i], ag[i], bg[i], as[i], bs[i] = g1[i].cf, g2[i].cf, g1[i].gg, g2[i].gg, g1[i].gn, g2[i].gn
		}
		rc = cloudflare.PairingCheck(ac, bc)
		rg = google.PairingCheck(ag, bg)
		rs = gnark.PairingCheck(as, bs)
	}()
	if rc != rg || rc != rs {
		t.Fatalf("PairingCheck mismatch on %d pairs %x: cloudflare=%v google=%v gnark=%v", len(g1), in, rc, rg, rs)
	}
	return rc
}

// ---- generators ----

func c05Scalar(rt *rapid.T, label string) (*big.Int, string) {
	switch rapid.IntRange(0, 9).Draw(rt, label+"Kind") {
	case 0:
		return big.NewInt(int64(rapid.IntRange(0, 3).Draw(rt, label+"Small"))), "scalar 0..3"
	case 1:
		d := int64(rapid.IntRange(-2, 2).Draw(rt, label+"AroundN"))
		return new(big.Int).Add(c05Order, big.NewInt(d)), "scalar n±2"
	case 2:
		tops := []*big.Int{
			new(big.Int).Sub(new(big.Int).Lsh(big.NewInt(1), 256), big.NewInt(1)), new(big.Int).Lsh(big.NewInt(1), 255),
			new(big.Int).Lsh(c05Order, 1), new(big.Int).Add(new(big.Int).Lsh(c05Order, 1), big.NewInt(1)), c05P, new(big.Int).Lsh(big.NewInt(1), 128),
		}
		return tops[rapid.IntRange(0, len(tops)-1).Draw(rt, label+"Top")], "scalar large constant"
	default:
		return new(big.Int).SetBytes(rapid.SliceOfN(rapid.Byte(), 32, 32).Draw(rt, label+"Raw")), "scalar random 256-bit"
	}
}

func c05ValidG1(k *big.Int) []byte {
	return new(cloudflare.G1).ScalarBaseMult(new(big.Int).Mod(k, c05Order)).Marshal()
}

func c05ValidG2(k *big.Int) []byte {
	return new(cloudflare.G2).ScalarBaseMult(new(big.Int).Mod(k, c05Order)).Marshal()
}

// c05G1Enc draws a G1 encoding; valid tells whether it is a canonical encoding of a
// curve point or infinity (by construction).
func c05G1Enc(rt *rapid.T, label string) (enc []byte, class string, valid bool) {
	k, _ := c05Scalar(rt, label+"K")
	base := c05ValidG1(k)
	x, y := new(big.Int).SetBytes(base[:32]), new(big.Int).SetBytes(base[32:])
	inf := x.Sign() == 0 && y.Sign() == 0
	switch rapid.IntRange(0, 15).Draw(rt, label+"Enc") {
	case 0, 1, 2, 3, 4, 5:
		if inf {
			return base, "G1 infinity", true
		}
		return base, "G1 valid k*G", true
	case 6:
		return make([]byte, 64), "G1 infinity", true
	case 7: // negated point
		if inf {
			return base, "G1 infinity", true
		}
		return append(c05Pad32(x), c05Pad32(new(big.Int).Sub(c05P, y))...), "G1 valid negated", true
	case 8: // coordinate >= p (same residue)
		m := big.NewInt(int64(rapid.IntRange(1, 3).Draw(rt, label+"Mult")))
		add := new(big.Int).Mul(c05P, m)
		if rapid.Bool().Draw(rt, label+"OverY") {
			return append(c05Pad32(x), c05Pad32(new(big.Int).Add(y, add))...), "G1 y>=p", false
		}
		return append(c05Pad32(new(big.Int).Add(x, add)), c05Pad32(y)...), "G1 x>=p", false
	case 9: // (p, p) or (0, p): non-canonical zero
		if rapid.Bool().Draw(rt, label+"PP") {
			return append(c05Pad32(c05P), c05Pad32(c05P)...), "G1 (p,p) non-canonical infinity", false
		}
		return append(make([]byte, 32), c05Pad32(c05P)...), "G1 (0,p) non-canonical infinity", false
	case 10: // off curve
		d := big.NewInt(int64(rapid.IntRange(1, 3).Draw(rt, label+"OffDelta")))
		if rapid.Bool().Draw(rt, label+"OffX") {
			return append(c05Pad32(new(big.Int).Mod(new(big.Int).Add(x, d), c05P)), c05Pad32(y)...), "G1 off curve", false
		}
		return append(c05Pad32(x), c05Pad32(new(big.Int).Mod(new(big.Int).Add(y, d), c05P))...), "G1 off curve", false
	case 11: // one coordinate zero
		if rapid.Bool().Draw(rt, label+"ZeroX") {
			return append(make([]byte, 32), c05Pad32(y)...), "G1 x=0", inf
		}
		return append(c05Pad32(x), make([]byte, 32)...), "G1 y=0", inf
	case 12:
		return rapid.SliceOfN(rapid.Byte(), 64, 64).Draw(rt, label+"Raw"), "G1 random bytes", false
	case 13: // bit flip
		b := append([]byte{}, base...)
		b[rapid.IntRange(0, 63).Draw(rt, label+"FlipByte")] ^= 1 << uint(rapid.IntRange(0, 7).Draw(rt, label+"FlipBit"))
		return b, "G1 bit flip", false
	case 14: // too short
		l := rapid.SampledFrom([]int{0, 1, 32, 63}).Draw(rt, label+"Short")
		return base[:l], "G1 too short", false
	default: // trailing bytes are ignored by all
		extra := rapid.SliceOfN(rapid.Byte(), 1, 70).Draw(rt, label+"Extra")
		return append(append([]byte{}, base...), extra...), "G1 valid with trailing bytes", true
	}
}

// ---- Fp2 arithmetic over big.Int (harness side, to build twist points outside the subgroup) ----

type c05Fp2 struct{ re, im *big.Int }

func c05Mod(x *big.Int) *big.Int { return x.Mod(x, c05P) }

func c05Fp2Mul(a, b c05Fp2) c05Fp2 {
	re := new(big.Int).Mul(a.re, b.re)
	re.Sub(re, new(big.Int).Mul(a.im, b.im))
	im := new(big.Int).Mul(a.re, b.im)
	im.Add(im, new(big.Int).Mul(a.im, b.re))
	return c05Fp2{c05Mod(re), c05Mod(im)}
}

func c05Fp2Add(a, b c05Fp2) c05Fp2 {
	return c05Fp2{c05Mod(new(big.Int).Add(a.re, b.re)), c05Mod(new(big.Int).Add(a.im, b.im))}
}

func c05FpSqrt(a *big.Int) (*big.Int, bool) {
	e := new(big.Int).Add(c05P, big.NewInt(1))
	e.Rsh(e, 2)
	r := new(big.Int).Exp(a, e, c05P)
	chk := new(big.Int).Mul(r, r)
	return r, c05Mod(chk).Cmp(new(big.Int).Mod(a, c05P)) == 0
}

func c05Fp2Sqrt(a c05Fp2) (c05Fp2, bool) {
	if a.im.Sign() == 0 {
		if r, ok := c05FpSqrt(a.re); ok {
			return c05Fp2{r, new(big.Int)}, true
		}
		r, ok := c05FpSqrt(new(big.Int).Sub(c05P, a.re))
		return c05Fp2{new(big.Int), r}, ok
	}
	norm := new(big.Int).Mul(a.re, a.re)
	norm.Add(norm, new(big.Int).Mul(a.im, a.im))
	alpha, ok := c05FpSqrt(c05Mod(norm))
	if !ok {
		return c05Fp2{}, false
	}
	inv2 := new(big.Int).ModInverse(big.NewInt(2), c05P)
	delta := c05Mod(new(big.Int).Mul(new(big.Int).Add(a.re, alpha), inv2))
	x0, ok := c05FpSqrt(delta)
	if !ok {
		delta = c05Mod(new(big.Int).Mul(new(big.Int).Sub(a.re, alpha), inv2))
		if x0, ok = c05FpSqrt(delta); !ok {
			return c05Fp2{}, false
		}
	}
	if x0.Sign() == 0 {
		return c05Fp2{}, false
	}
	x1 := new(big.Int).Mul(a.im, new(big.Int).ModInverse(new(big.Int).Lsh(x0, 1), c05P))
	r := c05Fp2{x0, c05Mod(x1)}
	sq := c05Fp2Mul(r, r)
	return r, sq.re.Cmp(new(big.Int).Mod(a.re, c05P)) == 0 && sq.im.Cmp(new(big.Int).Mod(a.im, c05P)) == 0
}

// twist coefficient b' = 3/(9+i) = (27 - 3i)/82
func c05TwistB() c05Fp2 {
	inv82 := new(big.Int).ModInverse(big.NewInt(82), c05P)
	re := c05Mod(new(big.Int).Mul(big.NewInt(27), inv82))
	im := c05Mod(new(big.Int).Mul(new(big.Int).Sub(c05P, big.NewInt(3)), inv82))
	return c05Fp2{re, im}
}

// c05TwistPoint returns an encoding of a point on the twist curve y^2 = x^3 + b' with the
// x coordinate derived from seed; such a point lies outside the order-n subgroup with
// overwhelming probability (the cofactor is ~2^254).
func c05TwistPoint(seedRe, seedIm *big.Int) ([]byte, bool) {
	x := c05Fp2{new(big.Int).Mod(seedRe, c05P), new(big.Int).Mod(seedIm, c05P)}
	b := c05TwistB()
	for try := 0; try < 64; try++ {
		rhs := c05Fp2Add(c05Fp2Mul(c05Fp2Mul(x, x), x), b)
		if y, ok := c05Fp2Sqrt(rhs); ok {
			// encoding: x.im || x.re || y.im || y.re
			enc := append(append(append(c05Pad32(x.im), c05Pad32(x.re)...), c05Pad32(y.im)...), c05Pad32(y.re)...)
			return enc, true
		}
		x.re = c05Mod(new(big.Int).Add(x.re, big.NewInt(1)))
	}
	return nil, false
}

func c05G2Enc(rt *rapid.T, label string) (enc []byte, class string, valid bool) {
	k, _ := c05Scalar(rt, label+"K")
	base := c05ValidG2(k)
	inf := bytes.Equal(base, make([]byte, 128))
	switch rapid.IntRange(0, 13).Draw(rt, label+"Enc") {
	case 0, 1, 2, 3, 4:
		if inf {
			return base, "G2 infinity", true
		}
		return base, "G2 valid k*H", true
	case 5:
		return make([]byte, 128), "G2 infinity", true
	case 6: // negated
		if inf {
			return base, "G2 infinity", true
		}
		b := append([]byte{}, base[:64]...)
		for _, off := range []int{64, 96} {
			c := new(big.Int).SetBytes(base[off : off+32])
			if c.Sign() != 0 {
				c.Sub(c05P, c)
			}
			b = append(b, c05Pad32(c)...)
		}
		return b, "G2 valid negated", true
	case 7: // one coordinate >= p
		b := append([]byte{}, base...)
		off := 32 * rapid.IntRange(0, 3).Draw(rt, label+"OverWhich")
		c := new(big.Int).SetBytes(b[off : off+32])
		c.Add(c, new(big.Int).Mul(c05P, big.NewInt(int64(rapid.IntRange(1, 3).Draw(rt, label+"Mult")))))
		copy(b[off:], c05Pad32(c))
		return b, "G2 coordinate>=p", false
	case 8: // on the twist curve, outside the subgroup
		sr := new(big.Int).SetBytes(rapid.SliceOfN(rapid.Byte(), 32, 32).Draw(rt, label+"TwRe"))
		si := new(big.Int).SetBytes(rapid.SliceOfN(rapid.Byte(), 32, 32).Draw(rt, label+"TwIm"))
		if rapid.Bool().Draw(rt, label+"TwSmall") {
			sr, si = big.NewInt(int64(rapid.IntRange(0, 50).Draw(rt, label+"TwReSmall"))), big.NewInt(int64(rapid.IntRange(0, 3).Draw(rt, label+"TwImSmall")))
		}
		if e, ok := c05TwistPoint(sr, si); ok {
			return e, "G2 on twist, outside subgroup", false
		}
		return make([]byte, 128), "G2 infinity", true
	case 9: // off curve
		b := append([]byte{}, base...)
		off := 32 * rapid.IntRange(0, 3).Draw(rt, label+"OffWhich")
		c := new(big.Int).SetBytes(b[off : off+32])
		c.Add(c, big.NewInt(int64(rapid.IntRange(1, 3).Draw(rt, label+"OffDelta"))))
		copy(b[off:], c05Pad32(c05Mod(c)))
		return b, "G2 off curve", false
	case 10:
		return rapid.SliceOfN(rapid.Byte(), 128, 128).Draw(rt, label+"Raw"), "G2 random bytes", false
	case 11:
		b := append([]byte{}, base...)
		b[rapid.IntRange(0, 127).Draw(rt, label+"FlipByte")] ^= 1 << uint(rapid.IntRange(0, 7).Draw(rt, label+"FlipBit"))
		return b, "G2 bit flip", false
	case 12:
		l := rapid.SampledFrom([]int{0, 64, 96, 127}).Draw(rt, label+"Short")
		return base[:l], "G2 too short", false
	default: // coordinates in the other order (re before im)
		b := append(append(append(append([]byte{}, base[32:64]...), base[0:32]...), base[96:128]...), base[64:96]...)
		return b, "G2 swapped re/im", inf
	}
}

// ---- properties ----

func c05CheckG1Ops(rt *rapid.T, c *vs.Case) (nontriv bool, desc string) {
	encA, classA, validA := c05G1Enc(rt, "a")
	a, okA := c05ParseG1(rt, encA)
	if validA && !okA {
		rt.Fatalf("all backends rejected a valid G1 encoding (%s): %x", classA, encA)
	}
	c.Class(classA)
	if okA {
		c.Class("G1 accepted")
	} else {
		c.Class("G1 rejected")
	}
	nontriv = okA || classA != "G1 too short"
	desc = fmt.Sprintf("%x", encA)
	if !okA {
		return
	}
	switch rapid.IntRange(0, 2).Draw(rt, "g1op") {
	case 0:
		var encB []byte
		var b c05G1
		okB := false
		switch rapid.IntRange(0, 3).Draw(rt, "addOther") {
		case 0: // doubling
			encB, b, okB = encA, a, true
			c.Class("Add doubling")
		case 1: // inverse
			x, y := new(big.Int).SetBytes(encA[:32]), new(big.Int).SetBytes(encA[32:64])
			if y.Sign() != 0 {
				y.Sub(c05P, y)
			}
			encB = append(c05Pad32(x), c05Pad32(y)...)
			b, okB = c05ParseG1(rt, encB)
			c.Class("Add inverse")
		default:
			var v bool
			encB, _, v = c05G1Enc(rt, "b")
			b, okB = c05ParseG1(rt, encB)
			_ = v
			c.Class("Add other")
		}
		if okB {
			in := append(append([]byte{}, encA[:64]...), encB[:64]...)
			sum := c05Add(rt, a, b, in)
			sum2 := c05Add(rt, b, a, in)
			if !bytes.Equal(sum, sum2) {
				rt.Fatalf("Add not commutative on %x: %x vs %x", in, sum, sum2)
			}
			desc += fmt.Sprintf("+%x", encB)
		}
	default:
		k, kClass := c05Scalar(rt, "k")
		in := append(append([]byte{}, encA[:64]...), c05Pad32(k)...)
		out := c05Mul(rt, a, k, in)
		c.Class("ScalarMult " + kClass)
		// the result re-parses everywhere
		if _, ok := c05ParseG1(rt, out); !ok {
			rt.Fatalf("ScalarMult result %x (input %x) is rejected by Unmarshal", out, in)
		}
		desc += fmt.Sprintf("*%x", k)
	}
	return
}

func c05CheckG2(rt *rapid.T, c *vs.Case) (bool, string) {
	enc, class, valid := c05G2Enc(rt, "g2")
	_, ok := c05ParseG2(rt, enc)
	if valid && !ok {
		rt.Fatalf("all backends rejected a valid G2 encoding (%s): %x", class, enc)
	}
	c.Class(class)
	if ok {
		c.Class("G2 accepted")
	} else {
		c.Class("G2 rejected")
	}
	return ok || class != "G2 too short", fmt.Sprintf("%x", enc)
}

func c05CheckPairing(rt *rapid.T, c *vs.Case) (bool, string) {
	n := rapid.IntRange(0, 4).Draw(rt, "pairs")
	var g1 []c05G1
	var g2 []c05G2
	var in []byte
	kind := rapid.IntRange(0, 2).Draw(rt, "pairKind")
	expectTrue := false
	class := ""
	addPair := func(e1, e2 []byte) {
		p, ok1 := c05ParseG1(rt, e1)
		q, ok2 := c05ParseG2(rt, e2)
		if !ok1 || !ok2 {
			rt.Fatalf("VERIF-HARNESS-BUG: constructed pairing input not accepted: %x %x", e1, e2)
		}
		g1, g2 = append(g1, p), append(g2, q)
		in = append(append(in, e1...), e2...)
	}
	switch {
	case kind == 0 && n >= 2:
		// e(aG, bH) * e(-abG, H) [* e(inf, Q) * e(P, inf)] == 1
		class = "pairing product constructed = 1"
		a, _ := c05Scalar(rt, "pa")
		b, _ := c05Scalar(rt, "pb")
		ab := new(big.Int).Mul(a, b)
		ab.Mod(ab, c05Order)
		neg := new(big.Int).Sub(c05Order, ab)
		addPair(c05ValidG1(a), c05ValidG2(b))
		addPair(c05ValidG1(neg), c05ValidG2(big.NewInt(1)))
		for i := 2; i < n; i++ {
			r, _ := c05Scalar(rt, "pr")
			if rapid.Bool().Draw(rt, "infLeft") {
				addPair(make([]byte, 64), c05ValidG2(r))
			} else {
				addPair(c05ValidG1(r), make([]byte, 128))
			}
		}
		expectTrue = true
	case kind == 1 && n >= 2:
		class = "pairing product constructed != 1 (off by one)"
		a, _ := c05Scalar(rt, "pa")
		b, _ := c05Scalar(rt, "pb")
		ab := new(big.Int).Mul(a, b)
		ab.Add(ab, big.NewInt(1))
		ab.Mod(ab, c05Order)
		addPair(c05ValidG1(a), c05ValidG2(b))
		addPair(c05ValidG1(new(big.Int).Sub(c05Order, ab)), c05ValidG2(big.NewInt(1)))
	default:
		class = fmt.Sprintf("pairing %d arbitrary valid pairs", n)
		for i := 0; i < n; i++ {
			r, _ := c05Scalar(rt, "pr1")
			s, _ := c05Scalar(rt, "pr2")
			addPair(c05ValidG1(r), c05ValidG2(s))
		}
	}
	res := c05Pairing(rt, g1, g2, in)
	if expectTrue && !res {
		rt.Fatalf("PairingCheck = false on a product constructed to be 1: %x", in)
	}
	c.Class(class)
	c.Classf("pairing result %v", res)
	return true, fmt.Sprintf("pair|%x", in)
}

func TestVerifC05BN254(t *testing.T) {
	st := vs.New("C05", t)
	// harness self-check: the big.Int twist arithmetic produces points the backends see as on-curve
	// but outside the subgroup is not assertable without trusting a backend; check the equation only.
	if enc, ok := c05TwistPoint(big.NewInt(1), big.NewInt(0)); !ok || len(enc) != 128 {
		t.Fatalf("VERIF-HARNESS-BUG: cannot construct a twist point")
	}
	vs.Check(t, 1, func(rt *rapid.T) {
		c := st.Case()
		var nt bool
		var desc string
		switch rapid.IntRange(0, 9).Draw(rt, "part") {
		case 0, 1, 2, 3, 4:
			nt, desc = c05CheckG1Ops(rt, c)
		case 5, 6, 7:
			nt, desc = c05CheckG2(rt, c)
		default:
			nt, desc = c05CheckPairing(rt, c)
		}
		c.NonTrivial(nt, desc)
		c.Sample(nt, func() any {
			d := desc
			if len(d) > 300 {
				d = d[:300] + "..."
			}
			return map[string]any{"case": d}
		})
	})
}

// c05FuzzBytes interprets raw bytes: data[0] selects the operation, the rest is fed
// verbatim as encodings (the EVM precompiles pad/truncate to fixed sizes first).
func c05FuzzBytes(t c05F, data []byte) {
	if len(data) == 0 {
		return
	}
	op, rest := data[0]%5, data[1:]
	pad := func(n int) []byte {
		b := make([]byte, n)
		copy(b, rest)
		return b
	}
	switch op {
	case 0:
		c05ParseG1(t, rest)
	case 1:
		c05ParseG2(t, rest)
	case 2:
		in := pad(128)
		a, ok1 := c05ParseG1(t, in[:64])
		b, ok2 := c05ParseG1(t, in[64:])
		if ok1 && ok2 {
			c05Add(t, a, b, in)
		}
	case 3:
		in := pad(96)
		if a, ok := c05ParseG1(t, in[:64]); ok {
			c05Mul(t, a, new(big.Int).SetBytes(in[64:96]), in)
		}
	default:
		n := len(rest) / 192
		if n > 2 {
			n = 2
		}
		var g1 []c05G1
		var g2 []c05G2
		for i := 0; i < n; i++ {
			p, ok1 := c05ParseG1(t, rest[i*192:i*192+64])
			q, ok2 := c05ParseG2(t, rest[i*192+64:(i+1)*192])
			if !ok1 || !ok2 {
				return
			}
			g1, g2 = append(g1, p), append(g2, q)
		}
		c05Pairing(t, g1, g2, rest[:n*192])
	}
}

func FuzzVerifC05BN254(f *testing.F) {
	g := c05ValidG1(big.NewInt(1))
	g2 := c05ValidG1(big.NewInt(2))
	h := c05ValidG2(big.NewInt(1))
	negG := append(append([]byte{}, g[:32]...), c05Pad32(new(big.Int).Sub(c05P, new(big.Int).SetBytes(g[32:])))...)
	f.Add(append([]byte{0}, g...))
	f.Add(append([]byte{1}, h...))
	f.Add(append(append([]byte{2}, g...), g2...))
	f.Add(append(append([]byte{3}, g...), c05Pad32(c05Order)...))
	f.Add(append(append(append(append([]byte{4}, g...), h...), negG...), h...))
	if tw, ok := c05TwistPoint(big.NewInt(1), big.NewInt(0)); ok {
		f.Add(append([]byte{1}, tw...))
	}
	f.Fuzz(func(t *testing.T, data []byte) {
		if len(data) > 1+2*192 {
			data = data[:1+2*192]
		}
		c05FuzzBytes(t, data)
	})
}
