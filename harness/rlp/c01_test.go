//go:build verif

package rlp

// C01: RLP decoding accepts exactly the canonical encodings.
//
//   (1) Decode(Encode(v)) == v for values of a type grammar;
//   (2) Encode(v) == refrlp.Encode(model(v)) (independent encoder);
//   (3) for bytes b and target type T: DecodeBytes accepts b iff the reference
//       type-directed decoder accepts it; accepted inputs re-encode to exactly b
//       and decode to the value the reference predicts;
//   (4) Split/SplitString/SplitList/SplitUint64/CountValues/SplitListValues agree
//       with Stream (Kind, Bytes, List, Uint64, BigInt, ReadUint256, Raw) and with
//       refrlp on accept/reject, kind, content boundaries, rest and on which
//       rejections are canonicality violations.

import (
	"bytes"
	"errors"
	"fmt"
	"io"
	"math/big"
	"os"
	"reflect"
	"strconv"
	"testing"
	"testing/iotest"

	"github.com/holiman/uint256"
	"pgregory.net/rapid"
	"verif.local/kit/refrlp"
	vs "verif.local/kit/stat"
)

// c01Case is a nil-tolerant wrapper so that the same property bodies serve the
// rapid tests (with statistics) and the native fuzz targets (without).
type c01Case struct{ c *vs.Case }

func c01NewCase(st *vs.S) c01Case {
	if st == nil {
		return c01Case{}
	}
	return c01Case{st.Case()}
}

func (c c01Case) Class(format string, a ...any) {
	if c.c != nil {
		c.c.Classf(format, a...)
	}
}

func (c c01Case) NonTrivial(ok bool, desc string) {
	if c.c != nil {
		c.c.NonTrivial(ok, desc)
	}
}

func (c c01Case) Sample(nt bool, f func() any) {
	if c.c != nil {
		c.c.Sample(nt, f)
	}
}

// ---------------------------------------------------------------------------
// (1) + (2): typed values

func c01IsCanonErr(err error) bool {
	var de *decodeError
	if errors.As(err, &de) {
		return de.msg == "non-canonical size information" || de.msg == "non-canonical integer (leading zero bytes)"
	}
	return errors.Is(err, ErrCanonSize) || errors.Is(err, ErrCanonInt)
}

// c01CheckValue checks the round trip and the independent encoder for one value
// (pv is a non-nil pointer to the value).
func c01CheckValue(t c01Fataler, pv reflect.Value, dirty reflect.Value) (enc []byte, item refrlp.Item) {
	typ := pv.Type().Elem()
	item = c01Model(pv.Elem())
	want := refrlp.Encode(item)

	enc, err := EncodeToBytes(pv.Interface())
	if err != nil {
		t.Fatalf("EncodeToBytes(%v %+v): %v", pv.Type(), pv.Elem().Interface(), err)
	}
	if !bytes.Equal(enc, want) {
		t.Fatalf("type %v: EncodeToBytes = %x, reference encoder = %x (item %v)", typ, enc, want, item)
	}
	// the non-pointer form encodes identically
	enc2, err := EncodeToBytes(pv.Elem().Interface())
	if err != nil || !bytes.Equal(enc2, want) {
		t.Fatalf("type %v: EncodeToBytes(non-pointer) = %x, %v; want %x", typ, enc2, err, want)
	}
	// the io.Writer path (encBuffer.writeTo) and the reader path (encReader)
	var wbuf bytes.Buffer
	if err := Encode(&wbuf, pv.Interface()); err != nil || !bytes.Equal(wbuf.Bytes(), want) {
		t.Fatalf("type %v: Encode(io.Writer) = %x, %v; want %x", typ, wbuf.Bytes(), err, want)
	}
	size, r, err := EncodeToReader(pv.Interface())
	if err != nil {
		t.Fatalf("type %v: EncodeToReader: %v", typ, err)
	}
	rb, err := io.ReadAll(iotest.OneByteReader(r))
	if err != nil || !bytes.Equal(rb, want) || size != len(want) {
		t.Fatalf("type %v: EncodeToReader = %x (size %d), %v; want %x", typ, rb, size, err, want)
	}

	// Decode(Encode(v)) == v
	out := reflect.New(typ)
	if err := DecodeBytes(enc, out.Interface()); err != nil {
		t.Fatalf("type %v: DecodeBytes(Encode(v)=%x): %v", typ, enc, err)
	}
	if !c01Equal(out.Elem(), pv.Elem()) {
		t.Fatalf("type %v: DecodeBytes(Encode(v)) != v\n enc  %x\n v    %+v\n got  %+v", typ, enc, pv.Elem().Interface(), out.Elem().Interface())
	}
	// streaming Decode from a reader without ByteReader (internal buffering), one byte at a time
	out2 := reflect.New(typ)
	if err := Decode(iotest.OneByteReader(bytes.NewReader(enc)), out2.Interface()); err != nil {
		t.Fatalf("type %v: Decode(reader, Encode(v)=%x): %v", typ, enc, err)
	}
	if !c01Equal(out2.Elem(), pv.Elem()) {
		t.Fatalf("type %v: Decode(reader) != v, enc %x got %+v", typ, enc, out2.Elem().Interface())
	}
	// decoding into an already populated value of the same type (pointers and
	// slices are reused by the decoder) yields the same value
	if dirty.IsValid() {
		if err := DecodeBytes(enc, dirty.Interface()); err != nil {
			t.Fatalf("type %v: DecodeBytes into populated value (%x): %v", typ, enc, err)
		}
		if !c01Equal(dirty.Elem(), pv.Elem()) {
			t.Fatalf("type %v: DecodeBytes into populated value != v\n enc %x\n v   %+v\n got %+v", typ, enc, pv.Elem().Interface(), dirty.Elem().Interface())
		}
	}
	return enc, item
}

func c01PropValues(st *vs.S) func(rt *rapid.T) {
	return func(rt *rapid.T) {
		c := c01NewCase(st)
		typ, origin := c01DrawType(rt)
		pv := reflect.New(typ)
		c01GenValue(rt, pv.Elem())
		var dirty reflect.Value
		if rapid.IntRange(0, 2).Draw(rt, "dirty") == 0 {
			dirty = reflect.New(typ)
			c01GenValue(rt, dirty.Elem())
		}
		// snapshot of the model before the calls, to detect mutation of the input
		before := refrlp.Encode(c01Model(pv.Elem()))
		enc, item := c01CheckValue(rt, pv, dirty)
		if after := refrlp.Encode(c01Model(pv.Elem())); !bytes.Equal(before, after) {
			rt.Fatalf("type %v: encoding/decoding mutated the input value: %x -> %x", typ, before, after)
		}
		// the reference type-directed decoder accepts it as well (harness self-check)
		if _, err := c01RefDecode(c01ShapeOf(typ), enc); err != nil {
			rt.Fatalf("VERIF-HARNESS-BUG: reference decoder rejects reference encoding %x for %v: %v", enc, typ, err)
		}
		var info c01ItemInfo
		c01Inspect(item, &info)
		nt := info.depth >= 2 || info.long
		c.Class("type:%s", origin)
		c.Class("shape:%s", c01KindName(c01ShapeOf(typ).kind))
		c.Class("depth:%d", min(info.depth, 4))
		if info.long {
			c.Class("payload>=56")
		}
		if info.edge {
			c.Class("payload=55|56")
		}
		if dirty.IsValid() {
			c.Class("dirty-target")
		}
		c.NonTrivial(nt, c01TypeName(typ)+"|"+string(enc))
		c.Sample(nt, func() any {
			return map[string]any{"type": c01TypeName(typ), "enc": c01Hex(enc), "item": c01Trunc(item.String())}
		})
	}
}

func c01Trunc(s string) string {
	if len(s) > 200 {
		return s[:200] + "..."
	}
	return s
}

func c01KindName(k c01Kind) string {
	return [...]string{"uint", "bool", "big", "u256", "bytes", "bytearray", "raw", "slice", "array", "struct", "any"}[k]
}

func TestVerifC01Values(t *testing.T) {
	st := vs.New("C01", t)
	vs.Check(t, 1, c01PropValues(st))
}

// ---------------------------------------------------------------------------
// encoder helpers (puthead thresholds, AppendUint64, size functions, EncoderBuffer)

func c01EncodeWithBuffer(w EncoderBuffer, it refrlp.Item) {
	if !it.IsList {
		w.WriteBytes(it.Str)
		return
	}
	idx := w.List()
	for _, c := range it.List {
		c01EncodeWithBuffer(w, c)
	}
	w.ListEnd(idx)
}

func c01CheckEncHelpers(t c01Fataler, it refrlp.Item, u uint64, bi *big.Int) {
	want := refrlp.Encode(it)
	w := NewEncoderBuffer(nil)
	c01EncodeWithBuffer(w, it)
	if got := w.ToBytes(); !bytes.Equal(got, want) {
		t.Fatalf("EncoderBuffer(%v) = %x, reference %x", it, got, want)
	}
	if w.Size() != len(want) {
		t.Fatalf("EncoderBuffer.Size = %d, want %d", w.Size(), len(want))
	}
	var sink bytes.Buffer
	w2 := NewEncoderBuffer(&sink)
	c01EncodeWithBuffer(w2, it)
	if err := w2.Flush(); err != nil || !bytes.Equal(sink.Bytes(), want) {
		t.Fatalf("EncoderBuffer.Flush(%v) = %x, %v; reference %x", it, sink.Bytes(), err, want)
	}
	if !it.IsList {
		if BytesSize(it.Str) != uint64(len(want)) || StringSize(string(it.Str)) != uint64(len(want)) {
			t.Fatalf("BytesSize/StringSize(%x) = %d/%d, want %d", it.Str, BytesSize(it.Str), StringSize(string(it.Str)), len(want))
		}
	} else {
		payload := 0
		for _, c := range it.List {
			payload += len(refrlp.Encode(c))
		}
		if ListSize(uint64(payload)) != uint64(len(want)) {
			t.Fatalf("ListSize(%d) = %d, want %d", payload, ListSize(uint64(payload)), len(want))
		}
	}
	// integers
	wantU := refrlp.Encode(refrlp.Uint(u))
	prefix := []byte{0xaa, 0xbb}
	if got := AppendUint64(append([]byte{}, prefix...), u); !bytes.Equal(got, append(append([]byte{}, prefix...), wantU...)) {
		t.Fatalf("AppendUint64(%d) = %x, want prefix+%x", u, got, wantU)
	}
	if IntSize(u) != len(wantU) {
		t.Fatalf("IntSize(%d) = %d, want %d", u, IntSize(u), len(wantU))
	}
	wu := NewEncoderBuffer(nil)
	wu.WriteUint64(u)
	if !bytes.Equal(wu.ToBytes(), wantU) {
		t.Fatalf("EncoderBuffer.WriteUint64(%d) = %x want %x", u, wu.ToBytes(), wantU)
	}
	wantB := refrlp.Encode(refrlp.BigInt(bi))
	wb := NewEncoderBuffer(nil)
	wb.WriteBigInt(bi)
	if !bytes.Equal(wb.ToBytes(), wantB) {
		t.Fatalf("EncoderBuffer.WriteBigInt(%v) = %x want %x", bi, wb.ToBytes(), wantB)
	}
	if bi.BitLen() <= 256 {
		u256, _ := uint256.FromBig(bi)
		wz := NewEncoderBuffer(nil)
		wz.WriteUint256(u256)
		if !bytes.Equal(wz.ToBytes(), wantB) {
			t.Fatalf("EncoderBuffer.WriteUint256(%v) = %x want %x", bi, wz.ToBytes(), wantB)
		}
	}
}

func TestVerifC01EncHelpers(t *testing.T) {
	st := vs.New("C01", t)
	vs.Check(t, 0.5, func(rt *rapid.T) {
		c := st.Case()
		it := c01GenItem(rt, 3)
		u := c01GenUint(rt, 64)
		bi := c01GenBig(rt, 40)
		c01CheckEncHelpers(rt, it, u, bi)
		var info c01ItemInfo
		c01Inspect(it, &info)
		nt := info.depth >= 2 || info.long
		c.Classf("depth:%d", min(info.depth, 4))
		if info.edge {
			c.Class("payload=55|56")
		}
		c.NonTrivial(nt, string(refrlp.Encode(it)))
	})
}

// ---------------------------------------------------------------------------
// (3): bytes against a target type

// c01CheckDecode runs oracle (3) for one input and one target type; it returns
// whether the input was accepted.
func c01CheckDecode(t c01Fataler, typ reflect.Type, b []byte) bool {
	sh := c01ShapeOf(typ)
	refItem, refErr := c01RefDecode(sh, b)
	in := append([]byte{}, b...)
	out := reflect.New(typ)
	err := DecodeBytes(in, out.Interface())
	if !bytes.Equal(in, b) {
		t.Fatalf("DecodeBytes modified its input %x -> %x", b, in)
	}
	if (err == nil) != (refErr == nil) {
		t.Fatalf("type %v input %x: DecodeBytes err = %v, reference err = %v (refrlp class %v)", typ, b, err, refErr, refrlp.Classify(b))
	}
	if err != nil {
		return false
	}
	// accepted => re-encodes to exactly the same bytes
	re, err := EncodeToBytes(out.Interface())
	if err != nil {
		t.Fatalf("type %v input %x: re-encoding the decoded value failed: %v", typ, b, err)
	}
	if !bytes.Equal(re, b) {
		t.Fatalf("type %v: accepted input %x re-encodes to %x (decoded %+v)", typ, b, re, out.Elem().Interface())
	}
	// accepted => the decoded value is the one the reference predicts
	if got := c01Model(out.Elem()); !refrlp.Equal(got, refItem) {
		t.Fatalf("type %v input %x: decoded value %v, reference %v", typ, b, got, refItem)
	}
	// accepted and no raw-value position => canonical according to refrlp
	if !sh.hasRaw {
		if it, err := refrlp.Decode(b); err != nil || !bytes.Equal(refrlp.Encode(it), b) {
			t.Fatalf("type %v: accepted input %x is not canonical for refrlp: %v", typ, b, err)
		}
	}
	return true
}

func c01PropBytes(st *vs.S) func(rt *rapid.T) {
	return func(rt *rapid.T) {
		c := c01NewCase(st)
		typ, _ := c01DrawType(rt)
		// start from a valid encoding of a value of typ
		pv := reflect.New(typ)
		c01GenValue(rt, pv.Elem())
		item := c01Model(pv.Elem())
		b := refrlp.Encode(item)
		mode := []string{"valid", "sloppy", "sloppy", "mutated", "mutated", "structural", "structural", "arbitrary"}[c01Pick(rt, "mode", 8)]
		what, twice := "", false
		switch mode {
		case "sloppy":
			var nonCanon bool
			b, nonCanon = c01SloppyEncode(rt, c01Unraw(item))
			if !nonCanon {
				mode = "valid"
			}
		case "mutated":
			b, what = c01Mutate(rt, b)
			if rapid.IntRange(0, 3).Draw(rt, "mut-twice") == 0 {
				b, _ = c01Mutate(rt, b)
				twice = true
			}
		case "structural":
			var it2 refrlp.Item
			it2, what = c01MutateItem(rt, item)
			b = refrlp.Encode(it2)
		case "arbitrary":
			b = rapid.SliceOfN(rapid.Byte(), 0, 300).Draw(rt, "arbitrary")
		}
		cls := refrlp.Classify(b)
		accepted := c01CheckDecode(rt, typ, b)
		if mode == "valid" && !accepted {
			rt.Fatalf("VERIF-HARNESS-BUG: valid encoding %x of %v not accepted", b, typ)
		}
		// the same bytes against other target types
		nAcc := 0
		if accepted {
			nAcc++
		}
		for i := 0; i < 3; i++ {
			other := c01Family[c01Pick(rt, "other-type", len(c01Family))]
			if c01CheckDecode(rt, other, b) {
				nAcc++
			}
		}
		c.Class("mode:%s", mode)
		c.Class("class:%v", cls)
		if accepted {
			c.Class("accepted:%s", mode)
		} else {
			c.Class("rejected:%s", mode)
		}
		if what != "" {
			c.Class("mut:%s", what)
		}
		if twice {
			c.Class("mut:two-mutations")
		}
		if accepted && mode == "sloppy" {
			c.Class("accepted:sloppy-inside-raw-position")
		}
		items := 0
		if it, err := refrlp.Decode(b); err == nil {
			var info c01ItemInfo
			c01Inspect(it, &info)
			items = info.items
		}
		nt := (mode != "valid" && cls == refrlp.NonCanonical) || (nAcc > 0 && items >= 2)
		c.NonTrivial(nt, c01TypeName(typ)+"|"+string(b))
		c.Sample(nt, func() any {
			return map[string]any{"type": c01TypeName(typ), "mode": mode, "mutation": what, "input": c01Hex(b),
				"refrlp_class": cls.String(), "accepted": accepted}
		})
	}
}

// c01Unraw replaces opaque raw items by their decoded trees so that the sloppy
// encoder can also forge headers inside them (undecodable ones stay opaque).
func c01Unraw(it refrlp.Item) refrlp.Item {
	if it.Raw != nil {
		if sub, err := refrlp.Decode(it.Raw); err == nil {
			return sub
		}
		return it
	}
	if !it.IsList {
		return it
	}
	cp := refrlp.Item{IsList: true, List: make([]refrlp.Item, len(it.List))}
	for i, c := range it.List {
		cp.List[i] = c01Unraw(c)
	}
	return cp
}

func TestVerifC01Bytes(t *testing.T) {
	st := vs.New("C01", t)
	vs.Check(t, 2, c01PropBytes(st))
}

// ---------------------------------------------------------------------------
// (4): raw helpers vs Stream vs refrlp

func c01RefCanonErr(err error) bool {
	return errors.Is(err, refrlp.ErrNonCanonSize) || errors.Is(err, refrlp.ErrNonCanonByte)
}

func c01RefIsUint(h refrlp.Header, content []byte, maxBytes int) bool {
	return !h.IsList && len(content) <= maxBytes && (len(content) == 0 || content[0] != 0)
}

// c01CheckRaw compares the raw helpers, the streaming decoder and refrlp on b.
// It returns the refrlp verdict on the first value for statistics.
func c01CheckRaw(t c01Fataler, b []byte) (firstOK bool, firstCanonViolation bool, nTop int) {
	h, rerr := refrlp.SplitHeader(b)
	ok := rerr == nil
	var content, rest []byte
	if ok {
		content, rest = b[h.HeaderLen:h.HeaderLen+h.ContentLen], b[h.HeaderLen+h.ContentLen:]
	}

	// --- Split
	k, gc, gr, err := Split(b)
	if (err == nil) != ok {
		t.Fatalf("Split(%x): err = %v, reference err = %v", b, err, rerr)
	}
	if ok {
		wantKind := String
		if h.IsList {
			wantKind = List
		} else if h.HeaderLen == 0 {
			wantKind = Byte
		}
		if k != wantKind || !bytes.Equal(gc, content) || !bytes.Equal(gr, rest) {
			t.Fatalf("Split(%x) = %v, %x, %x; reference %v, %x, %x", b, k, gc, gr, wantKind, content, rest)
		}
	} else if c01IsCanonErr(err) != c01RefCanonErr(rerr) {
		t.Fatalf("Split(%x): err = %v but reference says %v (disagreement on non-canonical)", b, err, rerr)
	}
	// --- SplitString / SplitList
	sc, sr, err := SplitString(b)
	if (err == nil) != (ok && !h.IsList) {
		t.Fatalf("SplitString(%x): err = %v, reference ok=%v list=%v", b, err, ok, h.IsList)
	}
	if err == nil && (!bytes.Equal(sc, content) || !bytes.Equal(sr, rest)) {
		t.Fatalf("SplitString(%x) = %x, %x; reference %x, %x", b, sc, sr, content, rest)
	}
	lc, lr, err := SplitList(b)
	if (err == nil) != (ok && h.IsList) {
		t.Fatalf("SplitList(%x): err = %v, reference ok=%v list=%v", b, err, ok, h.IsList)
	}
	if err == nil && (!bytes.Equal(lc, content) || !bytes.Equal(lr, rest)) {
		t.Fatalf("SplitList(%x) = %x, %x; reference %x, %x", b, lc, lr, content, rest)
	}
	// --- SplitUint64
	x, ur, err := SplitUint64(b)
	wantUint := ok && c01RefIsUint(h, content, 8)
	if (err == nil) != wantUint {
		t.Fatalf("SplitUint64(%x): err = %v, reference accepts = %v", b, err, wantUint)
	}
	if wantUint {
		if want := new(big.Int).SetBytes(content).Uint64(); x != want || !bytes.Equal(ur, rest) {
			t.Fatalf("SplitUint64(%x) = %d, %x; reference %d, %x", b, x, ur, want, rest)
		}
	}

	// --- Stream: Kind
	newStream := func() (*Stream, *bytes.Reader) {
		r := bytes.NewReader(b)
		return NewStream(r, 0), r
	}
	s, _ := newStream()
	sk, ssize, kerr := s.Kind()
	deferred := errors.Is(rerr, refrlp.ErrNonCanonByte) // Kind does not look at the content byte
	if (kerr == nil) != (ok || deferred) {
		t.Fatalf("Stream.Kind(%x): err = %v, reference err = %v", b, kerr, rerr)
	}
	if kerr == nil {
		wantKind, wantSize := String, uint64(h.ContentLen)
		if h.IsList {
			wantKind = List
		} else if h.HeaderLen == 0 {
			wantKind, wantSize = Byte, 0
		}
		if sk != wantKind || ssize != wantSize {
			t.Fatalf("Stream.Kind(%x) = %v, %d; reference %v, %d", b, sk, ssize, wantKind, wantSize)
		}
	} else if !ok && len(b) > 0 && c01IsCanonErr(kerr) != c01RefCanonErr(rerr) {
		t.Fatalf("Stream.Kind(%x): err = %v but reference says %v (disagreement on non-canonical)", b, kerr, rerr)
	}
	// --- Stream: Bytes
	s, r := newStream()
	sb, err := s.Bytes()
	if (err == nil) != (ok && !h.IsList) {
		t.Fatalf("Stream.Bytes(%x): err = %v, reference err=%v list=%v", b, err, rerr, h.IsList)
	}
	if err == nil && (!bytes.Equal(sb, content) || r.Len() != len(rest)) {
		t.Fatalf("Stream.Bytes(%x) = %x leaving %d bytes; reference %x leaving %d", b, sb, r.Len(), content, len(rest))
	}
	if deferred && !c01IsCanonErr(err) {
		t.Fatalf("Stream.Bytes(%x): err = %v, want a canonical-size error", b, err)
	}
	// --- Stream: ReadBytes with the exact size
	if ok && !h.IsList {
		s, r := newStream()
		buf := make([]byte, len(content))
		if err := s.ReadBytes(buf); err != nil || !bytes.Equal(buf, content) || r.Len() != len(rest) {
			t.Fatalf("Stream.ReadBytes(%x) = %x, %v; reference %x", b, buf, err, content)
		}
	} else if deferred {
		s, _ := newStream()
		if err := s.ReadBytes(make([]byte, 1)); !c01IsCanonErr(err) {
			t.Fatalf("Stream.ReadBytes(%x): err = %v, want a canonical-size error", b, err)
		}
	}
	// --- Stream: Raw
	s, r = newStream()
	raw, err := s.Raw()
	switch {
	case ok:
		if err != nil || !bytes.Equal(raw, b[:len(b)-len(rest)]) || r.Len() != len(rest) {
			t.Fatalf("Stream.Raw(%x) = %x, %v; reference %x", b, raw, err, b[:len(b)-len(rest)])
		}
	case deferred:
		// documented asymmetry: Raw does not re-validate 0x81 b<0x80; if it
		// accepts, it must return exactly those two bytes
		if err == nil && !bytes.Equal(raw, b[:2]) {
			t.Fatalf("Stream.Raw(%x) = %x, want %x", b, raw, b[:2])
		}
	default:
		if err == nil {
			t.Fatalf("Stream.Raw(%x) = %x accepted; reference err = %v", b, raw, rerr)
		}
	}
	// --- Stream: integers
	for _, bits := range []int{8, 16, 32, 64} {
		s, r := newStream()
		var v uint64
		var err error
		switch bits {
		case 8:
			var x uint8
			x, err = s.Uint8()
			v = uint64(x)
		case 16:
			var x uint16
			x, err = s.Uint16()
			v = uint64(x)
		case 32:
			var x uint32
			x, err = s.Uint32()
			v = uint64(x)
		default:
			v, err = s.Uint64()
		}
		want := ok && c01RefIsUint(h, content, bits/8)
		if (err == nil) != want {
			t.Fatalf("Stream.Uint%d(%x): err = %v, reference accepts = %v (ref err %v)", bits, b, err, want, rerr)
		}
		if want && (v != new(big.Int).SetBytes(content).Uint64() || r.Len() != len(rest)) {
			t.Fatalf("Stream.Uint%d(%x) = %d leaving %d; reference %x leaving %d", bits, b, v, r.Len(), content, len(rest))
		}
		if bits == 64 && (err == nil) != wantUint {
			t.Fatalf("Stream.Uint64 and SplitUint64 disagree on %x", b)
		}
	}
	s, r = newStream()
	bi, err := s.BigInt()
	wantBig := ok && c01RefIsUint(h, content, 1<<30)
	if (err == nil) != wantBig {
		t.Fatalf("Stream.BigInt(%x): err = %v, reference accepts = %v", b, err, wantBig)
	}
	if wantBig && (bi.Cmp(new(big.Int).SetBytes(content)) != 0 || r.Len() != len(rest)) {
		t.Fatalf("Stream.BigInt(%x) = %v; reference %x", b, bi, content)
	}
	s, r = newStream()
	var u256 uint256.Int
	err = s.ReadUint256(&u256)
	wantU256 := ok && c01RefIsUint(h, content, 32)
	if (err == nil) != wantU256 {
		t.Fatalf("Stream.ReadUint256(%x): err = %v, reference accepts = %v", b, err, wantU256)
	}
	if wantU256 && (u256.ToBig().Cmp(new(big.Int).SetBytes(content)) != 0 || r.Len() != len(rest)) {
		t.Fatalf("Stream.ReadUint256(%x) = %v; reference %x", b, &u256, content)
	}
	s, _ = newStream()
	bv, err := s.Bool()
	wantBool := ok && !h.IsList && (len(content) == 0 || (len(content) == 1 && content[0] == 1))
	if (err == nil) != wantBool || (wantBool && bv != (len(content) == 1)) {
		t.Fatalf("Stream.Bool(%x) = %v, %v; reference accepts = %v", b, bv, err, wantBool)
	}

	// --- list elements: Stream.List + element reads vs SplitListValues / CountValues vs refrlp
	s, r = newStream()
	lsize, err := s.List()
	if (err == nil) != (ok && h.IsList) {
		t.Fatalf("Stream.List(%x): err = %v, reference err=%v list=%v", b, err, rerr, h.IsList)
	}
	if ok && h.IsList {
		if lsize != uint64(len(content)) {
			t.Fatalf("Stream.List(%x) size = %d, reference %d", b, lsize, len(content))
		}
		refElems, refListErr := c01RefSplitAll(content)
		elems, err := SplitListValues(b)
		if (err == nil) != (refListErr == nil) {
			t.Fatalf("SplitListValues(%x): err = %v, reference err = %v", b, err, refListErr)
		}
		n, cerr := CountValues(content)
		if (cerr == nil) != (refListErr == nil) {
			t.Fatalf("CountValues(%x): err = %v, reference err = %v", content, cerr, refListErr)
		}
		if refListErr == nil {
			if n != len(refElems) || len(elems) != len(refElems) {
				t.Fatalf("list %x: CountValues = %d, SplitListValues = %d elements, reference %d", b, n, len(elems), len(refElems))
			}
			for i := range elems {
				if !bytes.Equal(elems[i], refElems[i]) {
					t.Fatalf("SplitListValues(%x)[%d] = %x, reference %x", b, i, elems[i], refElems[i])
				}
			}
		}
		// the stream walks the same elements: strings through Bytes (validating),
		// lists through Raw
		for i := 0; ; i++ {
			if i < len(refElems) {
				if more := s.MoreDataInList(); !more {
					t.Fatalf("Stream in list %x: MoreDataInList false before element %d of %d", b, i, len(refElems))
				}
				eh, _ := refrlp.SplitHeader(refElems[i])
				if eh.IsList {
					raw, err := s.Raw()
					if err != nil || !bytes.Equal(raw, refElems[i]) {
						t.Fatalf("Stream in list %x: element %d Raw = %x, %v; reference %x", b, i, raw, err, refElems[i])
					}
				} else {
					sb, err := s.Bytes()
					if err != nil || !bytes.Equal(sb, refElems[i][eh.HeaderLen:]) {
						t.Fatalf("Stream in list %x: element %d Bytes = %x, %v; reference %x", b, i, sb, err, refElems[i][eh.HeaderLen:])
					}
				}
				continue
			}
			// after the well-formed prefix: either the end of the list or the bad element
			_, err := s.Raw()
			if refListErr == nil {
				if err != EOL {
					t.Fatalf("Stream in list %x: after %d elements got %v, want EOL", b, i, err)
				}
				if err := s.ListEnd(); err != nil {
					t.Fatalf("Stream in list %x: ListEnd: %v", b, err)
				}
				if r.Len() != len(rest) {
					t.Fatalf("Stream after list %x: %d bytes left, reference %d", b, r.Len(), len(rest))
				}
			} else if err == nil && !errors.Is(refListErr, refrlp.ErrNonCanonByte) {
				t.Fatalf("Stream in list %x: element %d accepted by Raw; reference err = %v", b, i, refListErr)
			} else if errors.Is(refListErr, refrlp.ErrNonCanonByte) {
				// the validating reader must reject it
				s2, _ := newStream()
				s2.List()
				for j := 0; j < i; j++ {
					s2.Raw()
				}
				if _, err := s2.Bytes(); !c01IsCanonErr(err) {
					t.Fatalf("Stream in list %x: element %d Bytes err = %v, want canonical-size error", b, i, err)
				}
			}
			break
		}
	}

	// --- top-level sequence: CountValues(b) vs reference vs repeated Stream.Raw/Bytes
	refTop, refTopErr := c01RefSplitAll(b)
	n, cerr := CountValues(b)
	if (cerr == nil) != (refTopErr == nil) {
		t.Fatalf("CountValues(%x): err = %v, reference err = %v", b, cerr, refTopErr)
	}
	if refTopErr == nil && n != len(refTop) {
		t.Fatalf("CountValues(%x) = %d, reference %d", b, n, len(refTop))
	}
	if cerr != nil && n != len(refTop)+1 {
		t.Fatalf("CountValues(%x) failed at value %d, reference at %d", b, n, len(refTop)+1)
	}
	s, r = newStream()
	off := 0
	for i, e := range refTop {
		eh, _ := refrlp.SplitHeader(e)
		if eh.IsList {
			raw, err := s.Raw()
			if err != nil || !bytes.Equal(raw, e) {
				t.Fatalf("Stream over %x: value %d Raw = %x, %v; reference %x", b, i, raw, err, e)
			}
		} else {
			sb, err := s.Bytes()
			if err != nil || !bytes.Equal(sb, e[eh.HeaderLen:]) {
				t.Fatalf("Stream over %x: value %d Bytes = %x, %v; reference %x", b, i, sb, err, e[eh.HeaderLen:])
			}
		}
		off += len(e)
		if r.Len() != len(b)-off {
			t.Fatalf("Stream over %x: after value %d %d bytes left, reference %d", b, i, r.Len(), len(b)-off)
		}
	}
	if refTopErr == nil {
		if _, _, err := s.Kind(); err != io.EOF {
			t.Fatalf("Stream over %x: after %d values Kind err = %v, want io.EOF", b, len(refTop), err)
		}
	}
	return ok, c01RefCanonErr(rerr), len(refTop)
}

// c01RefSplitAll splits b into consecutive values using the reference header
// parser (headers validated at this level only). On error it returns the values
// before the offending one.
func c01RefSplitAll(b []byte) ([][]byte, error) {
	var out [][]byte
	for len(b) > 0 {
		h, err := refrlp.SplitHeader(b)
		if err != nil {
			return out, err
		}
		n := h.HeaderLen + h.ContentLen
		out = append(out, b[:n])
		b = b[n:]
	}
	return out, nil
}

func c01PropRaw(st *vs.S) func(rt *rapid.T) {
	return func(rt *rapid.T) {
		c := c01NewCase(st)
		mode := []string{"valid", "sequence", "sloppy", "sloppy", "mutated", "mutated", "arbitrary", "forged-header"}[c01Pick(rt, "mode", 8)]
		var b []byte
		item := c01GenItem(rt, 3)
		switch mode {
		case "valid":
			b = refrlp.Encode(item)
		case "sequence":
			n := rapid.IntRange(0, 4).Draw(rt, "seq-n")
			for i := 0; i < n; i++ {
				b = append(b, refrlp.Encode(c01GenItem(rt, 2))...)
			}
		case "sloppy":
			b, _ = c01SloppyEncode(rt, item)
			if rapid.Bool().Draw(rt, "sloppy-tail") {
				b = append(b, refrlp.Encode(c01GenItem(rt, 1))...)
			}
		case "mutated":
			b, _ = c01Mutate(rt, refrlp.Encode(item))
		case "arbitrary":
			b = rapid.SliceOfN(rapid.Byte(), 0, 300).Draw(rt, "arbitrary")
		default:
			b = c01ForgeHeader(rt)
		}
		ok, canonViol, nTop := c01CheckRaw(rt, b)
		cls := refrlp.Classify(b)
		c.Class("mode:%s", mode)
		c.Class("first-ok:%v", ok)
		if canonViol {
			c.Class("first-header-noncanonical")
		}
		c.Class("class:%v", cls)
		nt := cls == refrlp.NonCanonical || canonViol || (ok && nTop >= 2)
		if it, err := refrlp.Decode(b); err == nil && it.IsList && len(it.List) >= 2 {
			nt = true
		}
		c.NonTrivial(nt, string(b))
		c.Sample(nt, func() any {
			return map[string]any{"mode": mode, "input": c01Hex(b), "refrlp_class": cls.String(), "first_value_ok": ok}
		})
	}
}

// c01ForgeHeader builds an input from an explicit header description: tag class,
// number of length bytes, declared length and the amount of payload present.
func c01ForgeHeader(rt *rapid.T) []byte {
	isList := rapid.Bool().Draw(rt, "fh-list")
	lenBytes := rapid.IntRange(0, 8).Draw(rt, "fh-lenbytes") // 0 = short form
	declared := rapid.SampledFrom([]uint64{0, 1, 2, 54, 55, 56, 57, 255, 256, 257, 300, 65535, 65536, 1 << 24, 1 << 32, 1<<63 - 1, 1 << 63, 1<<64 - 1}).Draw(rt, "fh-declared")
	var out []byte
	if lenBytes == 0 {
		d := declared % 56
		if isList {
			out = append(out, 0xc0+byte(d))
		} else {
			out = append(out, 0x80+byte(d))
		}
		declared = d
	} else {
		if isList {
			out = append(out, 0xf7+byte(lenBytes))
		} else {
			out = append(out, 0xb7+byte(lenBytes))
		}
		for i := lenBytes - 1; i >= 0; i-- {
			out = append(out, byte(declared>>(8*uint(i))))
		}
		if lenBytes < 8 {
			declared &= 1<<(8*uint(lenBytes)) - 1
		}
		// sometimes cut inside the length bytes
		if rapid.IntRange(0, 9).Draw(rt, "fh-cut-len") == 0 {
			return out[:rapid.IntRange(1, len(out)).Draw(rt, "fh-cut-at")]
		}
	}
	present := declared
	switch rapid.IntRange(0, 3).Draw(rt, "fh-present") {
	case 0:
		if present > 0 {
			present--
		}
	case 1:
		present++
	}
	if present > 400 {
		present = uint64(rapid.IntRange(0, 400).Draw(rt, "fh-present-n"))
	}
	if isList {
		// payload made of single-byte items so that a well-delimited list is also well-formed inside
		for i := uint64(0); i < present; i++ {
			out = append(out, byte(rapid.IntRange(0, 0x7f).Draw(rt, "fh-item")))
			if i > 4 {
				out = append(out, bytes.Repeat([]byte{0x01}, int(present-i-1))...)
				break
			}
		}
	} else {
		out = append(out, c01GenBytesN(rt, "fh-payload", int(present))...)
	}
	return out
}

func TestVerifC01Raw(t *testing.T) {
	st := vs.New("C01", t)
	vs.Check(t, 2, c01PropRaw(st))
}

// ---------------------------------------------------------------------------
// exhaustive small inputs and systematic header forgeries

// c01SmallTypes are the targets of the exhaustive part (cheap shapes that can
// accept short inputs).
var c01SmallTypes = []reflect.Type{
	c01T[uint8](), c01T[uint16](), c01T[uint64](), c01T[bool](), c01T[*big.Int](), c01T[uint256.Int](),
	c01T[[]byte](), c01T[string](), c01T[RawValue](), c01T[[0]byte](), c01T[[1]byte](), c01T[[2]byte](),
	c01T[[]uint64](), c01T[[][]byte](), c01T[[]RawValue](), c01T[[1]uint8](), c01T[c01Pair](), c01T[any](),
	c01T[struct{ A bool }](), c01T[struct{ A, B uint8 }](), c01T[[]bool](),
}

func TestVerifC01Exhaustive(t *testing.T) {
	st := vs.New("C01", t)
	check := func(b []byte, label string) {
		c := st.Case()
		ok, canonViol, _ := c01CheckRaw(t, b)
		acc := 0
		for _, typ := range c01SmallTypes {
			if c01CheckDecode(t, typ, b) {
				acc++
			}
		}
		cls := refrlp.Classify(b)
		c.Classf("%s:%v", label, cls)
		c.NonTrivial(cls == refrlp.NonCanonical || canonViol || (ok && acc > 0 && len(b) >= 2), string(b))
		if cls == refrlp.NonCanonical {
			c.Sample(true, func() any { return map[string]any{"input": c01Hex(b), "refrlp_class": cls.String()} })
		}
	}
	// The 3-byte enumeration of the thorough tier is split over the shards by first
	// byte (VERIF_C01_SHARDS = number of shards, set in checks/C01.json); everything
	// else runs in shard 0.
	nshards := 1
	if v, err := strconv.Atoi(os.Getenv("VERIF_C01_SHARDS")); err == nil && v > 1 && vs.Thorough() {
		nshards = v
	}
	if vs.Shard() >= nshards {
		t.Skip("no enumeration part for this shard")
	}
	if vs.Thorough() {
		n := 0
		for f := 0; f < 256; f++ {
			if f%nshards != vs.Shard() {
				continue
			}
			n++
			for x := 0; x < 65536; x++ {
				check([]byte{byte(f), byte(x >> 8), byte(x)}, "len3")
			}
		}
		st.Exhaustive(fmt.Sprintf("all 3-byte strings whose first byte is congruent to %d mod %d (%d first bytes; the %d shards together cover every 3-byte string)", vs.Shard(), nshards, n, nshards))
	} else {
		// quick: all 3-byte strings for four first bytes, one in seven for 16 other header tags
		firsts := []byte{0x00, 0x7f, 0x80, 0x81, 0x82, 0x83, 0xb7, 0xb8, 0xb9, 0xba, 0xbf, 0xc0, 0xc1, 0xc2, 0xc3, 0xf7, 0xf8, 0xf9, 0xfa, 0xff}
		for _, f := range firsts {
			full := f == 0x82 || f == 0xc2 || f == 0xb8 || f == 0xf8
			for x := 0; x < 65536; x++ {
				if full || x%7 == 0 {
					check([]byte{f, byte(x >> 8), byte(x)}, "len3")
				}
			}
		}
	}
	if vs.Shard() != 0 {
		return
	}
	// every input of length 0, 1, 2
	check(nil, "len0")
	for x := 0; x < 256; x++ {
		check([]byte{byte(x)}, "len1")
	}
	for x := 0; x < 65536; x++ {
		check([]byte{byte(x >> 8), byte(x)}, "len2")
	}
	if vs.Thorough() {
		st.Exhaustive("all byte strings of length 0..2")
	} else {
		st.Exhaustive("all byte strings of length 0..2, and all 3-byte strings with first byte 82/c2/b8/f8")
	}

	// systematic long-form headers: every tag b8..bf / f8..ff x declared length x
	// length-of-length, with payload exact / one short / one extra
	lens := []uint64{0, 1, 2, 54, 55, 56, 57, 58, 255, 256, 257, 1000}
	for _, isList := range []bool{false, true} {
		for lb := 1; lb <= 8; lb++ {
			for _, d := range lens {
				if lb < 8 && d >= 1<<(8*uint(lb)) {
					continue
				}
				for _, delta := range []int{-1, 0, 1} {
					tag := byte(0xb7 + lb)
					if isList {
						tag = byte(0xf7 + lb)
					}
					b := []byte{tag}
					for i := lb - 1; i >= 0; i-- {
						b = append(b, byte(d>>(8*uint(i))))
					}
					n := int(d) + delta
					if n < 0 {
						continue
					}
					if isList {
						b = append(b, bytes.Repeat([]byte{0x05}, n)...)
					} else {
						b = append(b, bytes.Repeat([]byte{0xee}, n)...)
					}
					check(b, "longform")
				}
			}
		}
	}
}

// ---------------------------------------------------------------------------
// native fuzz targets (thorough tier)

// FuzzVerifC01Bytes: coverage-guided raw bytes through oracles (4) and (3)
// against every type of the fixed family.
func FuzzVerifC01Bytes(f *testing.F) {
	for _, s := range c01FuzzSeeds() {
		f.Add(s)
	}
	f.Fuzz(func(t *testing.T, data []byte) {
		if len(data) > 4096 {
			return
		}
		c01CheckRaw(t, data)
		for _, typ := range c01Family {
			c01CheckDecode(t, typ, data)
		}
	})
}

// FuzzVerifC01Values drives the typed-value property from fuzzer bytes.
func FuzzVerifC01Values(f *testing.F) {
	f.Fuzz(rapid.MakeFuzz(c01PropValues(nil)))
}

// c01FuzzSeeds are valid and nearly valid encodings produced by the reference encoder.
func c01FuzzSeeds() [][]byte {
	long := bytes.Repeat([]byte{0xab}, 60)
	items := []refrlp.Item{
		refrlp.S(nil), refrlp.S([]byte{0}), refrlp.S([]byte{0x7f}), refrlp.S([]byte{0x80}), refrlp.S([]byte("dog")),
		refrlp.S(long[:55]), refrlp.S(long[:56]), refrlp.Uint(1024), refrlp.Uint(1<<64 - 1),
		refrlp.L(), refrlp.L(refrlp.S([]byte("cat")), refrlp.S([]byte("dog"))),
		refrlp.L(refrlp.L(), refrlp.L(refrlp.L()), refrlp.L(refrlp.L(), refrlp.L(refrlp.L()))),
		refrlp.L(refrlp.Uint(1), refrlp.S(long)), refrlp.L(refrlp.S(long[:54])), refrlp.L(refrlp.S(long[:53]), refrlp.S(nil)),
		refrlp.L(refrlp.Uint(7), refrlp.L(refrlp.Uint(1), refrlp.S([]byte{0xff})), refrlp.S([]byte{1})),
	}
	var out [][]byte
	for _, it := range items {
		out = append(out, refrlp.Encode(it))
	}
	out = append(out, []byte{0x81, 0x05}, []byte{0xb8, 0x05, 1, 2, 3, 4, 5}, []byte{0xb9, 0x00, 0x38}, []byte{0xf8, 0x01, 0x01},
		[]byte{0xc2, 0x81, 0x05}, []byte{0x82, 0x00, 0x01}, []byte{0x00}, []byte{})
	return out
}
