//go:build verif

package rlp

// Reference side of C01: a type-directed model of the package's documented
// encoding/decoding rules (doc.go) on top of verif.local/kit/refrlp. Nothing in
// this file calls into the encoder/decoder under test.

import (
	"bytes"
	"errors"
	"fmt"
	"math/big"
	"reflect"
	"strings"

	"github.com/holiman/uint256"
	"pgregory.net/rapid"
	"verif.local/kit/refrlp"
)

type c01Fataler interface {
	Fatalf(format string, args ...any)
}

// ---------------------------------------------------------------------------
// shapes

type c01Kind int

const (
	c01Uint c01Kind = iota
	c01Bool
	c01Big
	c01U256
	c01Bytes     // []byte and string
	c01ByteArray // [N]byte
	c01Raw
	c01Slice
	c01Array
	c01Struct
	c01Any
)

type c01Shape struct {
	kind   c01Kind
	bits   int // uint
	n      int // array length
	elem   *c01Shape
	fields []*c01Shape
	hasRaw bool
}

var (
	c01BigT  = reflect.TypeOf(big.Int{})
	c01U256T = reflect.TypeOf(uint256.Int{})
	c01RawT  = reflect.TypeOf(RawValue{})
	c01AnyT  = reflect.TypeOf((*any)(nil)).Elem()
)

var c01ShapeCache = map[reflect.Type]*c01Shape{}

// c01ShapeOf derives the RLP shape of a Go type from the documented rules.
func c01ShapeOf(t reflect.Type) *c01Shape {
	if s, ok := c01ShapeCache[t]; ok {
		return s
	}
	s := c01ShapeOfUncached(t)
	c01ShapeCache[t] = s
	return s
}

func c01ShapeOfUncached(t reflect.Type) *c01Shape {
	switch {
	case t == c01RawT:
		return &c01Shape{kind: c01Raw, hasRaw: true}
	case t == c01BigT:
		return &c01Shape{kind: c01Big}
	case t == c01U256T:
		return &c01Shape{kind: c01U256}
	case t == c01AnyT:
		return &c01Shape{kind: c01Any}
	}
	switch t.Kind() {
	case reflect.Pointer:
		return c01ShapeOf(t.Elem())
	case reflect.Uint8, reflect.Uint16, reflect.Uint32, reflect.Uint64, reflect.Uint:
		return &c01Shape{kind: c01Uint, bits: t.Bits()}
	case reflect.Bool:
		return &c01Shape{kind: c01Bool}
	case reflect.String:
		return &c01Shape{kind: c01Bytes}
	case reflect.Slice:
		if t.Elem().Kind() == reflect.Uint8 {
			return &c01Shape{kind: c01Bytes}
		}
		e := c01ShapeOf(t.Elem())
		return &c01Shape{kind: c01Slice, elem: e, hasRaw: e.hasRaw}
	case reflect.Array:
		if t.Elem().Kind() == reflect.Uint8 {
			return &c01Shape{kind: c01ByteArray, n: t.Len()}
		}
		e := c01ShapeOf(t.Elem())
		return &c01Shape{kind: c01Array, n: t.Len(), elem: e, hasRaw: e.hasRaw}
	case reflect.Struct:
		s := &c01Shape{kind: c01Struct}
		for i := 0; i < t.NumField(); i++ {
			f := c01ShapeOf(t.Field(i).Type)
			s.fields = append(s.fields, f)
			s.hasRaw = s.hasRaw || f.hasRaw
		}
		return s
	}
	panic("c01: unsupported type in harness family: " + t.String())
}

// ---------------------------------------------------------------------------
// model: Go value -> item tree (independent of the encoder under test)

func c01Model(v reflect.Value) refrlp.Item {
	t := v.Type()
	switch {
	case t == c01RawT:
		return refrlp.R(v.Bytes())
	case t == c01BigT:
		b := v.Interface().(big.Int)
		return refrlp.BigInt(&b)
	case t == c01U256T:
		u := v.Interface().(uint256.Int)
		return refrlp.BigInt(u.ToBig())
	}
	switch t.Kind() {
	case reflect.Interface:
		return c01Model(v.Elem())
	case reflect.Pointer:
		return c01Model(v.Elem())
	case reflect.Uint8, reflect.Uint16, reflect.Uint32, reflect.Uint64, reflect.Uint:
		return refrlp.Uint(v.Uint())
	case reflect.Bool:
		if v.Bool() {
			return refrlp.S([]byte{1})
		}
		return refrlp.S(nil)
	case reflect.String:
		return refrlp.S([]byte(v.String()))
	case reflect.Slice, reflect.Array:
		if t.Elem().Kind() == reflect.Uint8 {
			b := make([]byte, v.Len())
			for i := range b {
				b[i] = byte(v.Index(i).Uint())
			}
			return refrlp.S(b)
		}
		it := refrlp.Item{IsList: true, List: []refrlp.Item{}}
		for i := 0; i < v.Len(); i++ {
			it.List = append(it.List, c01Model(v.Index(i)))
		}
		return it
	case reflect.Struct:
		it := refrlp.Item{IsList: true, List: []refrlp.Item{}}
		for i := 0; i < v.NumField(); i++ {
			it.List = append(it.List, c01Model(v.Field(i)))
		}
		return it
	}
	panic("c01: unsupported value type " + t.String())
}

// c01Equal is deep equality with big integers compared by value and nil slices
// equal to empty slices (the decoder produces empty, non-nil slices).
func c01Equal(a, b reflect.Value) bool {
	t := a.Type()
	if t != b.Type() {
		return false
	}
	switch {
	case t == c01BigT:
		x, y := a.Interface().(big.Int), b.Interface().(big.Int)
		return x.Cmp(&y) == 0
	case t == c01U256T:
		x, y := a.Interface().(uint256.Int), b.Interface().(uint256.Int)
		return x.Eq(&y)
	}
	switch t.Kind() {
	case reflect.Interface:
		if a.IsNil() || b.IsNil() {
			return a.IsNil() == b.IsNil()
		}
		return c01Equal(a.Elem(), b.Elem())
	case reflect.Pointer:
		if a.IsNil() || b.IsNil() {
			return a.IsNil() == b.IsNil()
		}
		return c01Equal(a.Elem(), b.Elem())
	case reflect.Uint8, reflect.Uint16, reflect.Uint32, reflect.Uint64, reflect.Uint:
		return a.Uint() == b.Uint()
	case reflect.Bool:
		return a.Bool() == b.Bool()
	case reflect.String:
		return a.String() == b.String()
	case reflect.Slice, reflect.Array:
		if a.Len() != b.Len() {
			return false
		}
		for i := 0; i < a.Len(); i++ {
			if !c01Equal(a.Index(i), b.Index(i)) {
				return false
			}
		}
		return true
	case reflect.Struct:
		for i := 0; i < a.NumField(); i++ {
			if !c01Equal(a.Field(i), b.Field(i)) {
				return false
			}
		}
		return true
	}
	panic("c01: unsupported type in equality " + t.String())
}

// ---------------------------------------------------------------------------
// reference type-directed decoder: bytes -> item tree of the given shape

var errC01Shape = errors.New("c01ref: input does not fit the target shape")

// c01RefDecode is the reference for DecodeBytes(b, *T): b must be exactly one
// value of T's shape, canonical everywhere except inside raw-value positions,
// whose own header must be canonical but whose content is not inspected.
func c01RefDecode(sh *c01Shape, b []byte) (refrlp.Item, error) {
	it, rest, err := c01RefDecodeFirst(sh, b)
	if err != nil {
		return refrlp.Item{}, err
	}
	if len(rest) != 0 {
		return refrlp.Item{}, refrlp.ErrTrailing
	}
	return it, nil
}

func c01RefDecodeFirst(sh *c01Shape, b []byte) (refrlp.Item, []byte, error) {
	h, err := refrlp.SplitHeader(b)
	if sh.kind == c01Raw && errors.Is(err, refrlp.ErrNonCanonByte) {
		// 0x81 followed by a byte < 0x80: the raw reader does not re-validate
		// this (documented for RawValue / Stream.Raw). It is well delimited.
		return refrlp.R(b[:2]), b[2:], nil
	}
	if err != nil {
		return refrlp.Item{}, nil, err
	}
	end := h.HeaderLen + h.ContentLen
	content, rest := b[h.HeaderLen:end], b[end:]
	isInt := func(maxBytes int) bool {
		return !h.IsList && (maxBytes < 0 || len(content) <= maxBytes) && (len(content) == 0 || content[0] != 0)
	}
	switch sh.kind {
	case c01Raw:
		return refrlp.R(b[:end]), rest, nil
	case c01Any:
		it, r, err := refrlp.DecodeFirst(b)
		return it, r, err
	case c01Uint:
		if !isInt(sh.bits / 8) {
			return refrlp.Item{}, nil, errC01Shape
		}
		return refrlp.S(content), rest, nil
	case c01Bool:
		if h.IsList || !(len(content) == 0 || (len(content) == 1 && content[0] == 1)) {
			return refrlp.Item{}, nil, errC01Shape
		}
		return refrlp.S(content), rest, nil
	case c01Big:
		if !isInt(-1) {
			return refrlp.Item{}, nil, errC01Shape
		}
		return refrlp.S(content), rest, nil
	case c01U256:
		if !isInt(32) {
			return refrlp.Item{}, nil, errC01Shape
		}
		return refrlp.S(content), rest, nil
	case c01Bytes:
		if h.IsList {
			return refrlp.Item{}, nil, errC01Shape
		}
		return refrlp.S(content), rest, nil
	case c01ByteArray:
		if h.IsList || len(content) != sh.n {
			return refrlp.Item{}, nil, errC01Shape
		}
		return refrlp.S(content), rest, nil
	case c01Slice, c01Array, c01Struct:
		if !h.IsList {
			return refrlp.Item{}, nil, errC01Shape
		}
		it := refrlp.Item{IsList: true, List: []refrlp.Item{}}
		for i := 0; len(content) > 0; i++ {
			var es *c01Shape
			switch sh.kind {
			case c01Struct:
				if i >= len(sh.fields) {
					return refrlp.Item{}, nil, errC01Shape
				}
				es = sh.fields[i]
			case c01Array:
				if i >= sh.n {
					return refrlp.Item{}, nil, errC01Shape
				}
				es = sh.elem
			default:
				es = sh.elem
			}
			c, r, err := c01RefDecodeFirst(es, content)
			if err != nil {
				return refrlp.Item{}, nil, err
			}
			it.List = append(it.List, c)
			content = r
		}
		if (sh.kind == c01Struct && len(it.List) != len(sh.fields)) || (sh.kind == c01Array && len(it.List) != sh.n) {
			return refrlp.Item{}, nil, errC01Shape
		}
		return it, rest, nil
	}
	panic("c01: bad shape kind")
}

// ---------------------------------------------------------------------------
// the type family

type c01Pair struct {
	A uint64
	B []byte
}

type c01Ints struct {
	U8  uint8
	U16 uint16
	U32 uint32
	U64 uint64
	U   uint
}

type c01Bigs struct {
	P  *big.Int
	V  big.Int
	UP *uint256.Int
	UV uint256.Int
}

type c01HeaderLike struct {
	Parent [32]byte
	Addr   [20]byte
	Bloom  [56]byte
	Diff   *big.Int
	Number *big.Int
	Gas    uint64
	Time   uint64
	Extra  []byte
	Nonce  [4]byte
}

type c01TxLike struct {
	Nonce uint64
	Price *big.Int
	Gas   uint64
	To    *[20]byte
	Value *uint256.Int
	Data  []byte
	V, R  *big.Int
}

type c01AccessTuple struct {
	Addr [20]byte
	Keys [][32]byte
}

type c01Nested struct {
	Flag bool
	P    c01Pair
	PP   *c01Pair
	L    []c01Pair
}

type c01Deep struct {
	N  c01Nested
	LL [][]uint16
	S  string
}

type c01WithRaw struct {
	A uint32
	R RawValue
	B string
}

type c01RawList struct {
	Items []RawValue
	Tail  RawValue
}

type c01Arrays struct {
	Z  [0]byte
	O  [1]byte
	Q  [4]byte
	UA [2]uint64
	EA [0]uint32
	SA [3]string
}

type c01Ptrs struct {
	PU *uint64
	PB *[]byte
	PS *string
	PF *bool
	PA *[4]byte
	PL *[]uint8
	PT *c01Pair
}

type c01Bools struct {
	A, B bool
	C    []bool
}

type c01Strings struct {
	A string
	B []string
	C [][]byte
}

type c01AnyHolder struct {
	N uint8
	X any
}

func c01T[T any]() reflect.Type { return reflect.TypeOf((*T)(nil)).Elem() }

// c01Family is the fixed family of target types (top-level types; values are
// always handled through a pointer to them).
var c01Family = []reflect.Type{
	c01T[uint8](), c01T[uint16](), c01T[uint32](), c01T[uint64](), c01T[uint](), c01T[bool](),
	c01T[*big.Int](), c01T[big.Int](), c01T[*uint256.Int](), c01T[uint256.Int](),
	c01T[[]byte](), c01T[string](), c01T[RawValue](),
	c01T[[0]byte](), c01T[[1]byte](), c01T[[4]byte](), c01T[[20]byte](), c01T[[32]byte](), c01T[[56]byte](),
	c01T[[]uint64](), c01T[[]uint16](), c01T[[][]byte](), c01T[[]string](), c01T[[]*big.Int](), c01T[[]bool](),
	c01T[[3]uint16](), c01T[[2][]byte](), c01T[[][]uint32](), c01T[[][][]byte](), c01T[[]RawValue](),
	c01T[c01Pair](), c01T[*c01Pair](), c01T[[]c01Pair](), c01T[[]*c01Pair](), c01T[[2]c01Pair](),
	c01T[c01Ints](), c01T[c01Bigs](), c01T[c01HeaderLike](), c01T[c01TxLike](), c01T[[]c01TxLike](),
	c01T[c01AccessTuple](), c01T[[]c01AccessTuple](), c01T[c01Nested](), c01T[c01Deep](),
	c01T[c01WithRaw](), c01T[c01RawList](), c01T[c01Arrays](), c01T[c01Ptrs](), c01T[c01Bools](),
	c01T[c01Strings](), c01T[any](), c01T[[]any](), c01T[c01AnyHolder](),
}

// c01DynTypes bounds the number of distinct constructed types per process: the
// package under test caches per-type codecs forever (copying its cache on every
// new type), so an unbounded stream of fresh types would make long runs quadratic.
const c01DynTypes = 4096

var c01DynCache = map[int]reflect.Type{}

// c01DynType draws one of c01DynTypes types built from the type grammar (bounded
// nesting) with package reflect. The type is a pure function of the drawn index.
// Struct fields are exported and untagged.
func c01DynType(rt *rapid.T) reflect.Type {
	idx := c01Pick(rt, "dyn-type", c01DynTypes)
	if t, ok := c01DynCache[idx]; ok {
		return t
	}
	x := uint64(idx)*0x9e3779b97f4a7c15 + 0x1234567
	next := func(n int) int {
		x ^= x << 13
		x ^= x >> 7
		x ^= x << 17
		return int((x >> 20) % uint64(n))
	}
	t := c01BuildType(next, 3)
	c01DynCache[idx] = t
	return t
}

func c01BuildType(next func(int) int, depth int) reflect.Type {
	leaves := []reflect.Type{
		c01T[uint8](), c01T[uint16](), c01T[uint32](), c01T[uint64](), c01T[uint](), c01T[bool](),
		c01T[*big.Int](), c01T[big.Int](), c01T[*uint256.Int](), c01T[uint256.Int](),
		c01T[[]byte](), c01T[string](), c01T[RawValue](),
		c01T[[0]byte](), c01T[[1]byte](), c01T[[4]byte](), c01T[[20]byte](), c01T[[32]byte](),
	}
	k := 0
	if depth > 0 {
		k = next(7)
		if depth == 3 && k < 2 {
			k = 2 + next(5) // the top level of a constructed type is composite
		}
	}
	switch k {
	case 0, 1:
		return leaves[next(len(leaves))]
	case 2:
		return reflect.SliceOf(c01BuildType(next, depth-1))
	case 3:
		return reflect.ArrayOf(next(4), c01BuildType(next, depth-1))
	case 4:
		e := c01BuildType(next, depth-1)
		if e.Kind() == reflect.Pointer {
			return e
		}
		return reflect.PointerTo(e)
	default:
		n := 2 + next(4)
		fs := make([]reflect.StructField, n)
		for i := range fs {
			fs[i] = reflect.StructField{Name: fmt.Sprintf("F%d", i), Type: c01BuildType(next, depth-1)}
		}
		return reflect.StructOf(fs)
	}
}

// ---------------------------------------------------------------------------
// value generators

var c01HostileLens = []int{0, 1, 1, 2, 3, 8, 20, 26, 27, 31, 32, 33, 53, 54, 55, 56, 57, 60, 255, 256, 257}

func c01GenBytes(rt *rapid.T, label string) []byte {
	var n int
	if rapid.IntRange(0, 2).Draw(rt, label+"-lenmode") == 0 {
		n = rapid.IntRange(0, 40).Draw(rt, label+"-len")
	} else {
		n = rapid.SampledFrom(c01HostileLens).Draw(rt, label+"-hlen")
	}
	return c01GenBytesN(rt, label, n)
}

func c01GenBytesN(rt *rapid.T, label string, n int) []byte {
	b := make([]byte, n)
	if n == 0 {
		return b
	}
	if n <= 8 {
		copy(b, rapid.SliceOfN(rapid.Byte(), n, n).Draw(rt, label+"-bytes"))
	} else {
		// bulk content from a drawn seed (xorshift), cheap for rapid to shrink
		x := rapid.Uint64().Draw(rt, label+"-seed") | 1
		for i := range b {
			x ^= x << 13
			x ^= x >> 7
			x ^= x << 17
			b[i] = byte(x >> 32)
		}
	}
	// hostile first byte
	switch rapid.IntRange(0, 5).Draw(rt, label+"-first") {
	case 0:
		b[0] = 0x00
	case 1:
		b[0] = 0x7f
	case 2:
		b[0] = 0x80
	case 3:
		b[0] = 0xff
	}
	return b
}

var c01HostileUints = []uint64{0, 1, 2, 55, 56, 127, 128, 129, 255, 256, 257, 0xffff, 0x10000, 0xffffff, 0x1000000,
	0xffffffff, 0x100000000, 1<<40 - 1, 1 << 40, 1<<48 - 1, 1 << 48, 1<<56 - 1, 1 << 56, 1<<63 - 1, 1 << 63, 1<<64 - 1}

func c01GenUint(rt *rapid.T, bits int) uint64 {
	var v uint64
	if rapid.Bool().Draw(rt, "uint-hostile") {
		v = rapid.SampledFrom(c01HostileUints).Draw(rt, "uint-h")
	} else {
		v = rapid.Uint64().Draw(rt, "uint-r") >> uint(rapid.IntRange(0, 63).Draw(rt, "uint-shift"))
	}
	if bits < 64 {
		v &= 1<<uint(bits) - 1
	}
	return v
}

// c01GenBig draws a non-negative integer of at most maxBytes bytes.
func c01GenBig(rt *rapid.T, maxBytes int) *big.Int {
	switch rapid.IntRange(0, 3).Draw(rt, "big-mode") {
	case 0:
		return new(big.Int).SetUint64(c01GenUint(rt, 64))
	case 1:
		// around powers of two
		k := rapid.SampledFrom([]int{7, 8, 63, 64, 65, 127, 128, 255, 256, 257, 300}).Draw(rt, "big-pow")
		v := new(big.Int).Lsh(big.NewInt(1), uint(k))
		v.Add(v, big.NewInt(int64(rapid.IntRange(-1, 1).Draw(rt, "big-adj"))))
		if v.BitLen() > maxBytes*8 {
			v.Lsh(big.NewInt(1), uint(maxBytes*8))
			v.Sub(v, big.NewInt(1))
		}
		return v
	default:
		n := rapid.IntRange(0, maxBytes).Draw(rt, "big-len")
		return new(big.Int).SetBytes(c01GenBytesN(rt, "big", n))
	}
}

// c01GenItem draws an arbitrary item tree (strings and lists).
func c01GenItem(rt *rapid.T, depth int) refrlp.Item {
	if depth == 0 || rapid.IntRange(0, 2).Draw(rt, "item-kind") == 0 {
		return refrlp.S(c01GenBytes(rt, "item"))
	}
	n := rapid.IntRange(0, 4).Draw(rt, "item-n")
	it := refrlp.Item{IsList: true, List: []refrlp.Item{}}
	for i := 0; i < n; i++ {
		it.List = append(it.List, c01GenItem(rt, depth-1))
	}
	return it
}

func c01ItemToAny(it refrlp.Item) any {
	if !it.IsList {
		return append([]byte{}, it.Str...)
	}
	l := make([]any, 0, len(it.List))
	for _, c := range it.List {
		l = append(l, c01ItemToAny(c))
	}
	return l
}

// c01GenValue fills v (addressable, zero) with a drawn value of its type.
func c01GenValue(rt *rapid.T, v reflect.Value) {
	t := v.Type()
	switch {
	case t == c01RawT:
		v.SetBytes(refrlp.Encode(c01GenItem(rt, 2)))
		return
	case t == c01BigT:
		v.Set(reflect.ValueOf(*c01GenBig(rt, 40)))
		return
	case t == c01U256T:
		u, overflow := uint256.FromBig(c01GenBig(rt, 32))
		if overflow {
			panic("c01: generator produced > 256 bit")
		}
		v.Set(reflect.ValueOf(*u))
		return
	case t == c01AnyT:
		v.Set(reflect.ValueOf(c01ItemToAny(c01GenItem(rt, 2))))
		return
	}
	switch t.Kind() {
	case reflect.Pointer:
		p := reflect.New(t.Elem())
		c01GenValue(rt, p.Elem())
		v.Set(p)
	case reflect.Uint8, reflect.Uint16, reflect.Uint32, reflect.Uint64, reflect.Uint:
		v.SetUint(c01GenUint(rt, t.Bits()))
	case reflect.Bool:
		v.SetBool(rapid.Bool().Draw(rt, "bool"))
	case reflect.String:
		v.SetString(string(c01GenBytes(rt, "str")))
	case reflect.Slice:
		if t.Elem().Kind() == reflect.Uint8 {
			b := c01GenBytes(rt, "bytes")
			if len(b) == 0 && rapid.Bool().Draw(rt, "nil-bytes") {
				return // nil slice
			}
			v.SetBytes(b)
			return
		}
		n := rapid.IntRange(0, 4).Draw(rt, "slice-n")
		if n == 0 && rapid.Bool().Draw(rt, "nil-slice") {
			return
		}
		s := reflect.MakeSlice(t, n, n)
		for i := 0; i < n; i++ {
			c01GenValue(rt, s.Index(i))
		}
		v.Set(s)
	case reflect.Array:
		if t.Elem().Kind() == reflect.Uint8 {
			reflect.Copy(v, reflect.ValueOf(c01GenBytesN(rt, "barr", t.Len())))
			return
		}
		for i := 0; i < t.Len(); i++ {
			c01GenValue(rt, v.Index(i))
		}
	case reflect.Struct:
		for i := 0; i < t.NumField(); i++ {
			c01GenValue(rt, v.Field(i))
		}
	default:
		panic("c01: cannot generate " + t.String())
	}
}

// c01Pick draws an index in [0,n) without rapid's bias towards small values
// (a drawn word is mixed before the reduction), so that every type of the family
// gets an equal share.
func c01Pick(rt *rapid.T, label string, n int) int {
	x := rapid.Uint64().Draw(rt, label)
	x += 0x9e3779b97f4a7c15
	x = (x ^ (x >> 30)) * 0xbf58476d1ce4e5b9
	x = (x ^ (x >> 27)) * 0x94d049bb133111eb
	x ^= x >> 31
	return int(x % uint64(n))
}

// c01DrawType picks a type: mostly from the fixed family, sometimes a freshly
// constructed one.
func c01DrawType(rt *rapid.T) (reflect.Type, string) {
	if c01Pick(rt, "dyn", 5) == 0 {
		return c01DynType(rt), "dyn"
	}
	return c01Family[c01Pick(rt, "type", len(c01Family))], "fixed"
}

// ---------------------------------------------------------------------------
// item statistics helpers

type c01ItemInfo struct {
	depth      int  // list nesting
	long       bool // some payload >= 56 bytes
	edge       bool // some payload of exactly 55 or 56 bytes
	items      int  // number of nodes
	singleByte bool // some single byte < 0x80 string
}

func c01Inspect(it refrlp.Item, info *c01ItemInfo) (encLen int) {
	if it.Raw != nil {
		if sub, err := refrlp.Decode(it.Raw); err == nil {
			return c01Inspect(sub, info)
		}
		info.items++
		return len(it.Raw)
	}
	info.items++
	payload := 0
	if !it.IsList {
		payload = len(it.Str)
		if payload == 1 && it.Str[0] < 0x80 {
			info.singleByte = true
			return 1
		}
	} else {
		d := 0
		for _, c := range it.List {
			var ci c01ItemInfo
			payload += c01Inspect(c, &ci)
			info.items += ci.items
			info.long = info.long || ci.long
			info.edge = info.edge || ci.edge
			info.singleByte = info.singleByte || ci.singleByte
			if ci.depth > d {
				d = ci.depth
			}
		}
		info.depth = d + 1
	}
	if payload >= 56 {
		info.long = true
	}
	if payload == 55 || payload == 56 {
		info.edge = true
	}
	hl := 1
	for n := payload; payload >= 56 && n > 0; n >>= 8 {
		hl++
	}
	return hl + payload
}

// c01CountNodes counts the nodes for which EncodeForm asks for a header form.
func c01CountNodes(it refrlp.Item) int {
	if it.Raw != nil {
		return 0
	}
	n := 1
	for _, c := range it.List {
		n += c01CountNodes(c)
	}
	return n
}

func c01TypeName(t reflect.Type) string {
	s := t.String()
	s = strings.ReplaceAll(s, "rlp.", "")
	if len(s) > 60 {
		s = s[:60] + "..."
	}
	return s
}

// ---------------------------------------------------------------------------
// byte-level mutation of encodings

// c01SloppyEncode re-encodes an item tree with drawn non-canonical header forms
// at some nodes (at least one, if the tree has any header); it reports whether
// the result is in fact non-canonical according to refrlp.
func c01SloppyEncode(rt *rapid.T, it refrlp.Item) ([]byte, bool) {
	nodes := c01CountNodes(it)
	if nodes == 0 {
		return refrlp.Encode(it), false
	}
	forced := rapid.IntRange(0, nodes-1).Draw(rt, "sloppy-node")
	idx := 0
	enc := refrlp.EncodeForm(it, func(n refrlp.Item, payloadLen int) refrlp.Form {
		me := idx
		idx++
		if me != forced && rapid.IntRange(0, 7).Draw(rt, "sloppy-here") != 0 {
			return refrlp.Form{}
		}
		var f refrlp.Form
		single := !n.IsList && payloadLen == 1 && n.Str[0] < 0x80
		switch rapid.IntRange(0, 3).Draw(rt, "sloppy-kind") {
		case 0: // long form for a short payload
			f.Long = true
		case 1: // leading zero length bytes
			f.Long = true
			f.LenBytes = rapid.IntRange(2, 8).Draw(rt, "sloppy-lenbytes")
		case 2: // single byte wrapped as a string
			f.WrapSingle = true
			if !single {
				f.Long = true
			}
		default:
			f.LenBytes = rapid.IntRange(1, 8).Draw(rt, "sloppy-lenbytes2")
			f.Long = true
		}
		return f
	})
	return enc, refrlp.Classify(enc) != refrlp.Canonical
}

// c01Mutate applies one byte-level mutation.
func c01Mutate(rt *rapid.T, b []byte) ([]byte, string) {
	out := append([]byte{}, b...)
	switch rapid.IntRange(0, 8).Draw(rt, "mut") {
	case 0:
		if len(out) > 0 {
			i := rapid.IntRange(0, len(out)-1).Draw(rt, "mut-pos")
			out[i] ^= 1 << uint(rapid.IntRange(0, 7).Draw(rt, "mut-bit"))
		}
		return out, "flip"
	case 1:
		if len(out) > 0 {
			return out[:rapid.IntRange(0, len(out)-1).Draw(rt, "mut-cut")], "truncate"
		}
		return out, "truncate"
	case 2:
		return append(out, c01GenBytesN(rt, "mut-ext", rapid.IntRange(1, 3).Draw(rt, "mut-extn"))...), "extend"
	case 3:
		if len(out) > 0 {
			// header / length byte +-1 (bias to the first bytes)
			i := rapid.IntRange(0, min(len(out)-1, 3)).Draw(rt, "mut-hpos")
			if rapid.Bool().Draw(rt, "mut-up") {
				out[i]++
			} else {
				out[i]--
			}
		}
		return out, "len+-1"
	case 4:
		if len(out) > 1 {
			i := rapid.IntRange(0, len(out)-1).Draw(rt, "mut-del")
			return append(out[:i], out[i+1:]...), "delete-byte"
		}
		return out, "delete-byte"
	case 5:
		i := rapid.IntRange(0, len(out)).Draw(rt, "mut-ins")
		ins := rapid.SampledFrom([]byte{0x00, 0x01, 0x7f, 0x80, 0x81, 0xb7, 0xb8, 0xc0, 0xc1, 0xf7, 0xf8, 0xff}).Draw(rt, "mut-insb")
		return append(out[:i], append([]byte{ins}, out[i:]...)...), "insert-byte"
	case 6:
		if len(out) > 0 {
			i := rapid.IntRange(0, len(out)-1).Draw(rt, "mut-set")
			out[i] = rapid.SampledFrom([]byte{0x00, 0x01, 0x7f, 0x80, 0x81, 0xb7, 0xb8, 0xb9, 0xc0, 0xf7, 0xf8, 0xf9, 0xff}).Draw(rt, "mut-setb")
		}
		return out, "set-byte"
	case 7:
		// splice: replace a tail with the tail of another encoding
		other := refrlp.Encode(c01GenItem(rt, 2))
		i := rapid.IntRange(0, len(out)).Draw(rt, "mut-splice-a")
		j := rapid.IntRange(0, len(other)).Draw(rt, "mut-splice-b")
		return append(out[:i], other[j:]...), "splice"
	default:
		// wrap the whole encoding into a string or list header
		if rapid.Bool().Draw(rt, "mut-wrap-list") {
			return refrlp.WrapList(out), "wrap-list"
		}
		return refrlp.EncodeString(out), "wrap-string"
	}
}

// c01MutateItem applies a structural mutation to a tree (result is re-encoded
// canonically by the caller): drop/duplicate an element, leading zero in an
// integer-looking string, string<->list swap.
func c01MutateItem(rt *rapid.T, it refrlp.Item) (refrlp.Item, string) {
	if it.Raw != nil {
		if sub, err := refrlp.Decode(it.Raw); err == nil {
			it = sub
		} else {
			return refrlp.S(nil), "raw-replaced"
		}
	}
	if it.IsList && len(it.List) > 0 && rapid.IntRange(0, 2).Draw(rt, "imut-descend") != 0 {
		i := rapid.IntRange(0, len(it.List)-1).Draw(rt, "imut-child")
		cp := refrlp.Item{IsList: true, List: append([]refrlp.Item{}, it.List...)}
		var what string
		cp.List[i], what = c01MutateItem(rt, cp.List[i])
		return cp, what
	}
	if it.IsList {
		cp := refrlp.Item{IsList: true, List: append([]refrlp.Item{}, it.List...)}
		switch rapid.IntRange(0, 3).Draw(rt, "imut-list") {
		case 0:
			if len(cp.List) > 0 {
				i := rapid.IntRange(0, len(cp.List)-1).Draw(rt, "imut-drop")
				cp.List = append(cp.List[:i], cp.List[i+1:]...)
			}
			return cp, "drop-elem"
		case 1:
			if len(cp.List) > 0 {
				i := rapid.IntRange(0, len(cp.List)-1).Draw(rt, "imut-dup")
				cp.List = append(cp.List[:i+1], cp.List[i:]...)
				return cp, "dup-elem"
			}
			cp.List = append(cp.List, refrlp.S(nil))
			return cp, "add-elem"
		case 2:
			cp.List = append(cp.List, c01GenItem(rt, 1))
			return cp, "add-elem"
		default:
			return refrlp.S(refrlp.Encode(cp)[1:]), "list-to-string"
		}
	}
	switch rapid.IntRange(0, 3).Draw(rt, "imut-str") {
	case 0:
		return refrlp.S(append([]byte{0}, it.Str...)), "leading-zero"
	case 1:
		return refrlp.S(append(append([]byte{}, it.Str...), 0x01)), "longer-string"
	case 2:
		if len(it.Str) > 0 {
			return refrlp.S(it.Str[:len(it.Str)-1]), "shorter-string"
		}
		return refrlp.S([]byte{0}), "leading-zero"
	default:
		return refrlp.L(it), "string-to-list"
	}
}

func c01Hex(b []byte) string {
	if len(b) > 80 {
		return fmt.Sprintf("%x...(%d bytes)", b[:80], len(b))
	}
	return fmt.Sprintf("%x", b)
}

var _ = bytes.Equal
